//! C20: the database wrappers of the crate, composed for real, against a generated map database.
//! Component `db` (stateful). A case: `begin db base|empty`, then (every line prefixed `db `):
//!   base-acct a bal nonce codehash code khash | base-slot a k v | base-code h bytes khash | base-bh n h
//!   wrap cache|state|wrapref|box|mutref|components
//!   q|r basic a | q|r storage a k | q|r code h | q|r bh n hint | q|r hs a      (q = Database, r = DatabaseRef)
//!   ins-info a bal nonce codehash code khash | ins-slot a k v | rep-storage a k:v/k:v | load a
//!   commit addr,flags,bal,nonce,codehash,code,khash,k:v/k:v ...
//!   paths basic a | paths storage a k | paths code h | paths bh n hint | paths hs a
//!       = the SAME read through every access path of the current value (only where the value can be
//!       borrowed as a `DatabaseRef`: map, EmptyDB, CacheDB, Box<CacheDB>, &mut CacheDB, components):
//!       ref (`x_ref` on the value), amp (`&T`), ampamp (`&&T`), boxref (`Box<&T>`), arc, rc,
//!       wrap (`WrapDatabaseRef(&T)` as `Database`), wrapmut (`&mut WrapDatabaseRef`), wrapbox (`Box<WrapDatabaseRef>`),
//!       nested / nestedref (a fresh `CacheDB::new(&T)` through `Database` / `DatabaseRef`), nestedagain (same
//!       query again on that nested layer), nested2 / nested2ref (`CacheDB<CacheDB<&T>>`), state (`State` over
//!       `WrapDatabaseRef(&T)`, `basic` first for a storage read), comp / compref (`DatabaseComponents` over `&T`).
//!       reply: `ref=<answer>;amp=<answer>;…`; nothing is written to the current value.
//! replies: `ok`, `bad-op`, `panic`, `none`, `some bal nonce codehash code`, a word, code bytes, `0|1`,
//! and for load `<account_state> bal nonce codehash code`.
use crate::*;
use revm::db::{AccountState, CacheDB, DbAccount, EmptyDB, WrapDatabaseRef};
use revm::primitives::db::{BlockHash, BlockHashRef, DatabaseComponents, State as DbStateTrait, StateRef};
use revm::primitives::{
    keccak256, Account, AccountInfo, AccountStatus, Address, Bytecode, Bytes, EvmStorageSlot, HashMap, B256,
    KECCAK_EMPTY, U256,
};
use revm::{Database, DatabaseCommit, DatabaseRef};
use std::collections::BTreeMap;
use std::convert::Infallible;
use std::sync::Arc;

/// The generated underlying database: plain maps; `has_storage` implemented properly.
#[derive(Clone, Default, Debug)]
pub struct MapDb {
    pub accts: BTreeMap<Address, AccountInfo>,
    pub slots: BTreeMap<(Address, U256), U256>,
    pub codes: BTreeMap<B256, Bytecode>,
    pub bhs: BTreeMap<u64, B256>,
}
impl DatabaseRef for MapDb {
    type Error = Infallible;
    fn basic_ref(&self, a: Address) -> Result<Option<AccountInfo>, Infallible> {
        Ok(self.accts.get(&a).cloned())
    }
    fn code_by_hash_ref(&self, h: B256) -> Result<Bytecode, Infallible> {
        Ok(self.codes.get(&h).cloned().unwrap_or_default())
    }
    fn has_storage_ref(&self, a: Address) -> Result<bool, Infallible> {
        Ok(self.slots.iter().any(|((x, _), v)| *x == a && !v.is_zero()))
    }
    fn storage_ref(&self, a: Address, k: U256) -> Result<U256, Infallible> {
        Ok(self.slots.get(&(a, k)).copied().unwrap_or_default())
    }
    fn block_hash_ref(&self, n: u64) -> Result<B256, Infallible> {
        Ok(self.bhs.get(&n).copied().unwrap_or_default())
    }
}
impl Database for MapDb {
    type Error = Infallible;
    fn basic(&mut self, a: Address) -> Result<Option<AccountInfo>, Infallible> {
        self.basic_ref(a)
    }
    fn code_by_hash(&mut self, h: B256) -> Result<Bytecode, Infallible> {
        self.code_by_hash_ref(h)
    }
    fn has_storage(&mut self, a: Address) -> Result<bool, Infallible> {
        self.has_storage_ref(a)
    }
    fn storage(&mut self, a: Address, k: U256) -> Result<U256, Infallible> {
        self.storage_ref(a, k)
    }
    fn block_hash(&mut self, n: u64) -> Result<B256, Infallible> {
        self.block_hash_ref(n)
    }
}
impl StateRef for MapDb {
    type Error = Infallible;
    fn basic(&self, a: Address) -> Result<Option<AccountInfo>, Infallible> {
        self.basic_ref(a)
    }
    fn code_by_hash(&self, h: B256) -> Result<Bytecode, Infallible> {
        self.code_by_hash_ref(h)
    }
    fn storage(&self, a: Address, k: U256) -> Result<U256, Infallible> {
        self.storage_ref(a, k)
    }
}
impl DbStateTrait for MapDb {
    type Error = Infallible;
    fn basic(&mut self, a: Address) -> Result<Option<AccountInfo>, Infallible> {
        self.basic_ref(a)
    }
    fn code_by_hash(&mut self, h: B256) -> Result<Bytecode, Infallible> {
        self.code_by_hash_ref(h)
    }
    fn storage(&mut self, a: Address, k: U256) -> Result<U256, Infallible> {
        self.storage_ref(a, k)
    }
}
impl BlockHashRef for MapDb {
    type Error = Infallible;
    fn block_hash(&self, n: u64) -> Result<B256, Infallible> {
        self.block_hash_ref(n)
    }
}
impl BlockHash for MapDb {
    type Error = Infallible;
    fn block_hash(&mut self, n: u64) -> Result<B256, Infallible> {
        self.block_hash_ref(n)
    }
}

type DynRef = Box<dyn DatabaseRef<Error = Infallible>>;
type ArcRef = Arc<dyn DatabaseRef<Error = Infallible>>;
type DynMut = Box<dyn Database<Error = Infallible>>;
type Comp = DatabaseComponents<MapDb, MapDb>;

/// `DatabaseComponents` has its own error enum; this adapter only unwraps it (every method,
/// `has_storage` included, is the one of `DatabaseComponents`).
pub struct CompAdapter(pub Comp);
impl Database for CompAdapter {
    type Error = Infallible;
    fn basic(&mut self, a: Address) -> Result<Option<AccountInfo>, Infallible> {
        Ok(Database::basic(&mut self.0, a).unwrap())
    }
    fn code_by_hash(&mut self, h: B256) -> Result<Bytecode, Infallible> {
        Ok(Database::code_by_hash(&mut self.0, h).unwrap())
    }
    fn has_storage(&mut self, a: Address) -> Result<bool, Infallible> {
        Ok(Database::has_storage(&mut self.0, a).unwrap())
    }
    fn storage(&mut self, a: Address, k: U256) -> Result<U256, Infallible> {
        Ok(Database::storage(&mut self.0, a, k).unwrap())
    }
    fn block_hash(&mut self, n: u64) -> Result<B256, Infallible> {
        Ok(Database::block_hash(&mut self.0, n).unwrap())
    }
}
impl DatabaseRef for CompAdapter {
    type Error = Infallible;
    fn basic_ref(&self, a: Address) -> Result<Option<AccountInfo>, Infallible> {
        Ok(self.0.basic_ref(a).unwrap())
    }
    fn code_by_hash_ref(&self, h: B256) -> Result<Bytecode, Infallible> {
        Ok(self.0.code_by_hash_ref(h).unwrap())
    }
    fn has_storage_ref(&self, a: Address) -> Result<bool, Infallible> {
        Ok(self.0.has_storage_ref(a).unwrap())
    }
    fn storage_ref(&self, a: Address, k: U256) -> Result<U256, Infallible> {
        Ok(self.0.storage_ref(a, k).unwrap())
    }
    fn block_hash_ref(&self, n: u64) -> Result<B256, Infallible> {
        Ok(self.0.block_hash_ref(n).unwrap())
    }
}

/// owner of a database that is queried through a fresh `&mut` each time (`impl Database for &mut T`)
pub struct ViaMutRef(pub Box<Cur>);
impl Database for ViaMutRef {
    type Error = Infallible;
    fn basic(&mut self, a: Address) -> Result<Option<AccountInfo>, Infallible> {
        let mut r: &mut dyn Database<Error = Infallible> = self.0.dyn_mut();
        <&mut dyn Database<Error = Infallible> as Database>::basic(&mut r, a)
    }
    fn code_by_hash(&mut self, h: B256) -> Result<Bytecode, Infallible> {
        let mut r: &mut dyn Database<Error = Infallible> = self.0.dyn_mut();
        <&mut dyn Database<Error = Infallible> as Database>::code_by_hash(&mut r, h)
    }
    fn has_storage(&mut self, a: Address) -> Result<bool, Infallible> {
        let mut r: &mut dyn Database<Error = Infallible> = self.0.dyn_mut();
        <&mut dyn Database<Error = Infallible> as Database>::has_storage(&mut r, a)
    }
    fn storage(&mut self, a: Address, k: U256) -> Result<U256, Infallible> {
        let mut r: &mut dyn Database<Error = Infallible> = self.0.dyn_mut();
        <&mut dyn Database<Error = Infallible> as Database>::storage(&mut r, a, k)
    }
    fn block_hash(&mut self, n: u64) -> Result<B256, Infallible> {
        let mut r: &mut dyn Database<Error = Infallible> = self.0.dyn_mut();
        <&mut dyn Database<Error = Infallible> as Database>::block_hash(&mut r, n)
    }
}

pub enum Cur {
    Map(MapDb),
    Empty(EmptyDB),
    Cache(CacheDB<DynRef>),
    State(revm::db::State<DynMut>),
    WrapRef(WrapDatabaseRef<ArcRef>),
    Boxed(DynMut),
    BoxedCache(Box<CacheDB<DynRef>>),
    MutRef(ViaMutRef),
    Comp(CompAdapter),
}
impl Cur {
    pub fn dyn_mut(&mut self) -> &mut dyn Database<Error = Infallible> {
        match self {
            Cur::Map(d) => d,
            Cur::Empty(d) => d,
            Cur::Cache(d) => d,
            Cur::State(d) => d,
            Cur::WrapRef(d) => d,
            Cur::Boxed(d) => d,
            Cur::BoxedCache(d) => d,
            Cur::MutRef(d) => d,
            Cur::Comp(d) => d,
        }
    }
    pub fn dyn_ref(&self) -> Option<&dyn DatabaseRef<Error = Infallible>> {
        match self {
            Cur::Map(d) => Some(d),
            Cur::Empty(d) => Some(d),
            Cur::Cache(d) => Some(d),
            Cur::Comp(d) => Some(d),
            _ => None,
        }
    }
    fn can_ref(&self) -> bool {
        self.dyn_ref().is_some()
    }
    /// every value that can be borrowed as a `DatabaseRef` (for `r` / `paths`): as `dyn_ref`, plus
    /// `Box<CacheDB>` (auto_impl `Box`) and the `CacheDB` behind a `&mut`
    pub fn ref_view(&self) -> Option<&dyn DatabaseRef<Error = Infallible>> {
        match self {
            Cur::BoxedCache(d) => Some(d),
            Cur::MutRef(ViaMutRef(inner)) => match inner.as_ref() {
                Cur::Cache(d) => Some(d),
                _ => None,
            },
            c => c.dyn_ref(),
        }
    }
    fn into_ref(self) -> DynRef {
        match self {
            Cur::Map(d) => Box::new(d),
            Cur::Empty(d) => Box::new(d),
            Cur::Cache(d) => Box::new(d),
            Cur::Comp(d) => Box::new(d),
            _ => unreachable!(),
        }
    }
    fn into_arc(self) -> ArcRef {
        match self {
            Cur::Map(d) => Arc::new(d),
            Cur::Empty(d) => Arc::new(d),
            Cur::Cache(d) => Arc::new(d),
            Cur::Comp(d) => Arc::new(d),
            _ => unreachable!(),
        }
    }
    fn into_mut(self) -> DynMut {
        match self {
            Cur::Map(d) => Box::new(d),
            Cur::Empty(d) => Box::new(d),
            Cur::Cache(d) => Box::new(d),
            Cur::State(d) => Box::new(d),
            Cur::WrapRef(d) => Box::new(d),
            Cur::Boxed(d) => Box::new(d),
            Cur::BoxedCache(d) => Box::new(d),
            Cur::MutRef(d) => Box::new(d),
            Cur::Comp(d) => Box::new(d),
        }
    }
}

pub fn addr(t: &str) -> Option<Address> {
    let w = U256::from_str_radix(t, 16).ok()?;
    Some(Address::from_word(B256::from(w)))
}
pub fn word(t: &str) -> Option<U256> {
    U256::from_str_radix(t, 16).ok()
}
pub fn hash(t: &str) -> Option<B256> {
    word(t).map(B256::from)
}
pub fn hxh(h: B256) -> String {
    hx(U256::from_be_bytes(h.0))
}
pub fn hxa(a: Address) -> String {
    hx(U256::from_be_bytes(a.into_word().0))
}
fn bytes_of(t: &str) -> Option<Vec<u8>> {
    if t == "-" {
        return Some(vec![]);
    }
    if t.len() % 2 != 0 {
        return None;
    }
    (0..t.len() / 2).map(|i| u8::from_str_radix(&t[2 * i..2 * i + 2], 16).ok()).collect()
}
fn code_of(t: &str) -> Option<Option<Bytecode>> {
    if t == "none" {
        return Some(None);
    }
    Some(Some(Bytecode::new_legacy(Bytes::from(bytes_of(t)?))))
}
fn info_of(bal: &str, nonce: &str, ch: &str, code: &str) -> Option<AccountInfo> {
    Some(AccountInfo {
        balance: word(bal)?,
        nonce: u64::from_str_radix(nonce, 16).ok()?,
        code_hash: hash(ch)?,
        code: code_of(code)?,
    })
}
fn slots_of(t: &str) -> Option<Vec<(U256, U256)>> {
    if t == "-" {
        return Some(vec![]);
    }
    t.split('/')
        .map(|kv| {
            let mut it = kv.split(':');
            let k = word(it.next()?)?;
            let v = word(it.next()?)?;
            if it.next().is_some() {
                return None;
            }
            Some((k, v))
        })
        .collect()
}
fn code_str(c: &Bytecode) -> String {
    hxb(&c.original_bytes())
}
fn info_str(i: &AccountInfo) -> String {
    format!(
        "{} {:x} {} {}",
        hx(i.balance),
        i.nonce,
        hxh(i.code_hash),
        match &i.code {
            None => "none".to_string(),
            Some(c) => code_str(c),
        }
    )
}
fn opt_info_str(i: &Option<AccountInfo>) -> String {
    match i {
        None => "none".into(),
        Some(i) => format!("some {}", info_str(i)),
    }
}
fn change_of(t: &str) -> Option<(Address, Account)> {
    let p: Vec<&str> = t.split(',').collect();
    if p.len() != 8 {
        return None;
    }
    let a = addr(p[0])?;
    let info = info_of(p[2], p[3], p[4], p[5])?;
    let mut status = AccountStatus::Loaded;
    if p[1].contains('t') {
        status |= AccountStatus::Touched;
    }
    if p[1].contains('s') {
        status |= AccountStatus::SelfDestructed;
    }
    if p[1].contains('c') {
        status |= AccountStatus::Created;
    }
    let mut storage = HashMap::default();
    for (k, v) in slots_of(p[7])? {
        storage.insert(k, EvmStorageSlot { original_value: U256::ZERO, present_value: v, is_cold: false });
    }
    Some((a, Account { info, storage, status }))
}
fn changes_of(ts: &[&str]) -> Option<HashMap<Address, Account>> {
    let mut m = HashMap::default();
    for t in ts {
        let (a, acc) = change_of(t)?;
        m.insert(a, acc);
    }
    Some(m)
}
fn state_str(s: &AccountState) -> &'static str {
    match s {
        AccountState::NotExisting => "notexisting",
        AccountState::Touched => "touched",
        AccountState::StorageCleared => "cleared",
        AccountState::None => "none",
    }
}

fn cache_op(c: &mut CacheDB<DynRef>, t: &[&str]) -> String {
    match t {
        ["ins-info", a, bal, nonce, ch, code, _kh] => {
            let (Some(a), Some(i)) = (addr(a), info_of(bal, nonce, ch, code)) else { return "bad-op".into() };
            c.insert_account_info(a, i);
            "ok".into()
        }
        ["ins-slot", a, k, v] => {
            let (Some(a), Some(k), Some(v)) = (addr(a), word(k), word(v)) else { return "bad-op".into() };
            c.insert_account_storage(a, k, v).unwrap();
            "ok".into()
        }
        ["rep-storage", a, m] => {
            let (Some(a), Some(m)) = (addr(a), slots_of(m)) else { return "bad-op".into() };
            c.replace_account_storage(a, m.into_iter().collect()).unwrap();
            "ok".into()
        }
        ["load", a] => {
            let Some(a) = addr(a) else { return "bad-op".into() };
            let acc: &mut DbAccount = c.load_account(a).unwrap();
            format!("{} {}", state_str(&acc.account_state), info_str(&acc.info))
        }
        ["commit", rest @ ..] => {
            let Some(m) = changes_of(rest) else { return "bad-op".into() };
            c.commit(m);
            "ok".into()
        }
        _ => "bad-op".into(),
    }
}

fn query_mut(d: &mut dyn Database<Error = Infallible>, t: &[&str]) -> String {
    match t {
        ["basic", a] => match addr(a) {
            Some(a) => opt_info_str(&d.basic(a).unwrap()),
            None => "bad-op".into(),
        },
        ["storage", a, k] => match (addr(a), word(k)) {
            (Some(a), Some(k)) => hx(d.storage(a, k).unwrap()),
            _ => "bad-op".into(),
        },
        ["code", h] => match hash(h) {
            Some(h) => code_str(&d.code_by_hash(h).unwrap()),
            None => "bad-op".into(),
        },
        ["bh", n, _hint] => match u64::from_str_radix(n, 16) {
            Ok(n) => hxh(d.block_hash(n).unwrap()),
            Err(_) => "bad-op".into(),
        },
        ["hs", a] => match addr(a) {
            Some(a) => b01(d.has_storage(a).unwrap()).into(),
            None => "bad-op".into(),
        },
        _ => "bad-op".into(),
    }
}
fn query_ref(d: &dyn DatabaseRef<Error = Infallible>, t: &[&str]) -> String {
    match t {
        ["basic", a] => match addr(a) {
            Some(a) => opt_info_str(&d.basic_ref(a).unwrap()),
            None => "bad-op".into(),
        },
        ["storage", a, k] => match (addr(a), word(k)) {
            (Some(a), Some(k)) => hx(d.storage_ref(a, k).unwrap()),
            _ => "bad-op".into(),
        },
        ["code", h] => match hash(h) {
            Some(h) => code_str(&d.code_by_hash_ref(h).unwrap()),
            None => "bad-op".into(),
        },
        ["bh", n, _hint] => match u64::from_str_radix(n, 16) {
            Ok(n) => hxh(d.block_hash_ref(n).unwrap()),
            Err(_) => "bad-op".into(),
        },
        ["hs", a] => match addr(a) {
            Some(a) => b01(d.has_storage_ref(a).unwrap()).into(),
            None => "bad-op".into(),
        },
        _ => "bad-op".into(),
    }
}

/// `StateRef` / `BlockHashRef` over a borrowed `DatabaseRef`, to put a wrapper under `DatabaseComponents`
pub struct Parts<'a>(pub &'a dyn DatabaseRef<Error = Infallible>);
impl StateRef for Parts<'_> {
    type Error = Infallible;
    fn basic(&self, a: Address) -> Result<Option<AccountInfo>, Infallible> {
        self.0.basic_ref(a)
    }
    fn code_by_hash(&self, h: B256) -> Result<Bytecode, Infallible> {
        self.0.code_by_hash_ref(h)
    }
    fn storage(&self, a: Address, k: U256) -> Result<U256, Infallible> {
        self.0.storage_ref(a, k)
    }
}
impl BlockHashRef for Parts<'_> {
    type Error = Infallible;
    fn block_hash(&self, n: u64) -> Result<B256, Infallible> {
        self.0.block_hash_ref(n)
    }
}
/// unwraps the error enum of `DatabaseComponents` (every method is the one of `DatabaseComponents`)
pub struct CompOf<S, B>(pub DatabaseComponents<S, B>);
impl<S: DbStateTrait<Error = Infallible>, B: BlockHash<Error = Infallible>> Database for CompOf<S, B> {
    type Error = Infallible;
    fn basic(&mut self, a: Address) -> Result<Option<AccountInfo>, Infallible> {
        Ok(Database::basic(&mut self.0, a).unwrap())
    }
    fn code_by_hash(&mut self, h: B256) -> Result<Bytecode, Infallible> {
        Ok(Database::code_by_hash(&mut self.0, h).unwrap())
    }
    fn has_storage(&mut self, a: Address) -> Result<bool, Infallible> {
        Ok(Database::has_storage(&mut self.0, a).unwrap())
    }
    fn storage(&mut self, a: Address, k: U256) -> Result<U256, Infallible> {
        Ok(Database::storage(&mut self.0, a, k).unwrap())
    }
    fn block_hash(&mut self, n: u64) -> Result<B256, Infallible> {
        Ok(Database::block_hash(&mut self.0, n).unwrap())
    }
}
impl<S: StateRef<Error = Infallible>, B: BlockHashRef<Error = Infallible>> DatabaseRef for CompOf<S, B> {
    type Error = Infallible;
    fn basic_ref(&self, a: Address) -> Result<Option<AccountInfo>, Infallible> {
        Ok(self.0.basic_ref(a).unwrap())
    }
    fn code_by_hash_ref(&self, h: B256) -> Result<Bytecode, Infallible> {
        Ok(self.0.code_by_hash_ref(h).unwrap())
    }
    fn has_storage_ref(&self, a: Address) -> Result<bool, Infallible> {
        Ok(self.0.has_storage_ref(a).unwrap())
    }
    fn storage_ref(&self, a: Address, k: U256) -> Result<U256, Infallible> {
        Ok(self.0.storage_ref(a, k).unwrap())
    }
    fn block_hash_ref(&self, n: u64) -> Result<B256, Infallible> {
        Ok(self.0.block_hash_ref(n).unwrap())
    }
}

/// the query through the `DatabaseRef` impl of the concrete type `T`
fn via<T: DatabaseRef<Error = Infallible>>(x: &T, t: &[&str]) -> String {
    query_ref(x, t)
}
/// the query through the `Database` impl of the concrete type `T`
fn viam<T: Database<Error = Infallible>>(x: &mut T, t: &[&str]) -> String {
    query_mut(x, t)
}

pub const PATHS: &[&str] = &[
    "ref", "amp", "ampamp", "boxref", "arc", "rc", "wrap", "wrapmut", "wrapbox", "nested", "nestedref", "nestedagain",
    "nested2", "nested2ref", "state", "comp", "compref",
];

/// the same read through every access path of `d`; `d` itself is only borrowed immutably
fn paths_op(d: &dyn DatabaseRef<Error = Infallible>, t: &[&str]) -> String {
    type D<'a> = &'a dyn DatabaseRef<Error = Infallible>;
    let first = query_ref(d, t);
    if first == "bad-op" {
        return first;
    }
    let mut out: Vec<String> = vec![];
    for p in PATHS {
        let r = guarded(std::panic::AssertUnwindSafe(|| match *p {
            "ref" => query_ref(d, t),
            "amp" => via::<D>(&d, t),
            "ampamp" => via::<&D>(&&d, t),
            "boxref" => via::<Box<D>>(&Box::new(d), t),
            "arc" => via::<Arc<D>>(&Arc::new(d), t),
            "rc" => via::<std::rc::Rc<D>>(&std::rc::Rc::new(d), t),
            "wrap" => viam(&mut WrapDatabaseRef(d), t),
            "wrapmut" => {
                let mut w = WrapDatabaseRef(d);
                let mut r = &mut w;
                viam::<&mut WrapDatabaseRef<D>>(&mut r, t)
            }
            "wrapbox" => viam::<Box<WrapDatabaseRef<D>>>(&mut Box::new(WrapDatabaseRef(d)), t),
            "nested" => viam(&mut CacheDB::new(d), t),
            "nestedref" => via(&CacheDB::new(d), t),
            "nestedagain" => {
                let mut c = CacheDB::new(d);
                let _ = viam(&mut c, t);
                viam(&mut c, t)
            }
            "nested2" => viam(&mut CacheDB::new(CacheDB::new(d)), t),
            "nested2ref" => via(&CacheDB::new(CacheDB::new(d)), t),
            "state" => {
                let mut s = revm::db::State::builder().with_database(WrapDatabaseRef(d)).build();
                if let ["storage", a, _] = t {
                    if let Some(a) = addr(a) {
                        let _ = s.basic(a);
                    }
                }
                viam(&mut s, t)
            }
            "comp" => {
                let parts = Parts(d);
                viam(&mut CompOf(DatabaseComponents { state: &parts, block_hash: &parts }), t)
            }
            "compref" => {
                let parts = Parts(d);
                via(&CompOf(DatabaseComponents { state: &parts, block_hash: &parts }), t)
            }
            _ => unreachable!(),
        }));
        out.push(format!("{p}={r}"));
    }
    out.join(";")
}

/// one request line on the current database value
pub fn exec(cur: &mut Option<Cur>, line: &str) -> String {
    let t: Vec<&str> = line.split(' ').collect();
    match t.as_slice() {
        ["begin", "db", "base"] => {
            *cur = Some(Cur::Map(MapDb::default()));
            return "ok".into();
        }
        ["begin", "db", "empty"] => {
            *cur = Some(Cur::Empty(EmptyDB::default()));
            return "ok".into();
        }
        _ => {}
    }
    if t.first() != Some(&"db") || cur.is_none() {
        return "bad-op".into();
    }
    let t = &t[1..];
    match t {
        ["base-acct", a, bal, nonce, ch, code, _kh] => {
            let Some(Cur::Map(m)) = cur else { return "bad-op".into() };
            let (Some(a), Some(i)) = (addr(a), info_of(bal, nonce, ch, code)) else { return "bad-op".into() };
            m.accts.insert(a, i);
            "ok".into()
        }
        ["base-slot", a, k, v] => {
            let Some(Cur::Map(m)) = cur else { return "bad-op".into() };
            let (Some(a), Some(k), Some(v)) = (addr(a), word(k), word(v)) else { return "bad-op".into() };
            m.slots.insert((a, k), v);
            "ok".into()
        }
        ["base-code", h, bytes, _kh] => {
            let Some(Cur::Map(m)) = cur else { return "bad-op".into() };
            let (Some(h), Some(b)) = (hash(h), bytes_of(bytes)) else { return "bad-op".into() };
            m.codes.insert(h, Bytecode::new_legacy(Bytes::from(b)));
            "ok".into()
        }
        ["base-bh", n, h] => {
            let Some(Cur::Map(m)) = cur else { return "bad-op".into() };
            let (Ok(n), Some(h)) = (u64::from_str_radix(n, 16), hash(h)) else { return "bad-op".into() };
            m.bhs.insert(n, h);
            "ok".into()
        }
        ["wrap", layer] => {
            let c = cur.take().unwrap();
            let (next, ok) = match *layer {
                "cache" if c.can_ref() => (Cur::Cache(CacheDB::new(c.into_ref())), true),
                "wrapref" if c.can_ref() => (Cur::WrapRef(WrapDatabaseRef(c.into_arc())), true),
                "state" => (Cur::State(revm::db::State::builder().with_database(c.into_mut()).build()), true),
                "box" => match c {
                    Cur::Cache(d) => (Cur::BoxedCache(Box::new(d)), true),
                    c => (Cur::Boxed(c.into_mut()), true),
                },
                "mutref" => (Cur::MutRef(ViaMutRef(Box::new(c))), true),
                "components" => match c {
                    Cur::Map(m) => {
                        (Cur::Comp(CompAdapter(DatabaseComponents { state: m.clone(), block_hash: m })), true)
                    }
                    c => (c, false),
                },
                _ => (c, false),
            };
            *cur = Some(next);
            if ok { "ok".into() } else { "bad-op".into() }
        }
        ["q", rest @ ..] => query_mut(cur.as_mut().unwrap().dyn_mut(), rest),
        ["r", rest @ ..] => match cur.as_ref().unwrap().ref_view() {
            Some(d) => query_ref(d, rest),
            None => "bad-op".into(),
        },
        ["paths", rest @ ..] => match cur.as_ref().unwrap().ref_view() {
            Some(d) => paths_op(d, rest),
            None => "bad-op".into(),
        },
        _ => match cur.as_mut().unwrap() {
            Cur::Cache(c) => cache_op(c, t),
            Cur::BoxedCache(b) => match t {
                ["commit", rest @ ..] => match changes_of(rest) {
                    Some(m) => {
                        <Box<CacheDB<DynRef>> as DatabaseCommit>::commit(b, m);
                        "ok".into()
                    }
                    None => "bad-op".into(),
                },
                _ => "bad-op".into(),
            },
            Cur::MutRef(ViaMutRef(inner)) => match (t, inner.as_mut()) {
                (["commit", rest @ ..], Cur::Cache(c)) => match changes_of(rest) {
                    Some(m) => {
                        let mut r: &mut CacheDB<DynRef> = c;
                        <&mut CacheDB<DynRef> as DatabaseCommit>::commit(&mut r, m);
                        "ok".into()
                    }
                    None => "bad-op".into(),
                },
                _ => "bad-op".into(),
            },
            _ => "bad-op".into(),
        },
    }
}

// ------------------------------------------------------------------ generator

fn keccak_dec(n: u64) -> String {
    hxh(keccak256(n.to_string().as_bytes()))
}

struct Pool {
    addrs: Vec<u64>,
    slots: Vec<U256>,
    codes: Vec<(Vec<u8>, B256)>,
    nums: Vec<u64>,
}

fn pool(rng: &mut Rng) -> Pool {
    let codes: Vec<Vec<u8>> = vec![vec![0x00], vec![0x60, 0x01, 0x60, 0x02, 0x01], rng.bytes(7), vec![0xfe]];
    let codes = codes.into_iter().map(|c| { let h = keccak256(&c); (c, h) }).collect();
    let centers: [u64; 8] = [0, 1, 255, 256, 257, 1000, 1 << 32, u64::MAX - 600];
    let c = *rng.pick(&centers);
    let offs: [u64; 12] = [0, 1, 2, 3, 254, 255, 256, 257, 258, 300, 512, 600];
    let mut nums: Vec<u64> = offs.iter().map(|o| c.saturating_add(*o)).collect();
    nums.push(c.saturating_sub(1));
    nums.push(c.saturating_sub(256));
    nums.push(c.saturating_sub(257));
    nums.sort();
    nums.dedup();
    Pool {
        addrs: vec![1, 2, 3, 4, 5, 0xaa, 0xffff_ffff_ffff],
        slots: vec![U256::ZERO, U256::from(1), U256::from(2), U256::from(7), U256::MAX],
        codes,
        nums,
    }
}

/// tokens `bal nonce codehash code khash` of a generated AccountInfo
fn gen_info(rng: &mut Rng, p: &Pool, dishonest: bool) -> String {
    let bal = match rng.below(4) { 0 => U256::ZERO, 1 => U256::from(rng.below(1000)), 2 => U256::MAX, _ => rng.word() };
    let nonce = match rng.below(4) { 0 | 1 => 0, 2 => rng.below(5), _ => u64::MAX };
    let ke = hxh(KECCAK_EMPTY);
    match rng.below(10) {
        // no code at all
        0 | 1 => format!("{} {:x} {} none 0", hx(bal), nonce, ke),
        2 => format!("{} {:x} 0 none 0", hx(bal), nonce),
        3 => format!("{} {:x} {} - {}", hx(bal), nonce, ke, ke),
        4 => format!("{} {:x} 0 - {}", hx(bal), nonce, ke),
        // code hash only (code to be fetched by hash)
        5 | 6 => {
            let (_, h) = rng.pick(&p.codes);
            format!("{} {:x} {} none 0", hx(bal), nonce, hxh(*h))
        }
        // code with hash to be computed
        7 => {
            let (c, h) = rng.pick(&p.codes);
            format!("{} {:x} {} {} {}", hx(bal), nonce, ke, hxb(c), hxh(*h))
        }
        _ => {
            let (c, h) = rng.pick(&p.codes).clone();
            let claimed = if dishonest && rng.chance(1, 3) { rng.pick(&p.codes).1 } else { h };
            format!("{} {:x} {} {} {}", hx(bal), nonce, hxh(claimed), hxb(&c), hxh(h))
        }
    }
}

#[derive(Clone, Copy, PartialEq)]
enum Top { Map, Empty, Cache, State, WrapRef, Boxed, BoxedCache, MutRefCache, MutRef, Comp }

fn gen_query(rng: &mut Rng, p: &Pool, loaded: &mut Vec<u64>, top: Top, kind: &str) -> String {
    let a = if rng.chance(1, 6) { rng.below(1 << 16) } else { *rng.pick(&p.addrs) };
    match rng.below(10) {
        0 | 1 | 2 => {
            loaded.push(a);
            format!("db {kind} basic {:x}", a)
        }
        3 | 4 | 5 => {
            // `State::storage` requires the account to be loaded; mostly respect that
            let a = if top == Top::State && !loaded.is_empty() && rng.chance(9, 10) { *rng.pick(loaded) } else { a };
            let k = if rng.chance(1, 6) { rng.word() } else { *rng.pick(&p.slots) };
            format!("db {kind} storage {:x} {}", a, hx(k))
        }
        6 => {
            let h = match rng.below(5) { 0 => KECCAK_EMPTY, 1 => B256::ZERO, 2 => B256::from(U256::from(0x1234)), _ => rng.pick(&p.codes).1 };
            format!("db {kind} code {}", hxh(h))
        }
        7 | 8 => {
            let n = *rng.pick(&p.nums);
            format!("db {kind} bh {:x} {}", n, keccak_dec(n))
        }
        _ => format!("db {kind} hs {:x}", a),
    }
}

fn gen_change(rng: &mut Rng, p: &Pool, a: u64) -> String {
    let flags = match rng.below(10) { 0 => "-", 1 | 2 => "ts", 3 | 4 => "tc", 5 => "tsc", _ => "t" };
    let nslots = rng.below(4) as usize;
    let mut ks: Vec<U256> = p.slots.clone();
    let mut kv = vec![];
    for _ in 0..nslots {
        if ks.is_empty() { break; }
        let i = rng.below(ks.len() as u64) as usize;
        let k = ks.remove(i);
        let v = if rng.chance(1, 4) { U256::ZERO } else { U256::from(rng.range(1, 99)) };
        kv.push(format!("{}:{}", hx(k), hx(v)));
    }
    let info: Vec<String> = gen_info(rng, p, false).split(' ').map(|s| s.to_string()).collect();
    format!("{:x},{},{},{}", a, flags, info.join(","), if kv.is_empty() { "-".to_string() } else { kv.join("/") })
}

fn gen_commit_on(rng: &mut Rng, p: &Pool) -> (String, Vec<u64>) {
    let k = rng.range(1, 3) as usize;
    let mut addrs = p.addrs.clone();
    let mut parts = vec![];
    let mut hit = vec![];
    for _ in 0..k {
        let i = rng.below(addrs.len() as u64) as usize;
        let a = addrs.remove(i);
        hit.push(a);
        parts.push(gen_change(rng, p, a));
    }
    (format!("db commit {}", parts.join(" ")), hit)
}
fn gen_commit(rng: &mut Rng, p: &Pool) -> String {
    gen_commit_on(rng, p).0
}

/// after a change of `hit`: read the affected accounts back through every access path and through
/// the mutable path (all read kinds; the pool slots are the ones the underlying database may hold)
fn read_back(rng: &mut Rng, p: &Pool, hit: &[u64], lines: &mut Vec<String>) {
    for a in hit {
        let mut ks = p.slots.clone();
        if rng.chance(1, 2) {
            ks.truncate(3);
        }
        for k in &ks {
            lines.push(format!("db paths storage {:x} {}", a, hx(*k)));
        }
        lines.push(format!("db paths basic {:x}", a));
        if rng.chance(1, 3) {
            lines.push(format!("db paths hs {:x}", a));
        }
        if rng.chance(1, 2) {
            lines.push(format!("db q basic {:x}", a));
            for k in &ks {
                lines.push(format!("db q storage {:x} {}", a, hx(*k)));
                if rng.chance(1, 3) {
                    lines.push(format!("db r storage {:x} {}", a, hx(*k)));
                }
            }
        }
    }
    if rng.chance(1, 3) {
        lines.push(format!("db paths code {}", hxh(rng.pick(&p.codes).1)));
        let n = *rng.pick(&p.nums);
        lines.push(format!("db paths bh {:x} {}", n, keccak_dec(n)));
    }
}

fn gen_case(rng: &mut Rng, lines: &mut Vec<String>, max_ops: usize) {
    let p = pool(rng);
    let mut top;
    let mut loaded: Vec<u64> = vec![];
    if rng.chance(1, 7) {
        lines.push("begin db empty".into());
        top = Top::Empty;
    } else {
        lines.push("begin db base".into());
        top = Top::Map;
        let inconsistent = rng.chance(1, 10);
        for a in &p.addrs {
            let present = rng.chance(2, 3);
            if present {
                lines.push(format!("db base-acct {:x} {}", a, gen_info(rng, &p, false)));
            }
            if present || inconsistent {
                for k in &p.slots {
                    if rng.chance(1, 3) {
                        let v = if rng.chance(1, 5) { U256::ZERO } else { U256::from(rng.range(1, 0xffff)) };
                        lines.push(format!("db base-slot {:x} {} {}", a, hx(*k), hx(v)));
                    }
                }
            }
        }
        for (c, h) in &p.codes {
            if rng.chance(3, 4) {
                lines.push(format!("db base-code {} {} {}", hxh(*h), hxb(c), hxh(*h)));
            }
        }
        for n in &p.nums {
            if rng.chance(9, 10) {
                lines.push(format!("db base-bh {:x} {}", n, hx(rng.u256())));
            }
        }
    }
    let nops = rng.range(4, max_ops as u64) as usize;
    for _ in 0..nops {
        let can_ref = matches!(top, Top::Map | Top::Empty | Top::Cache | Top::Comp);
        let ref_view = can_ref || matches!(top, Top::BoxedCache | Top::MutRefCache);
        let r = rng.below(100);
        if r < 12 {
            // wrap
            let layer = *rng.pick(&["cache", "cache", "cache", "state", "state", "wrapref", "box", "mutref", "components"]);
            let ok = match layer { "cache" | "wrapref" => can_ref, "components" => top == Top::Map, _ => true };
            lines.push(format!("db wrap {layer}"));
            if ok {
                top = match layer {
                    "cache" => Top::Cache,
                    "state" => { loaded.clear(); Top::State }
                    "wrapref" => Top::WrapRef,
                    "box" => if top == Top::Cache { Top::BoxedCache } else { Top::Boxed },
                    "mutref" => if top == Top::Cache { Top::MutRefCache } else { Top::MutRef },
                    _ => Top::Comp,
                };
            }
        } else if r < 56 {
            lines.push(gen_query(rng, &p, &mut loaded, top, "q"));
        } else if r < 64 {
            lines.push(gen_query(rng, &p, &mut loaded, top, "r"));
        } else if r < 72 && (ref_view || rng.chance(1, 8)) {
            lines.push(gen_query(rng, &p, &mut loaded, top, "paths"));
        } else if top == Top::Cache {
            let a = *rng.pick(&p.addrs);
            let mut hit = vec![a];
            match rng.below(8) {
                0 | 1 => lines.push(format!("db ins-info {:x} {}", a, gen_info(rng, &p, true))),
                2 | 3 => lines.push(format!("db ins-slot {:x} {} {}", a, hx(*rng.pick(&p.slots)), hx(U256::from(rng.below(50))))),
                4 => {
                    let c = gen_change(rng, &p, a);
                    let m = c.rsplit(',').next().unwrap().to_string();
                    lines.push(format!("db rep-storage {:x} {}", a, m));
                }
                5 => lines.push(format!("db load {:x}", a)),
                _ => {
                    let (l, h) = gen_commit_on(rng, &p);
                    lines.push(l);
                    hit = h;
                }
            }
            if rng.chance(1, 2) {
                read_back(rng, &p, &hit, lines);
            }
        } else if matches!(top, Top::BoxedCache | Top::MutRefCache) && rng.chance(1, 2) {
            let (l, h) = gen_commit_on(rng, &p);
            lines.push(l);
            if rng.chance(1, 2) {
                read_back(rng, &p, &h, lines);
            }
        } else if rng.chance(1, 10) {
            // malformed / not applicable here
            lines.push(match rng.below(4) {
                0 => "db ins-slot 1 1 1".to_string(),
                1 => "db base-slot 1 1 1".to_string(),
                2 => "db q storage zz 1".to_string(),
                _ => gen_commit(rng, &p),
            });
        } else {
            lines.push(gen_query(rng, &p, &mut loaded, top, "q"));
        }
    }
}

/// deterministic scenarios: every wrapper over a database with storage, `has_storage` and all other
/// queries; the block-hash window of `State`; the orders of caching and insertion.
fn scenarios(lines: &mut Vec<String>) {
    let ke = hxh(KECCAK_EMPTY);
    let code = vec![0x60u8, 0x00];
    let ch = hxh(keccak256(&code));
    let base = |l: &mut Vec<String>| {
        l.push("begin db base".into());
        l.push(format!("db base-acct 1 5 0 {ke} none 0"));
        l.push(format!("db base-acct 2 0 1 {ch} none 0"));
        l.push("db base-slot 1 7 9".into());
        l.push("db base-slot 2 0 0".into());
        l.push(format!("db base-code {ch} {} {ch}", hxb(&code)));
        l.push("db base-bh 10 abc".into());
    };
    let probe = |l: &mut Vec<String>| {
        for a in ["1", "2", "3"] {
            l.push(format!("db q hs {a}"));
            l.push(format!("db q basic {a}"));
            l.push(format!("db q storage {a} 7"));
        }
        l.push(format!("db q code {ch}"));
        l.push(format!("db q bh 10 {}", keccak_dec(16)));
    };
    for stack in [
        vec![], vec!["cache"], vec!["state"], vec!["wrapref"], vec!["box"], vec!["mutref"], vec!["components"],
        vec!["cache", "cache"], vec!["cache", "state"], vec!["cache", "wrapref"], vec!["cache", "box"], vec!["cache", "mutref"],
        vec!["components", "cache"], vec!["components", "state"], vec!["wrapref", "state"], vec!["box", "mutref", "box"],
        vec!["wrapref", "box"], vec!["state", "state"], vec!["state", "mutref"],
    ] {
        base(lines);
        for w in &stack {
            lines.push(format!("db wrap {w}"));
        }
        probe(lines);
        probe(lines);
    }
    // storage put into the CacheDB itself: has_storage still false
    base(lines);
    lines.push("db wrap cache".into());
    lines.push("db ins-slot 3 1 1".into());
    lines.push("db q hs 3".into());
    lines.push("db r hs 3".into());
    lines.push("db q storage 3 1".into());
    lines.push("db q basic 3".into());
    lines.push("db wrap cache".into());
    lines.push("db q basic 3".into());
    lines.push("db q storage 3 1".into());
    // InMemoryDB
    lines.push("begin db empty".into());
    lines.push("db wrap cache".into());
    lines.push(format!("db ins-info 9 1 0 {ke} none 0"));
    lines.push("db ins-slot 9 1 1".into());
    lines.push("db q hs 9".into());
    lines.push("db q storage 9 1".into());
    for n in [0u64, 1, 100, u64::MAX] {
        lines.push(format!("db q bh {:x} {}", n, keccak_dec(n)));
        lines.push(format!("db r bh {:x} {}", n, keccak_dec(n)));
    }
    // a code hash asked for before the contract is inserted
    lines.push("begin db empty".into());
    lines.push("db wrap cache".into());
    lines.push(format!("db q code {ch}"));
    lines.push(format!("db ins-info 9 0 1 {ke} {} {ch}", hxb(&code)));
    lines.push(format!("db q code {ch}"));
    lines.push("begin db empty".into());
    lines.push("db wrap cache".into());
    lines.push(format!("db ins-info 9 0 1 {ke} {} {ch}", hxb(&code)));
    lines.push(format!("db q code {ch}"));
    // an absent account asked for before insert_account_info
    lines.push("begin db empty".into());
    lines.push("db wrap cache".into());
    lines.push("db q basic 9".into());
    lines.push(format!("db ins-info 9 5 1 {ke} none 0"));
    lines.push("db q basic 9".into());
    lines.push("begin db empty".into());
    lines.push("db wrap cache".into());
    lines.push(format!("db ins-info 9 5 1 {ke} none 0"));
    lines.push("db q basic 9".into());
    // selfdestruct, then a plain touch: storage of the underlying database
    base(lines);
    lines.push("db wrap cache".into());
    lines.push(format!("db commit 1,ts,0,0,{ke},none,0,-"));
    lines.push("db q storage 1 7".into());
    lines.push(format!("db commit 1,t,1,0,{ke},none,0,-"));
    lines.push("db q storage 1 7".into());
    lines.push("db q basic 1".into());
    // replace_account_storage on an absent account
    base(lines);
    lines.push("db wrap cache".into());
    lines.push("db rep-storage 3 1:1".into());
    lines.push("db q basic 3".into());
    // the block-hash window of State
    for c in [0u64, 300, u64::MAX - 600] {
        lines.push("begin db base".into());
        let ns: Vec<u64> = [0u64, 1, 2, 255, 256, 257, 258, 259, 513, 514, 600].iter().map(|o| c + o).collect();
        for n in &ns {
            lines.push(format!("db base-bh {:x} {:x}", n, n.wrapping_mul(31).wrapping_add(7)));
        }
        lines.push("db wrap state".into());
        for round in 0..2 {
            for n in &ns {
                lines.push(format!("db q bh {:x} {}", n, keccak_dec(*n)));
            }
            if round == 0 {
                for n in ns.iter().rev() {
                    lines.push(format!("db q bh {:x} {}", n, keccak_dec(*n)));
                }
            }
        }
    }
}

/// Every kind of change of an account x what the layer had cached of it before x the wrapper the
/// change goes through x every wrapper stack put on top afterwards, over an underlying database that
/// holds NON-ZERO storage for the affected account; then every read kind through every access path
/// (`paths`), through `Database` (`q`) and `DatabaseRef` (`r`), for the affected account, another
/// account with storage and an absent one. The complete cross product is generated on every run (about 6000 cases).
fn commit_grid(lines: &mut Vec<String>) {
    let ke = hxh(KECCAK_EMPTY);
    let code = vec![0x60u8, 0x00];
    let ch = hxh(keccak256(&code));
    let code2 = vec![0x5bu8];
    let ch2 = hxh(keccak256(&code2));
    let base = |l: &mut Vec<String>| {
        l.push("begin db base".into());
        l.push(format!("db base-acct 1 5 0 {ke} none 0"));
        l.push(format!("db base-acct 2 0 1 {ch} none 0"));
        l.push(format!("db base-acct 4 7 0 {ke} none 0"));
        for (a, k, v) in [(1, 7, 9), (1, 8, 0x11), (2, 7, 0x21), (2, 8, 0x22), (2, 0, 0)] {
            l.push(format!("db base-slot {a:x} {k:x} {v:x}"));
        }
        l.push(format!("db base-code {ch} {} {ch}", hxb(&code)));
        l.push("db base-bh 10 abc".into());
    };
    // the info an account keeps when it is only touched / written
    let keep = |x: u64| if x == 2 { format!("0,2,{ch},none,0") } else { format!("6,1,{ke},none,0") };
    let sd = |x: u64| format!("db commit {x:x},ts,0,0,{ke},none,0,-");
    let kinds: Vec<(&str, Box<dyn Fn(u64) -> Vec<String>>)> = vec![
        ("sd", Box::new(|x| vec![sd(x)])),
        ("sd-flags-tsc", Box::new(|x| vec![format!("db commit {x:x},tsc,0,0,{ke},none,0,9:5")])),
        ("sd-recreate", Box::new(|x| vec![sd(x), format!("db commit {x:x},tc,1,1,{ke},{},{ch2},9:5", hxb(&code2))])),
        ("sd-touch", Box::new(|x| vec![sd(x), format!("db commit {x:x},t,{},-", keep(x))])),
        ("sd-write", Box::new(|x| vec![sd(x), format!("db commit {x:x},t,{},8:33", keep(x))])),
        ("sd-sd", Box::new(|x| vec![sd(x), sd(x)])),
        ("create", Box::new(|x| vec![format!("db commit {x:x},tc,1,1,{ke},{},{ch2},9:5", hxb(&code2))])),
        ("touch", Box::new(|x| vec![format!("db commit {x:x},t,{},-", keep(x))])),
        ("write", Box::new(|x| vec![format!("db commit {x:x},t,{},8:33/9:44/7:0", keep(x))])),
        ("untouched", Box::new(|x| vec![format!("db commit {x:x},-,{},8:33", keep(x))])),
        ("sd-other-write", Box::new(|x| vec![format!("db commit {x:x},ts,0,0,{ke},none,0,- {:x},t,{},8:33", 3 - x, keep(3 - x))])),
        ("ins-info", Box::new(|x| vec![format!("db ins-info {x:x} 6 1 {ke} none 0")])),
        ("ins-slot", Box::new(|x| vec![format!("db ins-slot {x:x} 8 55")])),
        ("rep-storage", Box::new(|x| vec![format!("db rep-storage {x:x} 9:66")])),
        ("rep-sd", Box::new(|x| vec![format!("db rep-storage {x:x} 9:66"), sd(x)])),
        ("sd-ins-slot", Box::new(|x| vec![sd(x), format!("db ins-slot {x:x} 8 55")])),
        ("sd-ins-info", Box::new(|x| vec![sd(x), format!("db ins-info {x:x} 6 1 {ke} none 0")])),
    ];
    let pres: Vec<Vec<String>> = vec![
        vec![],
        vec!["db q basic X".into()],
        vec!["db q storage X 7".into()],
        vec!["db q storage X 7".into(), "db q storage X 8".into(), "db q storage X 9".into(), "db q basic X".into()],
        vec!["db load X".into()],
    ];
    // the value the change is applied to: the CacheDB itself, Box<CacheDB>, &mut CacheDB (commit only),
    // or the outer layer of CacheDB<CacheDB<..>>
    let vias: Vec<Vec<&str>> = vec![vec!["cache"], vec!["cache", "box"], vec!["cache", "mutref"], vec!["cache", "cache"]];
    let stacks: Vec<Vec<&str>> = vec![
        vec![], vec!["box"], vec!["mutref"], vec!["cache"], vec!["wrapref"], vec!["state"], vec!["cache", "cache"],
        vec!["cache", "box"], vec!["cache", "wrapref"], vec!["cache", "state"], vec!["wrapref", "state"], vec!["wrapref", "box"],
    ];
    let probe = |l: &mut Vec<String>, x: u64, refable: bool| {
        let accts = [x, 3 - x, 3];
        if refable {
            for a in accts {
                l.push(format!("db paths hs {a:x}"));
                l.push(format!("db paths basic {a:x}"));
                for k in [7, 8, 9] {
                    l.push(format!("db paths storage {a:x} {k:x}"));
                }
            }
            l.push(format!("db paths code {ch}"));
            l.push(format!("db paths code {ch2}"));
            l.push(format!("db paths bh 10 {}", keccak_dec(16)));
            l.push(format!("db r storage {x:x} 7"));
        }
        for a in accts {
            l.push(format!("db q hs {a:x}"));
            l.push(format!("db q basic {a:x}"));
            for k in [7, 8, 9] {
                l.push(format!("db q storage {a:x} {k:x}"));
            }
        }
        l.push(format!("db q code {ch}"));
        l.push(format!("db q code {ch2}"));
        l.push(format!("db q bh 10 {}", keccak_dec(16)));
        if refable {
            // once more after the mutable reads have cached what they fetched
            l.push(format!("db paths basic {x:x}"));
            for k in [7, 8, 9] {
                l.push(format!("db paths storage {x:x} {k:x}"));
            }
        }
    };
    for (_name, kind) in kinds.iter() {
        for x in [1u64, 2] {
            for stack in stacks.iter() {
                let combos: Vec<(usize, usize)> =
                    (0..pres.len()).flat_map(|p| (0..vias.len()).map(move |v| (p, v))).collect();
                for (pi, vi) in combos {
                    let change = kind(x);
                    let via = &vias[vi];
                    // ins-info / ins-slot / rep-storage / load exist on the CacheDB value only
                    let direct_only = change.iter().any(|c| !c.starts_with("db commit")) || pres[pi].iter().any(|c| c.contains("load"));
                    if direct_only && (via[1..] == ["box"] || via[1..] == ["mutref"]) {
                        continue;
                    }
                    base(lines);
                    lines.push(format!("db wrap {}", via[0]));
                    if via.len() > 1 && via[1] == "cache" {
                        // the inner layer of the nested pair has seen the account already
                        lines.push(format!("db q storage {x:x} 7"));
                        lines.push("db wrap cache".into());
                    }
                    for pl in &pres[pi] {
                        lines.push(pl.replace('X', &format!("{x:x}")));
                    }
                    if via.len() > 1 && via[1] != "cache" {
                        lines.push(format!("db wrap {}", via[1]));
                    }
                    lines.extend(change);
                    for w in stack {
                        lines.push(format!("db wrap {w}"));
                    }
                    // is the top still borrowable as a DatabaseRef?
                    let top_cache = match stack.last() {
                        None => true,
                        Some(&"cache") => true,
                        Some(&"box") | Some(&"mutref") => {
                            let below = if stack.len() >= 2 { stack[stack.len() - 2] } else { *via.last().unwrap() };
                            below == "cache"
                        }
                        _ => false,
                    };
                    probe(lines, x, top_cache);
                }
            }
        }
    }
}

pub fn gen(seed: u64, n: usize) -> Vec<String> {
    let mut rng = Rng::new(seed ^ 0xC20);
    let mut lines = vec![];
    scenarios(&mut lines);
    commit_grid(&mut lines);
    for i in 0..n {
        let max_ops = if i % 10 == 0 { 120 } else { 40 };
        gen_case(&mut rng, &mut lines, max_ops);
    }
    lines
}

pub fn run(seed: u64, n: usize, replay: Option<Vec<String>>, out: &mut Out) {
    let lines = replay.unwrap_or_else(|| gen(seed, n));
    let mut cur: Option<Cur> = None;
    for l in lines {
        let r = guarded(std::panic::AssertUnwindSafe(|| exec(&mut cur, &l)));
        let t: Vec<&str> = l.split(' ').collect();
        let key = if t[0] == "begin" { format!("begin:{}", t.get(2).unwrap_or(&"?")) } else {
            match t.get(1) { Some(&"q") | Some(&"r") | Some(&"paths") => format!("{}:{}", t[1], t.get(2).unwrap_or(&"?")), Some(&"wrap") => format!("wrap:{}", t.get(2).unwrap_or(&"?")), Some(x) => x.to_string(), None => "?".into() }
        };
        out.count(&key);
        if r == "panic" { out.count("reply:panic"); }
        if r == "bad-op" { out.count("reply:bad-op"); }
        out.push(l, r);
    }
}
