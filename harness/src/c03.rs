//! C03: arithmetic / comparison / bitwise / shift opcodes through the real interpreter.
//! request: `arith <op> <sd> <a> <b> [<c>]` (operands top of stack first; sd = SPURIOUS_DRAGON on)
//! reply:   `<pushed word> g=<gas spent> n=<stack items consumed>`
use crate::*;
use revm::interpreter::{
    opcode::make_instruction_table, Contract, DummyHost, Interpreter, SharedMemory,
};
use revm::primitives::{Bytecode, Bytes, SpecId, U256, Address, spec_to_generic};

pub const OPS: &[(&str, u8, usize)] = &[
    ("add", 0x01, 2), ("mul", 0x02, 2), ("sub", 0x03, 2), ("div", 0x04, 2), ("sdiv", 0x05, 2),
    ("mod", 0x06, 2), ("smod", 0x07, 2), ("addmod", 0x08, 3), ("mulmod", 0x09, 3), ("exp", 0x0a, 2),
    ("signextend", 0x0b, 2), ("lt", 0x10, 2), ("gt", 0x11, 2), ("slt", 0x12, 2), ("sgt", 0x13, 2),
    ("eq", 0x14, 2), ("iszero", 0x15, 1), ("and", 0x16, 2), ("or", 0x17, 2), ("xor", 0x18, 2),
    ("not", 0x19, 1), ("byte", 0x1a, 2), ("shl", 0x1b, 2), ("shr", 0x1c, 2), ("sar", 0x1d, 2),
];

/// run one opcode on the real interpreter with `extra` filler items below the operands
pub fn run_op(op: u8, spec: SpecId, operands: &[U256]) -> String {
    let contract = Contract::new(
        Bytes::new(),
        Bytecode::new_raw(Bytes::from(vec![op])),
        None,
        Address::ZERO,
        None,
        Address::ZERO,
        U256::ZERO,
    );
    let gas_limit = 10_000_000u64;
    let mut interp = Interpreter::new(contract, gas_limit, false);
    let filler = 3usize;
    for i in 0..filler {
        let _ = interp.stack.push(U256::from(0xabc0 + i as u64));
    }
    for w in operands.iter().rev() {
        let _ = interp.stack.push(*w);
    }
    let before = interp.stack.len();
    let mut host = DummyHost::default();
    let action = spec_to_generic!(spec, {
        let table = make_instruction_table::<DummyHost, SPEC>();
        interp.run(SharedMemory::new(), &table, &mut host)
    });
    let res = match action {
        revm::interpreter::InterpreterAction::Return { result } => result.result,
        _ => return "unexpected-action".into(),
    };
    if res != revm::interpreter::InstructionResult::Stop {
        return format!("halt {:?}", res);
    }
    let after = interp.stack.len();
    // filler must be untouched
    for i in 0..filler {
        if interp.stack.data()[i] != U256::from(0xabc0 + i as u64) {
            return "filler-clobbered".into();
        }
    }
    let top = interp.stack.data()[after - 1];
    format!("{} g={} n={}", hx(top), interp.gas.spent(), before + 1 - after)
}

const SPECS_ALL: &[SpecId] = &[
    SpecId::FRONTIER, SpecId::HOMESTEAD, SpecId::TANGERINE, SpecId::SPURIOUS_DRAGON, SpecId::BYZANTIUM,
    SpecId::CONSTANTINOPLE, SpecId::PETERSBURG, SpecId::ISTANBUL, SpecId::BERLIN, SpecId::LONDON,
    SpecId::MERGE, SpecId::SHANGHAI, SpecId::CANCUN, SpecId::PRAGUE,
];

fn spec_by_name(s: &str) -> SpecId {
    SpecId::from(s)
}

pub fn exec_line(line: &str) -> String {
    let t: Vec<&str> = line.split(' ').collect();
    if t.len() < 4 || t[0] != "arith" {
        return "bad-op".into();
    }
    let Some(&(_, op, ar)) = OPS.iter().find(|(n, _, _)| *n == t[1]) else { return "bad-op".into() };
    let spec = spec_by_name(t[2]);
    let ws: Vec<U256> = t[4..].iter().map(|x| U256::from_str_radix(x, 16).unwrap()).collect();
    if ws.len() != ar {
        return "bad-op".into();
    }
    let l = line.to_string();
    let _ = l;
    guarded(move || run_op(op, spec, &ws))
}

pub fn gen(seed: u64, n: usize) -> Vec<String> {
    let mut rng = Rng::new(seed ^ 0xC03);
    let bw = boundary_words();
    let mut lines = Vec::new();
    let mut emit = |rng: &mut Rng, name: &str, opc: u8, ws: &[U256]| {
        // shifts exist from Constantinople on; pick a spec where the opcode exists
        let specs: Vec<SpecId> = SPECS_ALL
            .iter()
            .copied()
            .filter(|s| !(0x1b..=0x1d).contains(&opc) || s.is_enabled_in(SpecId::CONSTANTINOPLE))
            .collect();
        let spec = *rng.pick(&specs);
        let sd = spec.is_enabled_in(SpecId::SPURIOUS_DRAGON);
        let name_spec: &'static str = spec.into();
        let mut s = format!("arith {} {} {}", name, name_spec, b01(sd));
        for w in ws {
            s.push(' ');
            s.push_str(&hx(*w));
        }
        lines.push(s);
    };
    // stream 1: complete boundary cross product for unary / binary ops (every 4th tier run: all)
    for &(name, opc, ar) in OPS {
        match ar {
            1 => {
                for a in &bw {
                    emit(&mut rng, name, opc, &[*a]);
                }
            }
            2 => {
                for a in &bw {
                    for b in &bw {
                        emit(&mut rng, name, opc, &[*a, *b]);
                    }
                }
            }
            _ => {}
        }
    }
    // stream 2: random / biased words
    for _ in 0..n {
        let &(name, opc, ar) = rng.pick(OPS);
        let ws: Vec<U256> = (0..ar).map(|_| rng.word()).collect();
        emit(&mut rng, name, opc, &ws);
    }
    // stream 3: relations that matter for signed ops and mod ops
    for _ in 0..n / 4 {
        let a = rng.word();
        let &(name, opc, ar) = rng.pick(OPS);
        let ws: Vec<U256> = match (ar, rng.below(4)) {
            (2, 0) => vec![a, a],
            (2, 1) => vec![a, a.wrapping_neg()],
            (2, 2) => vec![a, a.wrapping_add(U256::from(1))],
            (3, 0) => vec![a, rng.word(), a],
            (3, 1) => vec![U256::MAX, U256::MAX, rng.word()],
            _ => (0..ar).map(|_| rng.word()).collect(),
        };
        emit(&mut rng, name, opc, &ws);
    }
    lines
}

pub fn run(seed: u64, n: usize, replay: Option<Vec<String>>, out: &mut Out) {
    let lines = replay.unwrap_or_else(|| gen(seed, n));
    for l in lines {
        let r = exec_line(&l);
        let op = l.split(' ').nth(1).unwrap_or("?").to_string();
        out.count(&format!("op:{op}"));
        if r.starts_with("halt") || r == "panic" {
            out.count("halted");
        }
        out.push(l, r);
    }
}
