//! C03: arithmetic / comparison / bitwise / shift opcodes through the real interpreter.
//! request: `arith <op> <sd> <a> <b> [<c>]` (operands top of stack first; sd = SPURIOUS_DRAGON on)
//! reply:   `<pushed word> g=<gas spent> n=<stack items consumed>`
use crate::*;
use revm::interpreter::{
    opcode::make_instruction_table, Contract, DummyHost, Interpreter, SharedMemory,
};
use revm::primitives::{Bytecode, Bytes, SpecId, U256, Address, spec_to_generic};

pub const OPS: &[(&str, u8, usize)] = &[
    ("add", 0x01, 2), ("mul", 0x02, 2), ("sub", 0x03, 2), ("div", 0x04, 2), ("sdiv", 0x05, 2),
    ("mod", 0x06, 2), ("smod", 0x07, 2), ("addmod", 0x08, 3), ("mulmod", 0x09, 3), ("exp", 0x0a, 2),
    ("signextend", 0x0b, 2), ("lt", 0x10, 2), ("gt", 0x11, 2), ("slt", 0x12, 2), ("sgt", 0x13, 2),
    ("eq", 0x14, 2), ("iszero", 0x15, 1), ("and", 0x16, 2), ("or", 0x17, 2), ("xor", 0x18, 2),
    ("not", 0x19, 1), ("byte", 0x1a, 2), ("shl", 0x1b, 2), ("shr", 0x1c, 2), ("sar", 0x1d, 2),
];

/// run one opcode on the real interpreter with `extra` filler items below the operands
pub fn run_op(op: u8, spec: SpecId, operands: &[U256]) -> String {
    let contract = Contract::new(
        Bytes::new(),
        Bytecode::new_raw(Bytes::from(vec![op])),
        None,
        Address::ZERO,
        None,
        Address::ZERO,
        U256::ZERO,
    );
    let gas_limit = 10_000_000u64;
    let mut interp = Interpreter::new(contract, gas_limit, false);
    let filler = 3usize;
    for i in 0..filler {
        let _ = interp.stack.push(U256::from(0xabc0 + i as u64));
    }
    for w in operands.iter().rev() {
        let _ = interp.stack.push(*w);
    }
    let before = interp.stack.len();
    let mut host = DummyHost::default();
    let action = spec_to_generic!(spec, {
        let table = make_instruction_table::<DummyHost, SPEC>();
        interp.run(SharedMemory::new(), &table, &mut host)
    });
    let res = match action {
        revm::interpreter::InterpreterAction::Return { result } => result.result,
        _ => return "unexpected-action".into(),
    };
    if res != revm::interpreter::InstructionResult::Stop {
        return format!("halt {:?}", res);
    }
    let after = interp.stack.len();
    // filler must be untouched
    for i in 0..filler {
        if interp.stack.data()[i] != U256::from(0xabc0 + i as u64) {
            return "filler-clobbered".into();
        }
    }
    let top = interp.stack.data()[after - 1];
    format!("{} g={} n={}", hx(top), interp.gas.spent(), before + 1 - after)
}

const SPECS_ALL: &[SpecId] = &[
    SpecId::FRONTIER, SpecId::HOMESTEAD, SpecId::TANGERINE, SpecId::SPURIOUS_DRAGON, SpecId::BYZANTIUM,
    SpecId::CONSTANTINOPLE, SpecId::PETERSBURG, SpecId::ISTANBUL, SpecId::BERLIN, SpecId::LONDON,
    SpecId::MERGE, SpecId::SHANGHAI, SpecId::CANCUN, SpecId::PRAGUE,
];

fn spec_by_name(s: &str) -> SpecId {
    SpecId::from(s)
}

pub fn exec_line(line: &str) -> String {
    let t: Vec<&str> = line.split(' ').collect();
    if t.len() < 4 || t[0] != "arith" {
        return "bad-op".into();
    }
    let Some(&(_, op, ar)) = OPS.iter().find(|(n, _, _)| *n == t[1]) else { return "bad-op".into() };
    let spec = spec_by_name(t[2]);
    let ws: Vec<U256> = t[4..].iter().map(|x| U256::from_str_radix(x, 16).unwrap()).collect();
    if ws.len() != ar {
        return "bad-op".into();
    }
    let l = line.to_string();
    let _ = l;
    guarded(move || run_op(op, spec, &ws))
}

fn w(s: &str) -> U256 {
    U256::from_str_radix(s, 16).unwrap()
}

/// moduli for the ternary ops: tiny, around 2^255 (the first N with 2N > 2^256), just below 2^256,
/// the curve primes / orders used with ADDMOD / MULMOD in practice, limb boundaries
pub fn mod_moduli() -> Vec<U256> {
    let one = U256::from(1);
    vec![
        U256::ZERO,
        one,
        U256::from(2),
        U256::from(3),
        (one << 255) - one,
        one << 255,
        (one << 255) + one,
        U256::MAX - one,
        U256::MAX,
        // secp256k1 field prime and group order
        w("fffffffffffffffffffffffffffffffffffffffffffffffffffffffefffffc2f"),
        w("fffffffffffffffffffffffffffffffebaaedce6af48a03bbfd25e8cd0364141"),
        // bn254 field prime and group order
        w("30644e72e131a029b85045b68181585d97816a916871ca8d3c208c16d87cfd47"),
        w("30644e72e131a029b85045b68181585d2833e84879b9709143e1f593f0000001"),
        // secp256r1 field prime, ed25519 prime 2^255 - 19
        w("ffffffff00000001000000000000000000000000ffffffffffffffffffffffff"),
        w("7fffffffffffffffffffffffffffffffffffffffffffffffffffffffffffffed"),
        (one << 128) - one,
        one << 128,
        (one << 128) + one,
        one << 64,
        (one << 64) - one,
        (one << 192) + one,
        U256::MAX << 128,
        (U256::MAX >> 1) + U256::from(2) + (one << 200),
    ]
}

/// operands relative to the modulus `m` (all arithmetic wrapping, so for m near 2^256 the values fold
/// back to small words - still distinct shapes)
pub fn mod_operands(rng: &mut Rng, m: U256) -> Vec<U256> {
    let one = U256::from(1);
    let r1 = rng.u256();
    let r2 = rng.u256();
    let reduced = |x: U256| if m.is_zero() { x } else { x % m };
    let mut v = vec![
        U256::ZERO,
        one,
        U256::from(2),
        m.wrapping_sub(U256::from(2)),
        m.wrapping_sub(one),
        m,
        m.wrapping_add(one),
        m.wrapping_add(m),
        m.wrapping_add(m).wrapping_sub(one),
        m >> 1usize,
        U256::wrapping_add(m >> 1usize, one),
        one << 255,
        (one << 255) - one,
        U256::MAX,
        U256::MAX - one,
        one << 128,
        reduced(r1),
        reduced(r2) | one,
        r1 | (one << 255),
        r2,
    ];
    v.sort();
    v.dedup();
    v
}

/// triples (a, b, N) built from relations: a + b = 2^256 + k (carry out of the addition), reduced
/// operands of a modulus above 2^255 whose sum wraps, a * b just below / at / above 2^256 and 2^512
pub fn mod_relation_triples(rng: &mut Rng, n: usize) -> Vec<[U256; 3]> {
    let one = U256::from(1);
    let big = mod_moduli();
    let mut out = Vec::new();
    let modulus = |rng: &mut Rng| -> U256 {
        match rng.below(4) {
            0 => *rng.pick(&big),
            1 => rng.u256() | (one << 255),
            2 => U256::MAX - U256::from(rng.below(1 << 20)),
            _ => rng.word(),
        }
    };
    for _ in 0..n {
        // a + b = 2^256 + k for small / random k
        let a: U256 = rng.u256() | (one << 255usize);
        let k = if rng.chance(1, 2) { U256::from(rng.below(4)) } else { rng.u256() >> 1usize };
        let b = a.wrapping_neg().wrapping_add(k);
        out.push([a, b, modulus(rng)]);
        out.push([a, b, a]);
        out.push([a, b, a.wrapping_add(one)]);
        // reduced operands of a modulus m > 2^255 with a + b >= 2^256
        let m: U256 = rng.u256() | (one << 255usize) | (one << 254usize);
        let x = m - one - U256::from(rng.below(3));
        let y = m.wrapping_neg().wrapping_add(U256::from(rng.below(5))).max(one) % m;
        out.push([x, x, m]);
        out.push([x, m.wrapping_neg().wrapping_add(one), m]); // x + y = 2^256 (+-) small
        out.push([x, y, m]);
        out.push([m - one, rng.u256() % m, m]);
        // a * b around 2^256: a = 2^j, b = 2^(256-j) (+-1)
        let j = rng.range(1, 255) as usize;
        let p: U256 = one << j;
        let q: U256 = one << (256 - j);
        for d in [U256::ZERO, one] {
            out.push([p, q.wrapping_sub(d), modulus(rng)]);
            out.push([p.wrapping_add(d), q, modulus(rng)]);
        }
        // a * b around 2^512: both operands near 2^256
        let s = U256::MAX - U256::from(rng.below(3));
        let t = U256::MAX - U256::from(rng.below(3));
        out.push([s, t, modulus(rng)]);
        out.push([s, t, U256::MAX - U256::from(rng.below(3))]);
        // floor(sqrt)-like operands: (2^128 +- d)^2 crosses 2^256
        let h: U256 = U256::from(1u128 << 127).wrapping_add(U256::from(1u128 << 127)).wrapping_add(U256::from(rng.below(3))).wrapping_sub(one);
        out.push([h, h, modulus(rng)]);
        out.push([h, h.wrapping_add(one), U256::MAX]);
    }
    out
}

pub fn exp_shapes(rng: &mut Rng) -> (Vec<U256>, Vec<U256>) {
    let one = U256::from(1);
    let mut bases = vec![
        U256::ZERO,
        one,
        U256::from(2),
        U256::from(3),
        U256::from(10),
        U256::from(256),
        U256::MAX,
        U256::MAX - one,
        one << 255,
        (one << 255) + one,
        one << 128,
        (one << 128) + one,
        one << 16,
        U256::from(u64::MAX),
        rng.u256() | one,
        rng.u256() & !one,
        (rng.u256() << 64) | one,
    ];
    bases.sort();
    bases.dedup();
    let mut exps = vec![U256::ZERO, U256::from(3), U256::from(5), U256::from(254), U256::from(257), U256::MAX, U256::MAX - one];
    for k in 0..256usize {
        exps.push(one << k);
        if k % 8 == 0 || k % 8 == 7 {
            exps.push((one << k) - one);
            exps.push((one << k) + one);
        }
    }
    exps.push(rng.u256());
    exps.push(U256::from(rng.next()));
    exps.sort();
    exps.dedup();
    (bases, exps)
}

pub fn index_shapes(rng: &mut Rng) -> (Vec<U256>, Vec<U256>) {
    let one = U256::from(1);
    let lows: [u64; 14] = [0, 1, 7, 8, 15, 29, 30, 31, 32, 33, 254, 255, 256, 257];
    let mut idx = Vec::new();
    for l in lows {
        let l = U256::from(l);
        idx.push(l);
        for sh in [32usize, 64, 128, 192, 255] {
            idx.push(l | (one << sh));
        }
        idx.push(l | (U256::from(rng.next() | 1) << 64));
    }
    for l in [30u64, 31, 32, 255, 256] {
        // the threshold itself in an upper limb, low limb zero
        for sh in [64usize, 128, 192] {
            idx.push(U256::from(l) << sh);
        }
    }
    idx.push(U256::MAX);
    idx.push(U256::from(u64::MAX));
    idx.push(U256::from(u32::MAX));
    idx.push(U256::from(usize::MAX) + one);
    idx.sort();
    idx.dedup();
    let r = rng.u256();
    let mut vals = vec![
        U256::ZERO,
        one,
        U256::from(0x7f),
        U256::from(0x80),
        U256::from(0xff),
        U256::from(0x7fff),
        U256::from(0x8000),
        U256::MAX,
        U256::MAX - one,
        one << 255,
        (one << 255) - one,
        (one << 255) | one,
        one << 254,
        w("8080808080808080808080808080808080808080808080808080808080808080"),
        w("7f7f7f7f7f7f7f7f7f7f7f7f7f7f7f7f7f7f7f7f7f7f7f7f7f7f7f7f7f7f7f7f"),
        w("0102030405060708090a0b0c0d0e0f101112131415161718191a1b1c1d1e1f20"),
        w("fffefdfcfbfaf9f8f7f6f5f4f3f2f1f0efeeedecebeae9e8e7e6e5e4e3e2e1e0"),
        r | (one << 255),
        r >> 1,
    ];
    vals.sort();
    vals.dedup();
    (idx, vals)
}

pub fn gen(seed: u64, n: usize) -> Vec<String> {
    let mut rng = Rng::new(seed ^ 0xC03);
    let bw = boundary_words();
    let mut lines = Vec::new();
    let mut emit = |rng: &mut Rng, name: &str, opc: u8, ws: &[U256]| {
        // shifts exist from Constantinople on; pick a spec where the opcode exists
        let specs: Vec<SpecId> = SPECS_ALL
            .iter()
            .copied()
            .filter(|s| !(0x1b..=0x1d).contains(&opc) || s.is_enabled_in(SpecId::CONSTANTINOPLE))
            .collect();
        let spec = *rng.pick(&specs);
        let sd = spec.is_enabled_in(SpecId::SPURIOUS_DRAGON);
        let name_spec: &'static str = spec.into();
        let mut s = format!("arith {} {} {}", name, name_spec, b01(sd));
        for w in ws {
            s.push(' ');
            s.push_str(&hx(*w));
        }
        lines.push(s);
    };
    // stream 1: complete boundary cross product for unary / binary ops (every 4th tier run: all)
    for &(name, opc, ar) in OPS {
        match ar {
            1 => {
                for a in &bw {
                    emit(&mut rng, name, opc, &[*a]);
                }
            }
            2 => {
                for a in &bw {
                    for b in &bw {
                        emit(&mut rng, name, opc, &[*a, *b]);
                    }
                }
            }
            _ => {}
        }
    }
    // stream 1b: ADDMOD / MULMOD, complete cross product over a dedicated boundary set for (a, b, N):
    // every modulus of `mod_moduli` x every pair of `mod_operands(N)` (operands chosen relative to N:
    // N-1, N, N+1, 2N, values just below 2^256, a reduced and an unreduced random word)
    for m in mod_moduli() {
        let ops = mod_operands(&mut rng, m);
        for &(name, opc) in &[("addmod", 0x08u8), ("mulmod", 0x09u8)] {
            for a in &ops {
                for b in &ops {
                    emit(&mut rng, name, opc, &[*a, *b, m]);
                }
            }
        }
    }
    // stream 1c: relation-driven triples for the ternary ops (carry out of the 256-bit sum, products
    // crossing 2^256 and 2^512) with boundary, near-2^256 and random moduli
    for ws in mod_relation_triples(&mut rng, 40 + n / 100) {
        emit(&mut rng, "addmod", 0x08, &ws);
        emit(&mut rng, "mulmod", 0x09, &ws);
    }
    // stream 1d: EXP shapes (bases 0, 1, 2, 3, -1, -2, 2^k, odd / even random; exponents 0, 1, 2, 255, 256,
    // 257, every 2^k, 2^k - 1, all-ones, one byte length each)
    {
        let (bases, exps) = exp_shapes(&mut rng);
        for a in &bases {
            for e in &exps {
                emit(&mut rng, "exp", 0x0a, &[*a, *e]);
            }
        }
    }
    // stream 1e: SIGNEXTEND / BYTE / SHL / SHR / SAR with index operands whose LOW limb looks small but
    // whose upper limbs are set, and the exact thresholds (30, 31, 32 / 255, 256, 257) in every limb
    {
        let (idx, vals) = index_shapes(&mut rng);
        for &(name, opc) in
            &[("signextend", 0x0bu8), ("byte", 0x1a), ("shl", 0x1b), ("shr", 0x1c), ("sar", 0x1d)]
        {
            for i in &idx {
                for v in &vals {
                    emit(&mut rng, name, opc, &[*i, *v]);
                }
            }
        }
    }
    // stream 2: random / biased words
    for _ in 0..n {
        let &(name, opc, ar) = rng.pick(OPS);
        let ws: Vec<U256> = (0..ar).map(|_| rng.word()).collect();
        emit(&mut rng, name, opc, &ws);
    }
    // stream 3: relations that matter for signed ops and mod ops
    for _ in 0..n / 4 {
        let a = rng.word();
        let &(name, opc, ar) = rng.pick(OPS);
        let ws: Vec<U256> = match (ar, rng.below(4)) {
            (2, 0) => vec![a, a],
            (2, 1) => vec![a, a.wrapping_neg()],
            (2, 2) => vec![a, a.wrapping_add(U256::from(1))],
            (3, 0) => vec![a, rng.word(), a],
            (3, 1) => vec![U256::MAX, U256::MAX, rng.word()],
            _ => (0..ar).map(|_| rng.word()).collect(),
        };
        emit(&mut rng, name, opc, &ws);
    }
    lines
}

pub fn run(seed: u64, n: usize, replay: Option<Vec<String>>, out: &mut Out) {
    let lines = replay.unwrap_or_else(|| gen(seed, n));
    for l in lines {
        let r = exec_line(&l);
        let op = l.split(' ').nth(1).unwrap_or("?").to_string();
        out.count(&format!("op:{op}"));
        if r.starts_with("halt") || r == "panic" {
            out.count("halted");
        }
        out.push(l, r);
    }
}
