//! Behaviour probes shared by the table dumper (Kind-A tie) and the C05 correspondence stream.
use revm::interpreter::{
    opcode::make_instruction_table, Contract, DummyHost, InstructionResult,
    Interpreter, InterpreterAction, SharedMemory,
};
use revm::primitives::{
    spec_to_generic, AccountInfo, Address, Bytecode, Bytes, ExecutionResult, HaltReason, SpecId, TxKind, U256,
};
use revm::{db::InMemoryDB, Evm};

pub fn all_specs() -> Vec<SpecId> {
    (0u16..=255).filter_map(|i| SpecId::try_from_u8(i as u8)).collect()
}

pub fn gate_code(r: InstructionResult) -> u8 {
    match r {
        InstructionResult::NotActivated => 1,
        InstructionResult::OpcodeNotFound => 2,
        InstructionResult::EOFOpcodeDisabledInLegacy => 3,
        InstructionResult::InvalidFEOpcode => 4,
        InstructionResult::ReturnContractInNotInitEOF => 5,
        _ => 0,
    }
}

/// one opcode, legacy mode, 17 benign stack items, ample gas, dummy host
pub fn op_status(op: u8, spec: SpecId) -> (u8, String) {
    let contract = Contract::new(
        Bytes::new(),
        Bytecode::new_raw(Bytes::from(vec![op])),
        None,
        Address::ZERO,
        None,
        Address::ZERO,
        U256::ZERO,
    );
    let mut interp = Interpreter::new(contract, 10_000_000, false);
    for _ in 0..17 {
        let _ = interp.stack.push(U256::from(1));
    }
    let mut host = DummyHost::default();
    // execute exactly the first instruction: run until the result changes or the pc moved past it
    let action = spec_to_generic!(spec, {
        let table = make_instruction_table::<DummyHost, SPEC>();
        interp.run(SharedMemory::new(), &table, &mut host)
    });
    let r = match action {
        InterpreterAction::Return { result } => result.result,
        InterpreterAction::Call { .. } | InterpreterAction::Create { .. } | InterpreterAction::EOFCreate { .. } => {
            InstructionResult::CallOrCreate
        }
        InterpreterAction::None => InstructionResult::Continue,
    };
    (gate_code(r), format!("{:?}", r))
}

pub fn code_for(op: u8) -> Vec<u8> {
    let mut c = Vec::new();
    for _ in 0..17 {
        c.push(0x60);
        c.push(0x01);
    }
    c.push(op);
    c
}

/// the same opcode through the public Evm (handler, frame machine, result conversion)
pub fn tx_status(op: u8, spec: SpecId) -> (u8, u8) {
    let mut db = InMemoryDB::default();
    let target = Address::with_last_byte(0x77);
    let caller = Address::with_last_byte(0x99);
    db.insert_account_info(
        target,
        AccountInfo { code: Some(Bytecode::new_raw(Bytes::from(code_for(op)))), ..Default::default() },
    );
    db.insert_account_info(caller, AccountInfo { balance: U256::from(1u64 << 60), ..Default::default() });
    let gas_limit = 1_000_000u64;
    let mut evm = Evm::builder()
        .with_db(db)
        .with_spec_id(spec)
        .modify_tx_env(|tx| {
            tx.caller = caller;
            tx.transact_to = TxKind::Call(target);
            tx.gas_limit = gas_limit;
        })
        .build();
    match evm.transact() {
        Ok(rs) => match rs.result {
            ExecutionResult::Halt { reason, gas_used } => {
                let c = match reason {
                    HaltReason::NotActivated => 1,
                    HaltReason::OpcodeNotFound => 2,
                    HaltReason::InvalidFEOpcode => 4,
                    _ => 0,
                };
                (c, (gas_used == gas_limit) as u8)
            }
            _ => (0, 0),
        },
        Err(_) => (9, 0),
    }
}

pub fn pc_input() -> Vec<u8> {
    // modexp-shaped: base_len = exp_len = mod_len = 1, 2^3 mod 5
    let mut v = vec![0u8; 96];
    v[31] = 1;
    v[63] = 1;
    v[95] = 1;
    v.extend_from_slice(&[2, 3, 5]);
    v
}

/// (result class, output, gas_used) of a plain call transaction to `addr`
pub fn call_tx(addr: Address, spec: SpecId) -> String {
    let mut db = InMemoryDB::default();
    let caller = Address::with_last_byte(0x99);
    db.insert_account_info(caller, AccountInfo { balance: U256::from(1u64 << 60), ..Default::default() });
    let mut evm = Evm::builder()
        .with_db(db)
        .with_spec_id(spec)
        .modify_tx_env(|tx| {
            tx.caller = caller;
            tx.transact_to = TxKind::Call(addr);
            tx.gas_limit = 5_000_000;
            tx.data = Bytes::from(pc_input());
        })
        .build();
    match evm.transact() {
        Ok(rs) => match rs.result {
            ExecutionResult::Success { reason, gas_used, output, .. } => {
                format!("S {:?} {} {}", reason, gas_used, crate::hxb(output.data()))
            }
            ExecutionResult::Revert { gas_used, .. } => format!("R {}", gas_used),
            ExecutionResult::Halt { reason, gas_used } => format!("H {:?} {}", reason, gas_used),
        },
        Err(e) => format!("E {:?}", e),
    }
}



/// The same two probes on ONE Evm whose hardfork is switched in place (`modify_spec_id` or the builder's
/// `modify().with_spec_id()`) after it already executed a transaction under `spec_a`: what the probe then
/// observes under `spec_b` must be what a freshly built Evm for `spec_b` observes.
fn norm(r: Result<revm::primitives::ResultAndState, revm::primitives::EVMError<core::convert::Infallible>>) -> String {
    match r {
        Ok(rs) => match rs.result {
            ExecutionResult::Success { reason, gas_used, output, .. } => format!("S {:?} {} {}", reason, gas_used, crate::hxb(output.data())),
            ExecutionResult::Revert { gas_used, .. } => format!("R {}", gas_used),
            ExecutionResult::Halt { reason, gas_used } => format!("H {:?} {}", reason, gas_used),
        },
        Err(e) => format!("E {:?}", e),
    }
}

pub fn reused_call(spec_a: SpecId, spec_b: SpecId, to: Address, code: Option<Vec<u8>>, via_builder: bool) -> (String, String) {
    let mk_db = || {
        let mut db = InMemoryDB::default();
        let caller = Address::with_last_byte(0x99);
        db.insert_account_info(caller, AccountInfo { balance: U256::from(1u64 << 60), ..Default::default() });
        if let Some(c) = &code {
            db.insert_account_info(to, AccountInfo { code: Some(Bytecode::new_raw(Bytes::from(c.clone()))), ..Default::default() });
        }
        db
    };
    let set_tx = |tx: &mut revm::primitives::TxEnv| {
        tx.caller = Address::with_last_byte(0x99);
        tx.transact_to = TxKind::Call(to);
        tx.gas_limit = 1_000_000;
        tx.data = Bytes::from(pc_input());
    };
    let mut evm = Evm::builder().with_db(mk_db()).with_spec_id(spec_a).modify_tx_env(set_tx).build();
    let _ = evm.transact();
    let mut evm = if via_builder {
        evm.modify().with_spec_id(spec_b).build()
    } else {
        evm.modify_spec_id(spec_b);
        evm
    };
    let reused = norm(evm.transact());
    let mut fresh = Evm::builder().with_db(mk_db()).with_spec_id(spec_b).modify_tx_env(set_tx).build();
    (reused, norm(fresh.transact()))
}


/// A plain call to `addr` on an Evm whose precompile set was EXTENDED by the embedder through a handler register
/// (the documented custom-precompile flow: wrap `pre_execution.load_precompiles`, `extend` with one extra address):
/// every built-in address must still behave exactly as on a plain Evm.
pub fn call_tx_extended(addr: Address, spec: SpecId) -> String {
    use revm::{ContextPrecompile, ContextStatefulPrecompile, InnerEvmContext};
    use revm::precompile::{PrecompileOutput, PrecompileResult};
    struct Custom;
    impl ContextStatefulPrecompile<InMemoryDB> for Custom {
        fn call(&self, _input: &Bytes, _gas_limit: u64, _context: &mut InnerEvmContext<InMemoryDB>) -> PrecompileResult {
            Ok(PrecompileOutput::new(10, Bytes::new()))
        }
    }
    let mut db = InMemoryDB::default();
    let caller = Address::with_last_byte(0x99);
    db.insert_account_info(caller, AccountInfo { balance: U256::from(1u64 << 60), ..Default::default() });
    let mut evm = Evm::builder()
        .with_db(db)
        .with_spec_id(spec)
        .modify_tx_env(|tx| {
            tx.caller = caller;
            tx.transact_to = TxKind::Call(addr);
            tx.gas_limit = 5_000_000;
            tx.data = Bytes::from(pc_input());
        })
        .append_handler_register(|handler| {
            let precompiles = handler.pre_execution.load_precompiles();
            handler.pre_execution.load_precompiles = std::sync::Arc::new(move || {
                let mut precompiles = precompiles.clone();
                precompiles.extend([(Address::with_last_byte(0xC7), ContextPrecompile::ContextStateful(std::sync::Arc::new(Custom)))]);
                precompiles
            });
        })
        .build();
    norm(evm.transact())
}
