//! C13: the gas meter `revm::interpreter::Gas`, driven through its public API.
//!
//! requests (u64 = lowercase hex, i64 = signed decimal)
//!   `begin gas new <limit>` | `begin gas new_spent <limit>` | `begin gas default`
//!   `gas record_cost <u64>` | `gas erase_cost <u64>` | `gas record_refund <i64>`
//!   `gas set_final_refund <0|1>` | `gas set_refund <i64>` | `gas set_spent <u64>` | `gas spend_all`
//! reply (every line): `[ok=<0|1> ]l=<limit> r=<remaining> s=<spent> f=<refunded> ssr=<spent_sub_refunded>
//!   p=<remaining_63_of_64_parts> m=<memory>`; `ok=` is `record_cost`'s return value.
//! Malformed lines: `bad-op`, state unchanged (malformed `begin`: state reset to `Gas::default()`).
//! A Rust panic is the reply `panic` (none is expected: release profile wraps).
use crate::*;
use revm::interpreter::Gas;

/// hex u64: one or more hex digits, value < 2^64
fn parse_u64(s: &str) -> Option<u64> {
    if s.is_empty() {
        return None;
    }
    let mut acc: u128 = 0;
    for c in s.chars() {
        let d = c.to_digit(16)? as u128;
        if !c.is_ascii() {
            return None;
        }
        acc = acc.checked_mul(16)?.checked_add(d)?;
        if acc > u64::MAX as u128 {
            // leading zeros cannot bring it back: reject
            return None;
        }
    }
    Some(acc as u64)
}

/// decimal i64: optional '-', one or more ASCII digits, value within i64
fn parse_i64(s: &str) -> Option<i64> {
    let (neg, ds) = match s.strip_prefix('-') {
        Some(r) => (true, r),
        None => (false, s),
    };
    if ds.is_empty() {
        return None;
    }
    let mut acc: u128 = 0;
    for c in ds.chars() {
        if !c.is_ascii_digit() {
            return None;
        }
        acc = acc.checked_mul(10)?.checked_add(c as u128 - '0' as u128)?;
        if acc > (1u128 << 64) {
            return None;
        }
    }
    let v: i128 = if neg { -(acc as i128) } else { acc as i128 };
    if v < i64::MIN as i128 || v > i64::MAX as i128 {
        return None;
    }
    Some(v as i64)
}

#[allow(deprecated)]
fn show(g: &Gas) -> String {
    format!(
        "l={:x} r={:x} s={:x} f={} ssr={:x} p={:x} m={:x}",
        g.limit(),
        g.remaining(),
        g.spent(),
        g.refunded(),
        g.spent_sub_refunded(),
        g.remaining_63_of_64_parts(),
        g.memory()
    )
}

/// executes one request line on `g`; pure function of (state, line)
pub fn exec_line(g: &mut Gas, line: &str) -> String {
    let t: Vec<&str> = line.trim().split(' ').collect();
    let snapshot = *g;
    let r = std::panic::catch_unwind(move || {
        let mut g = snapshot;
        let out = match t.as_slice() {
            ["begin", "gas", rest @ ..] => match rest {
                ["new", a] => match parse_u64(a) {
                    Some(l) => {
                        g = Gas::new(l);
                        show(&g)
                    }
                    None => {
                        g = Gas::default();
                        "bad-op".into()
                    }
                },
                ["new_spent", a] => match parse_u64(a) {
                    Some(l) => {
                        g = Gas::new_spent(l);
                        show(&g)
                    }
                    None => {
                        g = Gas::default();
                        "bad-op".into()
                    }
                },
                ["default"] => {
                    g = Gas::default();
                    show(&g)
                }
                _ => {
                    g = Gas::default();
                    "bad-op".into()
                }
            },
            ["gas", "record_cost", a] => match parse_u64(a) {
                Some(c) => {
                    let ok = g.record_cost(c);
                    format!("ok={} {}", b01(ok), show(&g))
                }
                None => "bad-op".into(),
            },
            ["gas", "erase_cost", a] => match parse_u64(a) {
                Some(r) => {
                    g.erase_cost(r);
                    show(&g)
                }
                None => "bad-op".into(),
            },
            ["gas", "record_refund", a] => match parse_i64(a) {
                Some(r) => {
                    g.record_refund(r);
                    show(&g)
                }
                None => "bad-op".into(),
            },
            ["gas", "set_final_refund", a] => match *a {
                "0" | "1" => {
                    g.set_final_refund(*a == "1");
                    show(&g)
                }
                _ => "bad-op".into(),
            },
            ["gas", "set_refund", a] => match parse_i64(a) {
                Some(r) => {
                    g.set_refund(r);
                    show(&g)
                }
                None => "bad-op".into(),
            },
            ["gas", "set_spent", a] => match parse_u64(a) {
                Some(s) => {
                    g.set_spent(s);
                    show(&g)
                }
                None => "bad-op".into(),
            },
            ["gas", "spend_all"] => {
                g.spend_all();
                show(&g)
            }
            _ => "bad-op".into(),
        };
        (g, out)
    });
    match r {
        Ok((ng, out)) => {
            *g = ng;
            out
        }
        Err(_) => "panic".to_string(),
    }
}

pub fn boundary_u64() -> Vec<u64> {
    let mut v: Vec<u64> = vec![
        0, 1, 2, 3, 4, 5, 6, 9, 10, 63, 64, 65, 127, 128, 129, 2300, 21000, 30_000_000,
        u32::MAX as u64 - 1, u32::MAX as u64, u32::MAX as u64 + 1,
        (1 << 62) - 1, 1 << 62, (1 << 62) + 1,
        i64::MAX as u64 - 1, i64::MAX as u64, i64::MAX as u64 + 1, i64::MAX as u64 + 2,
        u64::MAX - 5, u64::MAX - 4, u64::MAX - 2, u64::MAX - 1, u64::MAX,
        u64::MAX / 2, u64::MAX / 5, u64::MAX / 5 + 1, u64::MAX / 64, u64::MAX - u64::MAX / 64,
    ];
    v.sort();
    v.dedup();
    v
}
pub fn boundary_i64() -> Vec<i64> {
    let mut v: Vec<i64> = vec![
        0, 1, -1, 2, -2, 4, 5, -5, 10, 4800, -4800, 15000, -15000, 19200, 24000,
        u32::MAX as i64, -(u32::MAX as i64), 1 << 62, -(1 << 62),
        i64::MAX, i64::MAX - 1, i64::MIN, i64::MIN + 1, i64::MAX / 2, i64::MAX / 5, i64::MIN / 2,
    ];
    v.sort();
    v.dedup();
    v
}

fn any_u64(rng: &mut Rng) -> u64 {
    match rng.below(10) {
        0..=3 => *rng.pick(&boundary_u64()),
        4..=5 => rng.below(100_000),
        6..=7 => {
            let bits = rng.range(1, 64);
            if bits == 64 { rng.next() } else { rng.next() >> (64 - bits) }
        }
        _ => rng.next(),
    }
}
fn any_i64(rng: &mut Rng) -> i64 {
    match rng.below(10) {
        0..=3 => *rng.pick(&boundary_i64()),
        4..=5 => rng.below(50_000) as i64 - 25_000,
        6..=7 => {
            let bits = rng.range(1, 64);
            (if bits == 64 { rng.next() } else { rng.next() >> (64 - bits) }) as i64
        }
        _ => rng.next() as i64,
    }
}

fn op_line(name: &str, arg: Option<String>) -> String {
    match arg {
        Some(a) => format!("gas {name} {a}"),
        None => format!("gas {name}"),
    }
}

/// stream 1: sequences that respect frame accounting (what real frames do): the generator keeps a
/// shadow (limit, remaining, refunded) in u128/i128 so that returned gas never exceeds spent gas
/// and refunds stay inside i64; charges are mostly affordable, sometimes not.
fn gen_structured(rng: &mut Rng, max_len: usize, lines: &mut Vec<String>, out: &mut Out) {
    let limit = match rng.below(6) {
        0 => *rng.pick(&boundary_u64()),
        1 => rng.next(),
        _ => rng.range(21_000, 30_000_000),
    };
    let spent_start = rng.chance(1, 4);
    let mut remaining: u128 = if spent_start { 0 } else { limit as u128 };
    let mut refunded: i128 = 0;
    lines.push(format!("begin gas {} {:x}", if spent_start { "new_spent" } else { "new" }, limit));
    out.count("case:structured");
    let len = rng.range(1, max_len as u64) as usize;
    for i in 0..len {
        let spent = limit as u128 - remaining;
        let last = i + 1 == len;
        let k = if last && rng.chance(2, 3) { 5 } else { rng.below(12) };
        match k {
            0..=4 => {
                // charge: affordable (often exactly remaining / remaining+1), sometimes too large
                let c: u64 = match rng.below(8) {
                    0 => remaining as u64,
                    1 => (remaining as u64).wrapping_add(1),
                    2 => any_u64(rng),
                    3 => 0,
                    _ => {
                        if remaining == 0 { rng.below(5) } else { rng.below((remaining as u64 / 4).max(1) + 1) }
                    }
                };
                if (c as u128) <= remaining {
                    remaining -= c as u128;
                    out.count("structured:charge-ok");
                } else {
                    out.count("structured:charge-fail");
                }
                lines.push(op_line("record_cost", Some(format!("{:x}", c))));
            }
            5 => {
                // final refund (non-negative counter only in this stream)
                if refunded < 0 {
                    let r = -refunded + rng.below(1000) as i128;
                    if r <= i64::MAX as i128 {
                        refunded += r;
                        lines.push(op_line("record_refund", Some(format!("{}", r))));
                    } else {
                        refunded = 0;
                        lines.push(op_line("set_refund", Some("0".into())));
                    }
                }
                let london = rng.chance(1, 2);
                let q = if london { 5 } else { 2 };
                refunded = refunded.min((spent / q) as i128);
                out.count("structured:final-refund");
                lines.push(op_line("set_final_refund", Some(b01(london).into())));
            }
            6..=7 => {
                // a sub-frame returns unused gas: r <= spent
                let r: u64 = match rng.below(4) {
                    0 => spent as u64,
                    1 => 0,
                    _ => if spent == 0 { 0 } else { rng.below(spent as u64) },
                };
                remaining += r as u128;
                out.count("structured:erase");
                lines.push(op_line("erase_cost", Some(format!("{:x}", r))));
            }
            8..=9 => {
                // refund delta (may be negative), sum kept inside i64
                let mut r: i64 = match rng.below(4) {
                    0 => *rng.pick(&[4800i64, -4800, 15000, -15000, 19200, 24000, 19900, -19900, 2800, -2800]),
                    1 => any_i64(rng),
                    _ => rng.below(30_000) as i64 - 10_000,
                };
                let s = refunded + r as i128;
                if s < i64::MIN as i128 || s > i64::MAX as i128 {
                    r = 0;
                }
                refunded += r as i128;
                out.count("structured:refund");
                lines.push(op_line("record_refund", Some(format!("{}", r))));
            }
            10 => {
                if rng.chance(1, 2) {
                    remaining = 0;
                    out.count("structured:spend-all");
                    lines.push(op_line("spend_all", None));
                } else {
                    let s = if rng.chance(1, 2) { any_u64(rng) } else { rng.below(limit.max(1)) };
                    remaining = (limit as u128).saturating_sub(s as u128);
                    out.count("structured:set-spent");
                    lines.push(op_line("set_spent", Some(format!("{:x}", s))));
                }
            }
            _ => {
                let r = any_i64(rng);
                refunded = r as i128;
                out.count("structured:set-refund");
                lines.push(op_line("set_refund", Some(format!("{}", r))));
            }
        }
    }
}

/// stream 3: arbitrary operations with arbitrary u64 / i64 values (wrap-around on purpose), and a
/// few malformed lines
fn gen_arbitrary(rng: &mut Rng, max_len: usize, lines: &mut Vec<String>, out: &mut Out) {
    match rng.below(8) {
        0 => lines.push("begin gas default".into()),
        1 => lines.push(format!("begin gas new_spent {:x}", any_u64(rng))),
        _ => lines.push(format!("begin gas new {:x}", any_u64(rng))),
    }
    out.count("case:arbitrary");
    let len = rng.range(1, max_len as u64) as usize;
    for _ in 0..len {
        let l = match rng.below(40) {
            0..=8 => op_line("record_cost", Some(format!("{:x}", any_u64(rng)))),
            9..=15 => op_line("erase_cost", Some(format!("{:x}", any_u64(rng)))),
            16..=22 => op_line("record_refund", Some(format!("{}", any_i64(rng)))),
            23..=27 => op_line("set_final_refund", Some(b01(rng.chance(1, 2)).into())),
            28..=30 => op_line("set_refund", Some(format!("{}", any_i64(rng)))),
            31..=34 => op_line("set_spent", Some(format!("{:x}", any_u64(rng)))),
            35..=37 => op_line("spend_all", None),
            _ => {
                out.count("malformed");
                rng.pick(&[
                    "gas", "gas frobnicate 1", "gas record_cost", "gas record_cost xyz", "gas record_cost 10000000000000000",
                    "gas record_cost 1 2", "gas record_refund 9223372036854775808", "gas record_refund -9223372036854775809",
                    "gas record_refund 1f", "gas record_refund -", "gas set_final_refund 2", "gas spend_all 0",
                    "gas set_spent -1", "gas erase_cost", "begin gas new", "begin gas new_spent 1ffffffffffffffff", "begin gas old 5",
                    "gas record_refund -0", "gas record_cost 00000000000000000000ff", "gas set_refund 000000000000000000000000000000000000000000012",
                ])
                .to_string()
            }
        };
        lines.push(l);
    }
}

/// stream 2: complete boundary cross products (independent of n):
/// (constructor × limit × op × argument) and (limit × two-op prefixes that move remaining / refunded
/// to a boundary × final op)
fn gen_boundary(lines: &mut Vec<String>, out: &mut Out) {
    let bu = boundary_u64();
    let bi = boundary_i64();
    for ctor in ["new", "new_spent"] {
        for &l in &bu {
            for &a in &bu {
                for name in ["record_cost", "erase_cost", "set_spent"] {
                    lines.push(format!("begin gas {ctor} {:x}", l));
                    lines.push(op_line(name, Some(format!("{:x}", a))));
                    out.count("case:boundary");
                }
            }
        }
    }
    // refund counter × refund delta
    for &f in &bi {
        for &r in &bi {
            lines.push("begin gas new 64".into());
            lines.push(op_line("set_refund", Some(format!("{}", f))));
            lines.push(op_line("record_refund", Some(format!("{}", r))));
            out.count("case:boundary");
        }
    }
    // spent × refund counter × fork for the final refund; remaining set through set_spent
    for &l in &bu {
        for &s in &bu {
            lines.push(format!("begin gas new {:x}", l));
            lines.push(op_line("set_spent", Some(format!("{:x}", s))));
            for &f in &bi {
                for london in ["0", "1"] {
                    lines.push(op_line("set_refund", Some(format!("{}", f))));
                    lines.push(op_line("set_final_refund", Some(london.into())));
                }
            }
            out.count("case:boundary");
        }
    }
    // charge after giving back more than was spent (remaining > limit), all pairs
    for &l in &bu {
        for &r in &bu {
            lines.push(format!("begin gas new {:x}", l));
            lines.push(op_line("erase_cost", Some(format!("{:x}", r))));
            lines.push(op_line("record_cost", Some(format!("{:x}", r))));
            lines.push(op_line("set_final_refund", Some("1".into())));
            out.count("case:boundary");
        }
    }
}

/// the witnesses of the `_counterexample` theorems of Props/C13.lean (always run first)
pub const WITNESSES: &[&str] = &[
    "begin gas new a", "gas erase_cost 1",
    "begin gas new ffffffffffffffff", "gas record_cost 5", "gas erase_cost a",
    "begin gas new 64", "gas spend_all", "gas record_refund -1", "gas set_final_refund 1",
    "begin gas new 64", "gas spend_all", "gas record_refund -10",
    "begin gas new 0", "gas set_refund 9223372036854775807", "gas record_refund 1",
];

pub fn gen(seed: u64, n: usize, out: &mut Out) -> Vec<String> {
    let mut rng = Rng::new(seed ^ 0xC13);
    let mut lines: Vec<String> = WITNESSES.iter().map(|s| s.to_string()).collect();
    gen_boundary(&mut lines, out);
    // sequences up to 40 ops in the quick tier, up to 400 when the budget is large
    let max_len = if n >= 50_000 { 400 } else { 40 };
    for i in 0..n {
        let ml = if i % 10 == 0 { max_len } else { 40 };
        if rng.chance(7, 10) {
            gen_structured(&mut rng, ml, &mut lines, out);
        } else {
            gen_arbitrary(&mut rng, ml, &mut lines, out);
        }
    }
    lines
}

pub fn run(seed: u64, n: usize, replay: Option<Vec<String>>, out: &mut Out) {
    let lines = match replay {
        Some(l) => l,
        None => gen(seed, n, out),
    };
    let mut g = Gas::default();
    for l in lines {
        let r = exec_line(&mut g, &l);
        let op = if l.starts_with("begin ") { "begin".to_string() } else { l.split(' ').nth(1).unwrap_or("?").to_string() };
        out.count(&format!("op:{op}"));
        if r == "bad-op" {
            out.count("reply:bad-op");
        } else if r == "panic" {
            out.count("reply:panic");
        } else {
            if r.starts_with("ok=0") {
                out.count("reply:charge-failed");
            }
            // remaining > limit  <=>  the invariant of the property is broken (outside frame accounting)
            if g.remaining() > g.limit() {
                out.count("state:remaining>limit");
            }
            if g.refunded() < 0 {
                out.count("state:refunded<0");
            }
        }
        out.push(l, r);
    }
}
