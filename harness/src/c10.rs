//! C10: static calls cannot change state. Component `static`.
//!
//! Three ties to the code:
//!
//! 1. Kind-A table (`dump_static_table`, printed by `bin/tables.rs`, turned into
//!    `lean/Revm/Gen/StaticTable.lean` by tools/tables2lean.py): every opcode byte x every SpecId x
//!    {legacy, EOF} x {all-zero, all-one stack fill}, executed on a real `Interpreter` with
//!    `is_static = true`, 17 stack items, ample gas and a *recording* host.
//!    line: `statictab <spec> <eof> <fill> <op> <code>` with code = res*100 + mut*10 + act
//!      res: 0 instruction completed (Continue/Stop/Return/...), 1 StateChangeDuringStaticCall,
//!           2 CallNotAllowedInsideStatic, 3 NotActivated, 4 OpcodeNotFound, 5 EOFOpcodeDisabledInLegacy,
//!           6 CallOrCreate (an action was handed to the frame machine), 7 Revert, 8 any other error, 9 panic
//!      mut: 1 iff the host saw sstore / tstore / log / selfdestruct
//!      act: 0 no call/create action, 1 Call{value = 0, is_static = true}, 2 Call/ExtCall with value != 0,
//!           3 Create, 4 EOFCreate, 5 Call with is_static = false (flag lost), 6 CallCode with value != 0
//!           and is_static = true (allowed: moves nothing between accounts)
//!    line: `staticchild <spec> <eof> <parent_static> <op> <child>` for the seven call opcodes (zero fill):
//!      child = CallInputs.is_static of the emitted action (0/1), 2 = no Call action emitted
//!
//! 2. `static instr <spec> <eof> <op> <gas> <stack top-first, comma separated | ->`: one instruction on the real
//!    interpreter in static mode -> `<result> mut=<0|1> act=<...>`.
//!
//! 3. `static tx <spec> <entry> <schemes> <lvl> <op> <prefixes>`: a whole transaction through `Evm::transact`
//!    with an `Inspector` that snapshots the journaled state (merged with the database) at `call` and `call_end`
//!    of every frame -> `out=<word> fr=<post-order list of scheme:static:result:state>`; state = `e` (static
//!    frame, world equal), `D` (static frame, world DIFFERS: the property is violated), `c` / `u` (non-static
//!    frame, world changed / unchanged).
use crate::*;
use revm::db::InMemoryDB;
use revm::interpreter::{
    opcode::{make_instruction_table, OPCODE_INFO_JUMPTABLE}, AccountLoad, CallInputs, CallOutcome, CallScheme, CallValue, Contract, CreateInputs,
    CreateOutcome, EOFCreateInputs, Host, InstructionResult, Interpreter, InterpreterAction, SStoreResult,
    SelfDestructResult, SharedMemory, StateLoad,
};
use revm::primitives::{
    eof::{EofBody, TypesSection},
    spec_to_generic, AccountInfo, Address, Bytecode, Bytes, Env, ExecutionResult, Log, SpecId, TxKind, B256,
    KECCAK_EMPTY, U256,
};
use revm::{inspector_handle_register, Database, Evm, EvmContext, Inspector};
use std::collections::{BTreeMap, BTreeSet};
use std::sync::Arc;

// ------------------------------------------------------------------------------------------------ recording host

/// benign answers (like DummyHost) + a record of every mutating call
#[derive(Default)]
pub struct RecHost {
    pub env: Env,
    pub mutating: Vec<&'static str>,
}
impl Host for RecHost {
    fn env(&self) -> &Env {
        &self.env
    }
    fn env_mut(&mut self) -> &mut Env {
        &mut self.env
    }
    fn load_account_delegated(&mut self, _a: Address) -> Option<AccountLoad> {
        Some(AccountLoad::default())
    }
    fn block_hash(&mut self, _n: u64) -> Option<B256> {
        Some(B256::ZERO)
    }
    fn balance(&mut self, _a: Address) -> Option<StateLoad<U256>> {
        Some(Default::default())
    }
    fn code(&mut self, _a: Address) -> Option<StateLoad<Bytes>> {
        Some(Default::default())
    }
    fn code_hash(&mut self, _a: Address) -> Option<StateLoad<B256>> {
        Some(StateLoad::new(KECCAK_EMPTY, false))
    }
    fn sload(&mut self, _a: Address, _i: U256) -> Option<StateLoad<U256>> {
        Some(StateLoad::new(U256::ZERO, false))
    }
    fn sstore(&mut self, _a: Address, _i: U256, v: U256) -> Option<StateLoad<SStoreResult>> {
        self.mutating.push("sstore");
        Some(StateLoad {
            data: SStoreResult { original_value: U256::ZERO, present_value: U256::ZERO, new_value: v },
            is_cold: false,
        })
    }
    fn tload(&mut self, _a: Address, _i: U256) -> U256 {
        U256::ZERO
    }
    fn tstore(&mut self, _a: Address, _i: U256, _v: U256) {
        self.mutating.push("tstore");
    }
    fn log(&mut self, _l: Log) {
        self.mutating.push("log");
    }
    fn selfdestruct(&mut self, _a: Address, _t: Address) -> Option<StateLoad<SelfDestructResult>> {
        self.mutating.push("selfdestruct");
        Some(StateLoad::default())
    }
}

/// a minimal well-formed EOF container (one section: STOP)
fn tiny_eof() -> Bytes {
    EofBody {
        types_section: vec![TypesSection { inputs: 0, outputs: 0x80, max_stack_size: 0 }],
        code_section: vec![Bytes::from(vec![0x00u8])],
        container_section: vec![],
        data_section: Bytes::new(),
        is_data_filled: true,
    }
    .into_eof()
    .raw
}

/// the contract under test: `op` followed by zero bytes (immediates = 0, then STOP), as legacy code or as the
/// first code section of an (unvalidated) EOF container with one sub-container and 64 data bytes
fn contract_for(op: u8, eof: bool) -> Contract {
    let bytecode = if eof {
        let mut code = vec![op];
        code.extend([0u8; 40]);
        let body = EofBody {
            types_section: vec![TypesSection { inputs: 0, outputs: 0x80, max_stack_size: 64 }],
            code_section: vec![Bytes::from(code)],
            container_section: vec![tiny_eof()],
            data_section: Bytes::from(vec![0u8; 64]),
            is_data_filled: true,
        };
        Bytecode::Eof(Arc::new(body.into_eof()))
    } else {
        Bytecode::new_raw(Bytes::from(vec![op]))
    };
    Contract::new(
        Bytes::new(),
        bytecode,
        None,
        Address::with_last_byte(0xC0),
        None,
        Address::with_last_byte(0xCA),
        U256::ZERO,
    )
}

pub struct Probe {
    pub result: InstructionResult,
    pub mutated: bool,
    /// (scheme, is_static, value non-zero) of an emitted Call action
    pub call: Option<(CallScheme, bool, bool)>,
    pub create: bool,
    pub eofcreate: bool,
}

/// run `op` once on a real interpreter; `stack` bottom-first
pub fn probe(op: u8, spec: SpecId, eof: bool, is_static: bool, gas: u64, stack: &[U256]) -> Probe {
    let mut interp = Interpreter::new(contract_for(op, eof), gas, is_static);
    for w in stack {
        let _ = interp.stack.push(*w);
    }
    let mut host = RecHost::default();
    let action = spec_to_generic!(spec, {
        let table = make_instruction_table::<RecHost, SPEC>();
        interp.run(SharedMemory::new(), &table, &mut host)
    });
    let mut p = Probe { result: InstructionResult::Continue, mutated: !host.mutating.is_empty(), call: None, create: false, eofcreate: false };
    match action {
        InterpreterAction::Return { result } => p.result = result.result,
        InterpreterAction::Call { inputs } => {
            p.result = InstructionResult::CallOrCreate;
            let nz = match inputs.value {
                CallValue::Transfer(v) => !v.is_zero(),
                CallValue::Apparent(_) => false,
            };
            p.call = Some((inputs.scheme, inputs.is_static, nz));
        }
        InterpreterAction::Create { .. } => {
            p.result = InstructionResult::CallOrCreate;
            p.create = true;
        }
        InterpreterAction::EOFCreate { .. } => {
            p.result = InstructionResult::CallOrCreate;
            p.eofcreate = true;
        }
        InterpreterAction::None => {}
    }
    p
}

fn res_code(r: InstructionResult) -> u32 {
    use InstructionResult::*;
    match r {
        StateChangeDuringStaticCall => 1,
        CallNotAllowedInsideStatic => 2,
        NotActivated => 3,
        OpcodeNotFound => 4,
        EOFOpcodeDisabledInLegacy => 5,
        CallOrCreate => 6,
        Revert => 7,
        r if r.is_error() => 8,
        _ => 0,
    }
}

fn act_code(p: &Probe) -> u32 {
    if p.create {
        3
    } else if p.eofcreate {
        4
    } else if let Some((scheme, st, nz)) = p.call {
        if !st {
            5
        } else if nz && scheme == CallScheme::CallCode {
            6
        } else if nz {
            2
        } else {
            1
        }
    } else {
        0
    }
}

pub const CALL_OPS: [u8; 7] = [0xf1, 0xf2, 0xf4, 0xfa, 0xf8, 0xf9, 0xfb];

/// Kind-A dump (see module doc); called by bin/tables.rs
pub fn dump_static_table() {
    let quiet = std::panic::take_hook();
    std::panic::set_hook(Box::new(|_| {}));
    for s in crate::act::all_specs() {
        for eof in [false, true] {
            for fill in [0u64, 1] {
                let stack = vec![U256::from(fill); 17];
                for op in 0u16..=255 {
                    // opcodes that EOF validation rejects (OPCODE_INFO `not_eof`) never run in EOF code; some of
                    // their handlers `assume!(!is_eof)` (undefined behaviour in a release build): not executed
                    if eof && OPCODE_INFO_JUMPTABLE[op as usize].map(|i| i.is_disabled_in_eof()).unwrap_or(false) {
                        println!("statictab {} {} {} {} 999", s as u8, eof as u8, fill, op);
                        continue;
                    }
                    let code = std::panic::catch_unwind(|| {
                        let p = probe(op as u8, s, eof, true, 10_000_000, &stack);
                        res_code(p.result) * 100 + (p.mutated as u32) * 10 + act_code(&p)
                    })
                    .unwrap_or(900);
                    println!("statictab {} {} {} {} {}", s as u8, eof as u8, fill, op, code);
                }
            }
            for parent in [false, true] {
                for op in CALL_OPS {
                    let stack = vec![U256::ZERO; 17];
                    if eof && OPCODE_INFO_JUMPTABLE[op as usize].map(|i| i.is_disabled_in_eof()).unwrap_or(false) {
                        println!("staticchild {} {} {} {} 2", s as u8, eof as u8, parent as u8, op);
                        continue;
                    }
                    let c = std::panic::catch_unwind(|| match probe(op, s, eof, parent, 10_000_000, &stack).call {
                        Some((_, st, _)) => st as u8,
                        None => 2,
                    })
                    .unwrap_or(2);
                    println!("staticchild {} {} {} {} {}", s as u8, eof as u8, parent as u8, op, c);
                }
            }
        }
    }
    std::panic::set_hook(quiet);
}

// ------------------------------------------------------------------------------------------------ instr stream

fn parse_spec(s: &str) -> Option<SpecId> {
    s.parse::<u8>().ok().and_then(SpecId::try_from_u8)
}

fn parse_words(s: &str) -> Option<Vec<U256>> {
    if s == "-" {
        return Some(vec![]);
    }
    s.split(',').map(|x| U256::from_str_radix(x, 16).ok()).collect()
}

/// opcodes the `instr` stream is about: the guarded ones and the call family
pub const INSTR_OPS: [u8; 18] =
    [0x55, 0x5d, 0xa0, 0xa1, 0xa2, 0xa3, 0xa4, 0xf0, 0xf5, 0xff, 0xec, 0xf1, 0xf2, 0xf4, 0xfa, 0xf8, 0xf9, 0xfb];

/// the part of the input space the Lean model predicts (mirrored by `Driver.Static.inDomain`): the guard and
/// everything *before* it is modelled for all inputs; what follows a passed guard (memory expansion of the
/// call arguments, call cost, 63/64 rule) only for ample gas and small operands
fn instr_in_domain(op: u8, eof: bool, gas: u64, st: &[U256]) -> bool {
    let small = |w: &U256| *w <= U256::from(4096u64);
    match op {
        0xf1 | 0xf2 => {
            // gas, to, value, in_off, in_len, out_off, out_len
            if st.len() < 3 {
                return true;
            }
            if op == 0xf1 && !st[2].is_zero() {
                return true;
            }
            st.len() >= 7 && gas >= 1_000_000 && st[0] <= U256::from(10_000u64) && st[3..7].iter().all(small)
        }
        0xf4 | 0xfa => {
            st.len() >= 6 && gas >= 1_000_000 && st[0] <= U256::from(10_000u64) && st[2..6].iter().all(small)
        }
        0xf8 => {
            // target, in_off, in_len, value
            if !eof || st.is_empty() {
                return true;
            }
            if st[0] >> 160 != U256::ZERO {
                return true;
            }
            if st.len() < 3 {
                return true;
            }
            // memory expansion of the input range precedes the guard: modelled exactly for small operands
            if !(small(&st[1]) && small(&st[2])) {
                return false;
            }
            if st.len() < 4 {
                return true;
            }
            !st[3].is_zero() || gas >= 1_000_000
        }
        0xf9 | 0xfb => {
            if !eof || st.is_empty() {
                return true;
            }
            if st[0] >> 160 != U256::ZERO {
                return true;
            }
            st.len() >= 3 && small(&st[1]) && small(&st[2]) && gas >= 1_000_000
        }
        _ => true,
    }
}

fn result_name(r: InstructionResult) -> String {
    use InstructionResult::*;
    match r {
        StateChangeDuringStaticCall | CallNotAllowedInsideStatic | NotActivated | OpcodeNotFound
        | EOFOpcodeDisabledInLegacy | StackUnderflow | InvalidEXTCALLTarget | CallOrCreate => format!("{:?}", r),
        r if r.is_error() => "fail".into(),
        r => format!("{:?}", r),
    }
}

pub fn exec_instr(t: &[&str]) -> String {
    if t.len() != 5 {
        return "bad-op".into();
    }
    let (Some(spec), Some(stack)) = (parse_spec(t[0]), parse_words(t[4])) else { return "bad-op".into() };
    let eof = match t[1] {
        "0" => false,
        "1" => true,
        _ => return "bad-op".into(),
    };
    let (Ok(op), Ok(gas)) = (t[2].parse::<u8>(), t[3].parse::<u64>()) else { return "bad-op".into() };
    if !INSTR_OPS.contains(&op) || stack.len() > 20 {
        return "bad-op".into();
    }
    if !instr_in_domain(op, eof, gas, &stack) {
        return "out-of-domain".into();
    }
    guarded(move || {
        let bottom_first: Vec<U256> = stack.iter().rev().cloned().collect();
        let p = probe(op, spec, eof, true, gas, &bottom_first);
        let act = if p.create {
            "create".to_string()
        } else if p.eofcreate {
            "eofcreate".to_string()
        } else if let Some((scheme, st, nz)) = p.call {
            format!("call:{:?}:static={}:value0={}", scheme, b01(st), b01(!nz))
        } else {
            "none".to_string()
        };
        format!("{} mut={} act={}", result_name(p.result), b01(p.mutated), act)
    })
}

fn words_csv(ws: &[U256]) -> String {
    if ws.is_empty() {
        "-".into()
    } else {
        ws.iter().map(|w| hx(*w)).collect::<Vec<_>>().join(",")
    }
}

fn gen_instr(rng: &mut Rng, n: usize, out: &mut Vec<String>) {
    let specs = crate::act::all_specs();
    let gases = [0u64, 1, 2, 3, 5, 6, 99, 100, 2300, 21000, 1_000_000, 30_000_000, u64::MAX];
    // complete: every guarded opcode x every spec x both modes x stack lengths 0..8 x gas {0, ample}
    for s in &specs {
        for eof in [0, 1] {
            for op in INSTR_OPS {
                for len in 0..=8usize {
                    for gas in [0u64, 5_000_000] {
                        let st: Vec<U256> = (0..len).map(|i| U256::from(if i == 0 { 7 } else { 1 })).collect();
                        out.push(format!("static instr {} {} {} {} {}", *s as u8, eof, op, gas, words_csv(&st)));
                    }
                }
            }
        }
    }
    // value zero / non-zero for the value-bearing calls, every spec
    for s in &specs {
        for (op, eof, vpos, len) in [(0xf1u8, 0, 2usize, 7usize), (0xf2, 0, 2, 7), (0xf8, 1, 3, 4), (0xf1, 1, 2, 7)] {
            for v in [U256::ZERO, U256::from(1), U256::from(1) << 255, U256::MAX, U256::from(1) << 64] {
                let mut st = vec![U256::ZERO; len];
                st[0] = U256::from(if op == 0xf8 { 0xb0 } else { 5000 });
                if op != 0xf8 {
                    st[1] = U256::from(0xb0);
                }
                st[vpos] = v;
                for gas in [0u64, 5_000_000] {
                    out.push(format!("static instr {} {} {} {} {}", *s as u8, eof, op, gas, words_csv(&st)));
                }
            }
        }
    }
    // EXTCALL: what precedes the guard (target check, memory expansion of the input range) at gas boundaries
    for (off, len) in [(0u64, 0u64), (0, 1), (0, 32), (0, 33), (31, 2), (100, 1000), (4000, 96), (4096, 4096), (4097, 1)] {
        let words = (off + len + 31) / 32;
        let cost = if len == 0 { 0 } else { 3 * words + words * words / 512 };
        for gas in [0, cost.saturating_sub(1), cost, cost + 1, 5_000_000] {
            for v in [0u64, 1] {
                for tgt in [U256::from(0xb0), U256::from(1) << 160, U256::MAX] {
                    let st = [tgt, U256::from(off), U256::from(len), U256::from(v)];
                    out.push(format!("static instr 19 1 248 {} {}", gas, words_csv(&st)));
                }
            }
        }
    }
    // random
    for _ in 0..n {
        let s = *rng.pick(&specs) as u8;
        let op = *rng.pick(&INSTR_OPS);
        let eof = if op >= 0xf8 && op != 0xfa && op != 0xff || op == 0xec { rng.chance(4, 5) } else { rng.chance(1, 5) } as u8;
        let len = rng.below(10) as usize;
        let ample = rng.chance(1, 2);
        let gas = if ample { 1_000_000 + rng.below(1 << 30) } else { *rng.pick(&gases) };
        let mut st: Vec<U256> = (0..len)
            .map(|_| match rng.below(4) {
                0 => U256::ZERO,
                1 => U256::from(rng.below(4097)),
                2 => U256::from(rng.below(1 << 20)),
                _ => rng.word(),
            })
            .collect();
        // keep a good share inside the modelled domain: small operands for the call family
        if rng.chance(3, 4) && len > 0 {
            for (i, w) in st.iter_mut().enumerate() {
                let is_value = (op == 0xf1 || op == 0xf2) && i == 2 || op == 0xf8 && i == 3;
                let is_target = matches!(op, 0xf8 | 0xf9 | 0xfb) && i == 0 || matches!(op, 0xf1 | 0xf2 | 0xf4 | 0xfa) && i == 1;
                if is_value {
                    *w = if rng.chance(1, 2) { U256::ZERO } else { rng.word() };
                } else if is_target {
                    *w = if rng.chance(4, 5) { U256::from(rng.below(1 << 16)) } else { rng.word() };
                } else {
                    *w = U256::from(rng.below(4097));
                }
            }
        }
        out.push(format!("static instr {} {} {} {} {}", s, eof, op, gas, words_csv(&st)));
    }
    // malformed
    out.push("static instr 19 0 1 100 -".into());
    out.push("static instr 19 2 85 100 -".into());
    out.push("static instr 99 0 85 100 -".into());
    out.push("static instr 19 0 85 100 zz".into());
    out.push("static nothing".into());
}

// ------------------------------------------------------------------------------------------------ tx stream

pub const TX_GAS: u64 = 5_000_000;
fn a_caller() -> Address {
    Address::with_last_byte(0x99)
}
fn a_entry() -> Address {
    Address::with_last_byte(0xE0)
}
fn a_level(i: usize) -> Address {
    Address::with_last_byte(0xA0 + i as u8)
}
/// an existing account without code (beneficiary of value calls / selfdestruct)
fn a_eoa() -> Address {
    Address::with_last_byte(0xB0)
}
/// not in the database
fn a_void() -> Address {
    Address::with_last_byte(0xB1)
}

pub const SCHEMES: [&str; 5] = ["call", "callcode0", "callcodev", "delegate", "static"];
pub const OPS: [&str; 20] = [
    "none", "sstore", "sstoresame", "tstore", "log0", "log1", "log2", "log3", "log4", "create", "create2",
    "selfdestruct", "callvalue", "sload", "balance", "call0", "callpre", "callcodev", "tload", "extcodehash",
];

fn push1(c: &mut Vec<u8>, b: u8) {
    c.extend([0x60, b]);
}

/// call `to` with scheme; leaves the success flag on the stack; output area mem[0x20..0x40)
fn emit_call(c: &mut Vec<u8>, scheme: &str, to: u8) {
    push1(c, 0x20);
    push1(c, 0x20);
    push1(c, 0);
    push1(c, 0);
    match scheme {
        "call" => push1(c, 0),
        "callcode0" => push1(c, 0),
        "callcodev" | "callvalue" => push1(c, 1),
        _ => {}
    }
    push1(c, to);
    c.push(0x5a); // GAS
    c.push(match scheme {
        "call" | "callvalue" => 0xf1,
        "callcode0" | "callcodev" => 0xf2,
        "delegate" => 0xf4,
        _ => 0xfa,
    });
}

/// the attempted operation (stack-neutral unless it halts)
fn emit_attempt(c: &mut Vec<u8>, op: &str) {
    match op {
        "sstore" => {
            push1(c, 0x2a);
            push1(c, 1);
            c.push(0x55);
        }
        "sstoresame" => {
            push1(c, 7);
            push1(c, 2);
            c.push(0x55);
        }
        "tstore" => {
            push1(c, 0x2a);
            push1(c, 1);
            c.push(0x5d);
        }
        "log0" | "log1" | "log2" | "log3" | "log4" => {
            let n = op.as_bytes()[3] - b'0';
            for i in 0..n {
                push1(c, 0x10 + i);
            }
            push1(c, 4);
            push1(c, 0x80);
            c.push(0xa0 + n);
        }
        "create" => {
            push1(c, 0);
            push1(c, 0);
            push1(c, 0);
            c.extend([0xf0, 0x50]);
        }
        "create2" => {
            push1(c, 5);
            push1(c, 0);
            push1(c, 0);
            push1(c, 0);
            c.extend([0xf5, 0x50]);
        }
        "selfdestruct" => {
            push1(c, 0xB0);
            c.push(0xff);
        }
        "callvalue" => {
            emit_call(c, "callvalue", 0xB0);
            c.push(0x50);
        }
        "sload" => {
            push1(c, 2);
            c.extend([0x54, 0x50]);
        }
        "tload" => {
            push1(c, 1);
            c.extend([0x5c, 0x50]);
        }
        "balance" => {
            push1(c, 0xB1);
            c.extend([0x31, 0x50]);
        }
        "extcodehash" => {
            push1(c, 0xB0);
            c.extend([0x3f, 0x50]);
        }
        "call0" => {
            emit_call(c, "call", 0xB1);
            c.push(0x50);
        }
        "callpre" => {
            emit_call(c, "call", 0x04);
            c.push(0x50);
        }
        "callcodev" => {
            emit_call(c, "callcodev", 0xB0);
            c.push(0x50);
        }
        _ => {}
    }
}

/// program of level `i` (1-based; 0 = the entry contract): prefix, optional attempt, optional call of the next
/// level, then `return R` with R = 1 + 2*child_success + 4*R_child (R = 1 for a leaf)
fn level_code(prefix: &[u8], attempt: Option<&str>, next: Option<(&str, u8)>) -> Vec<u8> {
    let mut c = prefix.to_vec();
    if let Some(op) = attempt {
        emit_attempt(&mut c, op);
    }
    match next {
        Some((scheme, to)) => {
            emit_call(&mut c, scheme, to);
            push1(&mut c, 2);
            c.push(0x02); // MUL
            push1(&mut c, 1);
            c.push(0x01); // ADD
            push1(&mut c, 0x20);
            c.push(0x51); // MLOAD
            push1(&mut c, 4);
            c.push(0x02);
            c.push(0x01);
        }
        None => push1(&mut c, 1),
    }
    push1(&mut c, 0);
    c.push(0x52); // MSTORE
    push1(&mut c, 0x20);
    push1(&mut c, 0);
    c.push(0xf3);
    c
}

/// benign, stack-neutral, never-failing instruction templates available under `spec`
fn gen_prefix(rng: &mut Rng, spec: u8) -> Vec<u8> {
    let mut c = vec![];
    for _ in 0..rng.below(6) {
        let k = rng.below(12);
        let addr = *rng.pick(&[0xA1u8, 0xA2, 0xA3, 0xA4, 0xB0, 0xB1, 0xE0, 0x99, 0x04, 0x03, 0x01]);
        match k {
            0 => {
                push1(&mut c, rng.below(4) as u8);
                c.extend([0x54, 0x50]);
            }
            1 => {
                push1(&mut c, addr);
                c.extend([0x31, 0x50]);
            }
            2 => {
                push1(&mut c, addr);
                c.extend([0x3b, 0x50]);
            }
            3 if spec >= 7 => {
                push1(&mut c, addr);
                c.extend([0x3f, 0x50]);
            }
            4 => {
                push1(&mut c, 3);
                push1(&mut c, 0);
                push1(&mut c, 0x80);
                push1(&mut c, addr);
                c.push(0x3c);
            }
            5 => {
                push1(&mut c, rng.below(3) as u8);
                c.extend([0x40, 0x50]);
            }
            6 if spec >= 17 => {
                push1(&mut c, rng.below(3) as u8);
                c.extend([0x5c, 0x50]);
            }
            7 if spec >= 9 => c.extend([0x47, 0x50]),
            8 => {
                push1(&mut c, rng.below(200) as u8);
                push1(&mut c, 0xa0);
                c.push(0x52);
            }
            9 => c.extend([0x30, 0x50, 0x33, 0x50, 0x34, 0x50]),
            10 => {
                push1(&mut c, 4);
                push1(&mut c, 0x80);
                c.extend([0x20, 0x50]);
            }
            _ => c.extend([0x5b]),
        }
    }
    c
}

#[derive(Clone, PartialEq, Eq, Debug)]
struct World {
    accts: BTreeMap<Address, (U256, u64, B256, bool, bool, BTreeMap<U256, U256>)>,
    transient: BTreeMap<(Address, U256), U256>,
    logs: Vec<Log>,
}

/// the world state of the property: per account balance, nonce, code hash, created / selfdestructed flags and
/// present storage values, where "not loaded" means "as in the database"; transient storage (zero = absent);
/// logs. Warm/cold status and touch marks are left out (DESIGN section 8).
fn world<DB: Database>(ctx: &mut EvmContext<DB>, universe: &BTreeSet<Address>, slots: &BTreeSet<U256>) -> World {
    let mut addrs: BTreeSet<Address> = universe.clone();
    addrs.extend(ctx.inner.journaled_state.state.keys().cloned());
    let mut accts = BTreeMap::new();
    for a in addrs {
        let loaded = ctx.inner.journaled_state.state.get(&a).cloned();
        let mut ks: BTreeSet<U256> = slots.clone();
        let entry = match loaded {
            Some(acc) => {
                ks.extend(acc.storage.keys().cloned());
                let mut st = BTreeMap::new();
                for k in ks {
                    let v = match acc.storage.get(&k) {
                        Some(s) => s.present_value,
                        None if acc.is_created() => U256::ZERO,
                        None => ctx.inner.db.storage(a, k).ok().unwrap_or_default(),
                    };
                    if !v.is_zero() {
                        st.insert(k, v);
                    }
                }
                (acc.info.balance, acc.info.nonce, acc.info.code_hash, acc.is_created(), acc.is_selfdestructed(), st)
            }
            None => {
                let info = ctx.inner.db.basic(a).ok().flatten().unwrap_or_default();
                let mut st = BTreeMap::new();
                for k in ks {
                    let v = ctx.inner.db.storage(a, k).ok().unwrap_or_default();
                    if !v.is_zero() {
                        st.insert(k, v);
                    }
                }
                (info.balance, info.nonce, info.code_hash, false, false, st)
            }
        };
        // canonical form: an account that is indistinguishable from "not in the database, never written" is
        // left out (addresses outside the universe enter the state map only by being loaded)
        let blank = entry.0.is_zero() && entry.1 == 0 && entry.2 == KECCAK_EMPTY && !entry.3 && !entry.4 && entry.5.is_empty();
        if !blank {
            accts.insert(a, entry);
        }
    }
    let transient = ctx
        .inner
        .journaled_state
        .transient_storage
        .iter()
        .filter(|(_, v)| !v.is_zero())
        .map(|(k, v)| (*k, *v))
        .collect();
    World { accts, transient, logs: ctx.inner.journaled_state.logs.clone() }
}

#[derive(Default)]
struct Snap {
    universe: BTreeSet<Address>,
    slots: BTreeSet<U256>,
    open: Vec<World>,
    frames: Vec<String>,
}
impl Snap {
    fn close(&mut self, w: World, scheme: &str, is_static: bool, res: InstructionResult) {
        let before = self.open.pop();
        let same = before.as_ref() == Some(&w);
        let st = match (is_static, same) {
            (true, true) => "e",
            (true, false) => "D",
            (false, true) => "u",
            (false, false) => "c",
        };
        self.frames.push(format!("{}:{}:{:?}:{}", scheme, b01(is_static), res, st));
    }
}
impl<DB: Database> Inspector<DB> for Snap {
    fn call(&mut self, ctx: &mut EvmContext<DB>, _i: &mut CallInputs) -> Option<CallOutcome> {
        let w = world(ctx, &self.universe, &self.slots);
        self.open.push(w);
        None
    }
    fn call_end(&mut self, ctx: &mut EvmContext<DB>, i: &CallInputs, o: CallOutcome) -> CallOutcome {
        let w = world(ctx, &self.universe, &self.slots);
        self.close(w, &format!("{:?}", i.scheme), i.is_static, o.result.result);
        o
    }
    fn create(&mut self, ctx: &mut EvmContext<DB>, _i: &mut CreateInputs) -> Option<CreateOutcome> {
        let w = world(ctx, &self.universe, &self.slots);
        self.open.push(w);
        None
    }
    fn create_end(&mut self, ctx: &mut EvmContext<DB>, _i: &CreateInputs, o: CreateOutcome) -> CreateOutcome {
        let w = world(ctx, &self.universe, &self.slots);
        self.close(w, "Create", false, o.result.result);
        o
    }
    fn eofcreate(&mut self, ctx: &mut EvmContext<DB>, _i: &mut EOFCreateInputs) -> Option<CreateOutcome> {
        let w = world(ctx, &self.universe, &self.slots);
        self.open.push(w);
        None
    }
    fn eofcreate_end(&mut self, ctx: &mut EvmContext<DB>, _i: &EOFCreateInputs, o: CreateOutcome) -> CreateOutcome {
        let w = world(ctx, &self.universe, &self.slots);
        self.close(w, "EofCreate", false, o.result.result);
        o
    }
}

fn unhex(s: &str) -> Option<Vec<u8>> {
    if s == "-" {
        return Some(vec![]);
    }
    if s.len() % 2 != 0 {
        return None;
    }
    (0..s.len()).step_by(2).map(|i| u8::from_str_radix(s.get(i..i + 2)?, 16).ok()).collect()
}

/// `static tx <spec> <entry> <schemes csv | -> <lvl> <op> <prefixes: k+1 hex strings joined by '/'>`
pub fn exec_tx(t: &[&str]) -> String {
    if t.len() != 6 {
        return "bad-op".into();
    }
    let Some(spec) = parse_spec(t[0]) else { return "bad-op".into() };
    // before EIP-150 (Tangerine) `GAS CALL` always runs out of gas: the test programs need the 63/64 rule
    if (spec as u8) < SpecId::TANGERINE as u8 {
        return "bad-op".into();
    }
    let entry = t[1];
    if entry != "static" && entry != "call" {
        return "bad-op".into();
    }
    let schemes: Vec<&str> = if t[2] == "-" { vec![] } else { t[2].split(',').collect() };
    if schemes.len() > 3 || schemes.iter().any(|s| !SCHEMES.contains(s)) {
        return "bad-op".into();
    }
    let k = schemes.len() + 1;
    let Ok(lvl) = t[3].parse::<usize>() else { return "bad-op".into() };
    let op = t[4];
    if lvl > k || !OPS.contains(&op) || (lvl == 0) != (op == "none") {
        return "bad-op".into();
    }
    let Some(prefixes) = t[5].split('/').map(unhex).collect::<Option<Vec<Vec<u8>>>>() else { return "bad-op".into() };
    if prefixes.len() != k + 1 {
        return "bad-op".into();
    }
    let op = op.to_string();
    let entry = entry.to_string();
    let schemes: Vec<String> = schemes.iter().map(|s| s.to_string()).collect();
    guarded(move || {
        let mut codes = vec![];
        for i in 0..=k {
            let addr = if i == 0 { a_entry() } else { a_level(i) };
            let next = if i == 0 {
                Some((entry.as_str(), 0xA1u8))
            } else if i < k {
                Some((schemes[i - 1].as_str(), 0xA1 + i as u8))
            } else {
                None
            };
            let attempt = if i == lvl && i > 0 { Some(op.as_str()) } else { None };
            let code = level_code(&prefixes[i], attempt, next);
            codes.push((addr, Bytecode::new_raw(Bytes::from(code))));
        }
        run_world(spec, codes)
    })
}

/// the common part of `tx` and `etx`: database (caller, an EOA with 5 wei, the level contracts with balance 1000,
/// nonce 1, slots 2 -> 7 and 3 -> 9), the snapshotting inspector, one call transaction to the entry contract
fn run_world(spec: SpecId, codes: Vec<(Address, Bytecode)>) -> String {
    let mut db = InMemoryDB::default();
    db.insert_account_info(a_caller(), AccountInfo { balance: U256::from(1u64 << 60), ..Default::default() });
    db.insert_account_info(a_eoa(), AccountInfo { balance: U256::from(5), ..Default::default() });
    let mut universe: BTreeSet<Address> = [a_caller(), a_entry(), a_eoa(), a_void(), Address::with_last_byte(4)].into();
    for (addr, code) in codes {
        db.insert_account_info(
            addr,
            AccountInfo { balance: U256::from(1000), nonce: 1, code_hash: code.hash_slow(), code: Some(code) },
        );
        db.insert_account_storage(addr, U256::from(2), U256::from(7)).unwrap();
        db.insert_account_storage(addr, U256::from(3), U256::from(9)).unwrap();
        universe.insert(addr);
    }
    let snap = Snap { universe, slots: (0u64..4).map(U256::from).collect(), ..Default::default() };
    let mut evm = Evm::builder()
        .with_db(db)
        .with_external_context(snap)
        .with_spec_id(spec)
        .append_handler_register(inspector_handle_register)
        .modify_tx_env(|tx| {
            tx.caller = a_caller();
            tx.transact_to = TxKind::Call(a_entry());
            tx.gas_limit = TX_GAS;
        })
        .build();
    let rs = match evm.transact() {
        Ok(rs) => rs,
        Err(e) => return format!("evm-error {:?}", e).replace(' ', "_"),
    };
    let out = match &rs.result {
        ExecutionResult::Success { output, .. } => {
            let d = output.data();
            if d.len() == 32 { hx(U256::from_be_slice(d)) } else { format!("len{}", d.len()) }
        }
        ExecutionResult::Revert { .. } => "revert".into(),
        ExecutionResult::Halt { reason, .. } => format!("halt:{:?}", reason),
    };
    let s = &evm.context.external;
    format!("out={} open={} fr={}", out, s.open.len(), s.frames.join(","))
}

// ------------------------------------------------------------------------------------------------ etx stream (EOF)

pub const XSCHEMES: [&str; 3] = ["xcall", "xdelegate", "xstatic"];
pub const XOPS: [&str; 16] = [
    "none", "sstore", "sstoresame", "tstore", "log0", "log1", "log2", "log3", "log4", "eofcreate", "xcallvalue",
    "sload", "tload", "balance", "xcall0", "xcallpre",
];

/// init container of the EOFCREATE attempt: `PUSH0 PUSH0 RETURNCONTRACT 0`, deploying the one-STOP container
fn init_container() -> Bytes {
    EofBody {
        types_section: vec![TypesSection { inputs: 0, outputs: 0x80, max_stack_size: 2 }],
        code_section: vec![Bytes::from(vec![0x5f, 0x5f, 0xee, 0x00, 0x00, 0x00])],
        container_section: vec![tiny_eof()],
        data_section: Bytes::new(),
        is_data_filled: true,
    }
    .into_eof()
    .raw
}

/// an (unvalidated, never validated at call time) EOF account code with one code section
fn eof_account(mut code: Vec<u8>) -> Bytecode {
    code.extend([0u8; 8]);
    let body = EofBody {
        types_section: vec![TypesSection { inputs: 0, outputs: 0x80, max_stack_size: 16 }],
        code_section: vec![Bytes::from(code)],
        container_section: vec![init_container()],
        data_section: Bytes::new(),
        is_data_filled: true,
    };
    Bytecode::Eof(Arc::new(body.into_eof()))
}

/// EXT*CALL of `to`; leaves the status (0 ok, 1 revert, 2 failure) on the stack
fn emit_xcall(c: &mut Vec<u8>, scheme: &str, to: u8) {
    match scheme {
        "xcall" => push1(c, 0),
        "xcallvalue" => push1(c, 1),
        _ => {}
    }
    push1(c, 0);
    push1(c, 0);
    push1(c, to);
    c.push(match scheme {
        "xcall" | "xcallvalue" => 0xf8,
        "xdelegate" => 0xf9,
        _ => 0xfb,
    });
}

fn emit_xattempt(c: &mut Vec<u8>, op: &str) {
    match op {
        "eofcreate" => {
            push1(c, 0);
            push1(c, 0);
            push1(c, 5);
            push1(c, 0);
            c.extend([0xec, 0x00, 0x50]);
        }
        "xcallvalue" => {
            emit_xcall(c, "xcallvalue", 0xB0);
            c.push(0x50);
        }
        "xcall0" => {
            emit_xcall(c, "xcall", 0xB1);
            c.push(0x50);
        }
        "xcallpre" => {
            emit_xcall(c, "xcall", 0x04);
            c.push(0x50);
        }
        // SSTORE / TSTORE / LOG / SLOAD / TLOAD / BALANCE: same bytes as in legacy code
        _ => emit_attempt(c, op),
    }
}

fn xlevel_code(prefix: &[u8], attempt: Option<&str>, next: Option<(&str, u8)>) -> Vec<u8> {
    let mut c = prefix.to_vec();
    if let Some(op) = attempt {
        emit_xattempt(&mut c, op);
    }
    match next {
        Some((scheme, to)) => {
            emit_xcall(&mut c, scheme, to);
            c.push(0x15); // ISZERO: 1 iff the call succeeded
            push1(&mut c, 2);
            c.push(0x02);
            push1(&mut c, 1);
            c.push(0x01);
            push1(&mut c, 0);
            c.push(0xf7); // RETURNDATALOAD (zero padded)
            push1(&mut c, 4);
            c.push(0x02);
            c.push(0x01);
        }
        None => push1(&mut c, 1),
    }
    push1(&mut c, 0);
    c.push(0x52);
    push1(&mut c, 0x20);
    push1(&mut c, 0);
    c.push(0xf3);
    c
}

/// benign prefix made of opcodes that are valid in EOF code
fn gen_xprefix(rng: &mut Rng) -> Vec<u8> {
    let mut c = vec![];
    for _ in 0..rng.below(6) {
        let addr = *rng.pick(&[0xA1u8, 0xA2, 0xA3, 0xA4, 0xB0, 0xB1, 0xE0, 0x99, 0x04, 0x03]);
        match rng.below(8) {
            0 => {
                push1(&mut c, rng.below(4) as u8);
                c.extend([0x54, 0x50]);
            }
            1 => {
                push1(&mut c, addr);
                c.extend([0x31, 0x50]);
            }
            2 => {
                push1(&mut c, rng.below(3) as u8);
                c.extend([0x40, 0x50]);
            }
            3 => {
                push1(&mut c, rng.below(3) as u8);
                c.extend([0x5c, 0x50]);
            }
            4 => c.extend([0x47, 0x50]),
            5 => {
                push1(&mut c, rng.below(200) as u8);
                push1(&mut c, 0xa0);
                c.push(0x52);
            }
            6 => c.extend([0x30, 0x50, 0x33, 0x50, 0x34, 0x50]),
            _ => {
                push1(&mut c, 4);
                push1(&mut c, 0x80);
                c.extend([0x20, 0x50]);
            }
        }
    }
    c
}

/// `static etx <spec 19|255> <entry xstatic|xcall> <schemes csv | -> <lvl> <op> <prefixes>`: the EOF counterpart of
/// `tx` (EXTCALL / EXTDELEGATECALL / EXTSTATICCALL between EOF containers, EOFCREATE and EXTCALL with value as
/// attempts)
pub fn exec_etx(t: &[&str]) -> String {
    if t.len() != 6 {
        return "bad-op".into();
    }
    let Some(spec) = parse_spec(t[0]) else { return "bad-op".into() };
    if (spec as u8) < SpecId::OSAKA as u8 {
        return "bad-op".into();
    }
    let entry = t[1];
    if entry != "xstatic" && entry != "xcall" {
        return "bad-op".into();
    }
    let schemes: Vec<&str> = if t[2] == "-" { vec![] } else { t[2].split(',').collect() };
    if schemes.len() > 3 || schemes.iter().any(|s| !XSCHEMES.contains(s)) {
        return "bad-op".into();
    }
    let k = schemes.len() + 1;
    let Ok(lvl) = t[3].parse::<usize>() else { return "bad-op".into() };
    let op = t[4];
    if lvl > k || !XOPS.contains(&op) || (lvl == 0) != (op == "none") {
        return "bad-op".into();
    }
    let Some(prefixes) = t[5].split('/').map(unhex).collect::<Option<Vec<Vec<u8>>>>() else { return "bad-op".into() };
    if prefixes.len() != k + 1 {
        return "bad-op".into();
    }
    let op = op.to_string();
    let entry = entry.to_string();
    let schemes: Vec<String> = schemes.iter().map(|s| s.to_string()).collect();
    guarded(move || {
        let mut codes = vec![];
        for i in 0..=k {
            let addr = if i == 0 { a_entry() } else { a_level(i) };
            let next = if i == 0 {
                Some((entry.as_str(), 0xA1u8))
            } else if i < k {
                Some((schemes[i - 1].as_str(), 0xA1 + i as u8))
            } else {
                None
            };
            let attempt = if i == lvl && i > 0 { Some(op.as_str()) } else { None };
            codes.push((addr, eof_account(xlevel_code(&prefixes[i], attempt, next))));
        }
        run_world(spec, codes)
    })
}

fn gen_etx(rng: &mut Rng, n: usize, out: &mut Vec<String>) {
    let line = |rng: &mut Rng, spec: u8, entry: &str, schemes: &[&str], lvl: usize, op: &str| {
        let k = schemes.len() + 1;
        let pre: Vec<String> = (0..=k).map(|_| hexs(&gen_xprefix(rng))).collect();
        format!(
            "static etx {} {} {} {} {} {}",
            spec,
            entry,
            if schemes.is_empty() { "-".to_string() } else { schemes.join(",") },
            lvl,
            op,
            pre.join("/")
        )
    };
    let mut i = 0u8;
    for op in XOPS.iter().skip(1) {
        for entry in ["xstatic", "xcall"] {
            i = i.wrapping_add(1);
            out.push(line(rng, if i % 2 == 0 { 19 } else { 255 }, entry, &[], 1, op));
            for sch in XSCHEMES {
                i = i.wrapping_add(1);
                out.push(line(rng, if i % 2 == 0 { 19 } else { 255 }, entry, &[sch], 2, op));
            }
        }
    }
    for _ in 0..n {
        let spec = if rng.chance(3, 4) { 19 } else { 255 };
        let entry = if rng.chance(3, 4) { "xstatic" } else { "xcall" };
        let k = rng.range(1, 4) as usize;
        let schemes: Vec<&str> = (1..k).map(|_| *rng.pick(&XSCHEMES)).collect();
        let (lvl, op) = if rng.chance(1, 12) { (0, "none") } else { (rng.range(1, k as u64) as usize, *rng.pick(&XOPS[1..])) };
        out.push(line(rng, spec, entry, &schemes, lvl, op));
    }
    out.push("static etx 18 xstatic - 1 sstore -/-".into());
    out.push("static etx 19 static - 1 sstore -/-".into());
}

fn hexs(b: &[u8]) -> String {
    hxb(b)
}

fn gen_tx(rng: &mut Rng, n: usize, out: &mut Vec<String>) {
    let specs: Vec<u8> = crate::act::all_specs().iter().map(|s| *s as u8).filter(|s| *s >= 4).collect();
    let modern: Vec<u8> = specs.iter().cloned().filter(|s| *s >= 6).collect();
    let line = |rng: &mut Rng, spec: u8, entry: &str, schemes: &[&str], lvl: usize, op: &str| {
        let k = schemes.len() + 1;
        let pre: Vec<String> = (0..=k).map(|_| hexs(&gen_prefix(rng, spec))).collect();
        format!(
            "static tx {} {} {} {} {} {}",
            spec,
            entry,
            if schemes.is_empty() { "-".to_string() } else { schemes.join(",") },
            lvl,
            op,
            pre.join("/")
        )
    };
    // complete: every attempted op x entry kind x depth-1 and one inherited level of every scheme, rotating specs
    let mut i = 0usize;
    for op in OPS.iter().skip(1) {
        for entry in ["static", "call"] {
            let s = modern[i % modern.len()];
            i += 1;
            out.push(line(rng, s, entry, &[], 1, op));
            for sch in SCHEMES {
                let s = modern[i % modern.len()];
                i += 1;
                out.push(line(rng, s, entry, &[sch], 2, op));
            }
        }
    }
    // random paths
    for _ in 0..n {
        let spec = if rng.chance(9, 10) { *rng.pick(&modern) } else { *rng.pick(&specs) };
        let entry = if rng.chance(3, 4) { "static" } else { "call" };
        let k = rng.range(1, 4) as usize;
        let schemes: Vec<&str> = (1..k).map(|_| *rng.pick(&SCHEMES)).collect();
        let (lvl, op) = if rng.chance(1, 12) { (0, "none") } else { (rng.range(1, k as u64) as usize, *rng.pick(&OPS[1..])) };
        out.push(line(rng, spec, entry, &schemes, lvl, op));
    }
    out.push("static tx 17 static - 2 sstore -/-".into());
    out.push("static tx 17 jump - 1 sstore -/-".into());
}

// ------------------------------------------------------------------------------------------------ driver

pub fn exec_line(line: &str) -> String {
    let t: Vec<&str> = line.split(' ').collect();
    if t.len() < 2 || t[0] != "static" {
        return "bad-op".into();
    }
    match t[1] {
        "instr" => exec_instr(&t[2..]),
        "tx" => exec_tx(&t[2..]),
        "etx" => exec_etx(&t[2..]),
        _ => "bad-op".into(),
    }
}

pub fn gen(seed: u64, n: usize) -> Vec<String> {
    let mut rng = Rng::new(seed ^ 0xC10);
    let mut v = vec![];
    gen_instr(&mut rng, n * 4, &mut v);
    gen_tx(&mut rng, n, &mut v);
    gen_etx(&mut rng, n / 3, &mut v);
    v
}

pub fn run(seed: u64, n: usize, replay: Option<Vec<String>>, out: &mut Out) {
    let lines = replay.unwrap_or_else(|| gen(seed, n));
    for l in lines {
        let r = exec_line(&l);
        let t: Vec<&str> = l.split(' ').collect();
        if t.len() > 4 && t[1] == "instr" {
            out.count(&format!("instr:op{}", t[4]));
            out.count(&format!("instr:reply:{}", r.split(' ').next().unwrap_or("?")));
        } else if t.len() > 6 && (t[1] == "tx" || t[1] == "etx") {
            let tx = t[1];
            out.count(&format!("{tx}:entry:{}", t[3]));
            out.count(&format!("{tx}:op:{}", t[6]));
            out.count(&format!("{tx}:depth:{}", if t[4] == "-" { 1 } else { t[4].split(',').count() + 1 }));
            out.count(&format!("{tx}:static-frames:{}", r.matches(":1:").count()));
            if r.contains(":D") {
                out.count("tx:STATIC-FRAME-CHANGED-WORLD");
            }
        }
        out.push(l, r);
    }
}
