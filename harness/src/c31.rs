//! C31: a history of entry-point calls on ONE real `Evm` (over `CacheDB<FlakyDb>`) versus a freshly
//! built `Evm` for every call over the database left by the previous fresh one.
//!
//! request lines
//!   `begin lc <variant> <probe 0|1> <spec_u8> acct=<addr>:<bal>:<nonce>:<code|->:<slot=val,..|-> ... fb=<addr,..|-> fs=<addr.slot,..|->`
//!        variant = plain | noop | rec   (noop / rec: `inspector_handle_register` with a silent / recording inspector)
//!        probe   = 1: a handler register wraps `post_execution.end` and records the journal between
//!                  `finalize` and `clear` (only when the output is `Ok`)
//!        fb / fs = addresses whose `basic` / (address, slot) pairs whose `storage` fail in the backing database
//!   `lc spec <spec_u8> modify|rebuild`       `Evm::modify_spec_id` | `evm.modify().with_spec_id(..).build()`
//!   `lc call <entry> <label> cb=<addr> from=<addr> to=<addr|create> val=<hex> gl=<dec> gp=<hex> tip=<hex|-> nonce=<dec|-> data=<hex|-> al=<addr:slot+slot;..|-> auth=<authority>delegate>nonce,..|->`
//!        entry = transact | commit | preverified | preverify
//!        label = `<stage>:<kind>`: where the call ended, as observed when the line was generated
//! reply of a call
//!   `<stage>:<kind> st=.. tr=.. lg=.. d=.. j=<levels>/<entries> warm=.. err=ok|set jspec=<u8> pre=<csv|-> mid=<..|-> same=1|0:<what> insp=ok|bad|-`
//!        the summary is read from `evm.context.evm` directly after the call on the reused instance
use crate::*;
use revm::db::{CacheDB, DatabaseRef};
use revm::interpreter::{CallInputs, CallOutcome, CreateInputs, CreateOutcome};
use revm::primitives::{
    AccessListItem, AccountInfo, Address, Authorization, Bytecode, Bytes, EVMError, Env, EvmState, ExecutionResult,
    InvalidTransaction, RecoveredAuthority, RecoveredAuthorization, ResultAndState, SpecId, TxKind, B256, KECCAK_EMPTY,
    U256,
};
use revm::{inspector_handle_register, Evm, EvmContext, Inspector, JournaledState};
use std::collections::{BTreeMap, BTreeSet};

// ------------------------------------------------------------------ database
#[derive(Clone, Debug, PartialEq, Eq)]
pub struct DbErr(pub String);
impl std::fmt::Display for DbErr {
    fn fmt(&self, f: &mut std::fmt::Formatter<'_>) -> std::fmt::Result {
        write!(f, "{}", self.0)
    }
}

#[derive(Clone, Default, Debug)]
pub struct FlakyDb {
    pub accts: BTreeMap<Address, AccountInfo>,
    pub slots: BTreeMap<(Address, U256), U256>,
    pub codes: BTreeMap<B256, Bytecode>,
    pub fail_basic: BTreeSet<Address>,
    pub fail_storage: BTreeSet<(Address, U256)>,
}
impl DatabaseRef for FlakyDb {
    type Error = DbErr;
    fn basic_ref(&self, a: Address) -> Result<Option<AccountInfo>, DbErr> {
        if self.fail_basic.contains(&a) {
            return Err(DbErr(format!("basic:{}", sa(a))));
        }
        Ok(self.accts.get(&a).cloned())
    }
    fn code_by_hash_ref(&self, h: B256) -> Result<Bytecode, DbErr> {
        Ok(self.codes.get(&h).cloned().unwrap_or_default())
    }
    fn storage_ref(&self, a: Address, k: U256) -> Result<U256, DbErr> {
        if self.fail_storage.contains(&(a, k)) {
            return Err(DbErr(format!("storage:{}:{:x}", sa(a), k)));
        }
        Ok(self.slots.get(&(a, k)).copied().unwrap_or_default())
    }
    fn block_hash_ref(&self, n: u64) -> Result<B256, DbErr> {
        Ok(B256::from(U256::from(n).wrapping_mul(U256::from(0x9E3779B97F4A7C15u64))))
    }
}
type Db = CacheDB<FlakyDb>;

/// short address: hex of the low 8 bytes when the upper 12 are zero, full hex otherwise
pub fn sa(a: Address) -> String {
    if a.0[..12].iter().all(|b| *b == 0) {
        format!("{:x}", u64::from_be_bytes(a.0[12..].try_into().unwrap()))
    } else {
        format!("{:x}", U256::from_be_slice(a.as_slice()))
    }
}
pub fn pa(s: &str) -> Option<Address> {
    let v = U256::from_str_radix(s, 16).ok()?;
    if v >> 160 != U256::ZERO {
        return None;
    }
    Some(Address::from_slice(&v.to_be_bytes::<32>()[12..]))
}
fn phex(s: &str) -> Option<Vec<u8>> {
    if s == "-" {
        return Some(vec![]);
    }
    if s.len() % 2 != 0 {
        return None;
    }
    (0..s.len()).step_by(2).map(|i| u8::from_str_radix(s.get(i..i + 2)?, 16).ok()).collect()
}

// ------------------------------------------------------------------ external context: inspector + end probe
#[derive(Default)]
pub struct Ext {
    rec: bool,
    open: Vec<(u8, u64)>,
    bad: bool,
    events: u32,
    mid: Option<String>,
}
fn fnv(s: &str) -> u64 {
    let mut h = 0xcbf29ce484222325u64;
    for b in s.bytes() {
        h = (h ^ b as u64).wrapping_mul(0x100000001b3);
    }
    h
}
impl<DB: revm::Database> Inspector<DB> for Ext {
    fn call(&mut self, _c: &mut EvmContext<DB>, i: &mut CallInputs) -> Option<CallOutcome> {
        if self.rec {
            self.open.push((0, fnv(&format!("{:?}", i))));
            self.events += 1;
        }
        None
    }
    fn call_end(&mut self, _c: &mut EvmContext<DB>, i: &CallInputs, o: CallOutcome) -> CallOutcome {
        if self.rec {
            // the inputs handed to `call_end` must be those of the innermost open `call` of THIS transaction
            if self.open.pop() != Some((0, fnv(&format!("{:?}", i)))) {
                self.bad = true;
            }
        }
        o
    }
    fn create(&mut self, _c: &mut EvmContext<DB>, i: &mut CreateInputs) -> Option<CreateOutcome> {
        if self.rec {
            self.open.push((1, fnv(&format!("{:?}", i))));
            self.events += 1;
        }
        None
    }
    fn create_end(&mut self, _c: &mut EvmContext<DB>, i: &CreateInputs, o: CreateOutcome) -> CreateOutcome {
        if self.rec {
            if self.open.pop() != Some((1, fnv(&format!("{:?}", i)))) {
                self.bad = true;
            }
        }
        o
    }
}

fn jsum(j: &JournaledState, list_warm: bool) -> String {
    let entries: usize = j.journal.iter().map(|l| l.len()).sum();
    let warm = if list_warm {
        let mut w: Vec<Address> = j.warm_preloaded_addresses.iter().copied().collect();
        w.sort();
        let w: Vec<String> = w.into_iter().map(sa).collect();
        if w.is_empty() { "-".to_string() } else { w.join(",") }
    } else {
        j.warm_preloaded_addresses.len().to_string()
    };
    let tr = j.transient_storage.len();
    let sep = if list_warm { "," } else { " " };
    format!(
        "st={}{sep}tr={}{sep}lg={}{sep}d={}{sep}j={}/{}{sep}warm={}",
        j.state.len(),
        tr,
        j.logs.len(),
        j.depth,
        j.journal.len(),
        entries,
        warm
    )
}

type E = Evm<'static, Ext, Db>;

fn build(db: Db, env: Box<Env>, spec: SpecId, variant: &str, probe: bool) -> E {
    let ext = Ext { rec: variant == "rec", ..Default::default() };
    let b = Evm::builder().with_db(db).with_external_context(ext).with_env(env).with_spec_id(spec);
    let evm = if variant == "plain" {
        if probe {
            b.append_handler_register(probe_register).build()
        } else {
            b.build()
        }
    } else {
        let b = b.append_handler_register(inspector_handle_register);
        if probe {
            b.append_handler_register(probe_register).build()
        } else {
            b.build()
        }
    };
    evm
}

fn probe_register<'a>(h: &mut revm::handler::register::EvmHandler<'a, Ext, Db>) {
    let prev = std::mem::replace(&mut h.post_execution.end, Box::new(|_, o| o));
    h.post_execution.end = Box::new(move |ctx, out| {
        ctx.external.mid = if out.is_ok() { Some(jsum(&ctx.evm.journaled_state, true)) } else { None };
        prev(ctx, out)
    });
}

// ------------------------------------------------------------------ canonical printing
fn state_str(s: &EvmState) -> String {
    let mut v: Vec<(&Address, &revm::primitives::Account)> = s.iter().collect();
    v.sort_by_key(|(a, _)| **a);
    let mut out = String::new();
    for (a, acc) in v {
        let mut st: Vec<_> = acc.storage.iter().collect();
        st.sort_by_key(|(k, _)| **k);
        let st: Vec<String> =
            st.iter().map(|(k, s)| format!("{:x}={:x}>{:x}{}", k, s.original_value, s.present_value, if s.is_cold { "c" } else { "" })).collect();
        out += &format!(
            "[{} b={:x} n={} h={:x} f={:?} {}]",
            sa(*a),
            acc.info.balance,
            acc.info.nonce,
            acc.info.code_hash,
            acc.status,
            st.join(",")
        );
    }
    out
}
fn db_str(db: &Db) -> String {
    let mut v: Vec<_> = db.accounts.iter().collect();
    v.sort_by_key(|(a, _)| **a);
    let mut out = String::new();
    for (a, acc) in v {
        let mut st: Vec<_> = acc.storage.iter().collect();
        st.sort_by_key(|(k, _)| **k);
        let st: Vec<String> = st.iter().map(|(k, s)| format!("{:x}={:x}", k, s)).collect();
        out += &format!(
            "[{} b={:x} n={} h={:x} s={:?} {}]",
            sa(*a),
            acc.info.balance,
            acc.info.nonce,
            acc.info.code_hash,
            acc.account_state,
            st.join(",")
        );
    }
    let mut c: Vec<String> = db.contracts.keys().map(|k| format!("{:x}", k)).collect();
    c.sort();
    out += &format!(" contracts={} logs={}", c.join(","), db.logs.len());
    out
}

/// where a call ended, from its result alone
fn classify_err(e: &EVMError<DbErr>, entry: &str) -> String {
    match e {
        EVMError::Transaction(t) => {
            use InvalidTransaction::*;
            let stage = match t {
                NonceTooHigh { .. } | NonceTooLow { .. } | LackOfFundForMaxFee { .. } | RejectCallerWithCode
                | OverflowPaymentInTransaction | NonceOverflowInTransaction => "state",
                CallGasCostMoreThanGasLimit | GasFloorMoreThanGasLimit => "gas",
                _ => "env",
            };
            format!("{stage}:tx")
        }
        EVMError::Header(_) => "env:hdr".into(),
        EVMError::Database(DbErr(m)) => {
            // every failing address plays exactly one role in a generated transaction
            let a = m.split(':').nth(1).unwrap_or("");
            let stage = match a {
                "f1" => if entry == "preverified" { "deduct" } else { "state" },
                "f2" => "acl",
                "f3" => "auth",
                "f4" => "frame0",
                "f5" => "exec",
                "f6" => "action",
                "f7" => "reward",
                _ if m.starts_with("storage") => {
                    // slot 0x78 only ever occurs in access lists, slot 0x77 only in SLOADs
                    if m.ends_with(":78") { "acl" } else { "exec" }
                }
                _ => "db",
            };
            format!("{stage}:db")
        }
        EVMError::Custom(_) => "custom:err".into(),
        EVMError::Precompile(_) => "precompile:err".into(),
    }
}

enum Res {
    Tx(Result<ResultAndState, EVMError<DbErr>>),
    Commit(Result<ExecutionResult, EVMError<DbErr>>),
    Pre(Result<(), EVMError<DbErr>>),
}
impl Res {
    fn label(&self, entry: &str) -> String {
        fn k(r: &ExecutionResult) -> &'static str {
            match r {
                ExecutionResult::Success { .. } => "ok:success",
                ExecutionResult::Revert { .. } => "ok:revert",
                ExecutionResult::Halt { .. } => "ok:halt",
            }
        }
        match self {
            Res::Tx(Ok(r)) => k(&r.result).into(),
            Res::Commit(Ok(r)) => k(r).into(),
            Res::Pre(Ok(())) => "ok:unit".into(),
            Res::Tx(Err(e)) | Res::Commit(Err(e)) | Res::Pre(Err(e)) => classify_err(e, entry),
        }
    }
    /// the parts the property compares: status, gas_used, gas_refunded, logs, output (all in `Debug` of
    /// `ExecutionResult`), and the returned state
    fn parts(&self) -> (String, String) {
        match self {
            Res::Tx(Ok(r)) => (format!("{:?}", r.result), state_str(&r.state)),
            Res::Tx(Err(e)) => (format!("{:?}", e), String::new()),
            Res::Commit(r) => (format!("{:?}", r), String::new()),
            Res::Pre(r) => (format!("{:?}", r), String::new()),
        }
    }
}

fn run_entry(evm: &mut E, entry: &str) -> Option<Res> {
    evm.context.external.open.clear();
    evm.context.external.bad = false;
    evm.context.external.events = 0;
    evm.context.external.mid = None;
    Some(match entry {
        "transact" => Res::Tx(evm.transact()),
        "commit" => Res::Commit(evm.transact_commit()),
        "preverified" => Res::Tx(evm.transact_preverified()),
        "preverify" => Res::Pre(evm.preverify_transaction()),
        _ => return None,
    })
}

// ------------------------------------------------------------------ session
pub struct Session {
    variant: String,
    probe: bool,
    spec: SpecId,
    evm: Option<E>,
    fresh_db: Option<Db>,
}

fn ctx_summary(evm: &E) -> String {
    let c = &evm.context.evm;
    let mut p: Vec<Address> = c.precompiles.addresses().copied().collect();
    p.sort();
    let p: Vec<String> = p.into_iter().map(sa).collect();
    format!(
        "{} err={} jspec={} pre={}",
        jsum(&c.journaled_state, false),
        if c.error.is_ok() { "ok" } else { "set" },
        c.journaled_state.spec as u8,
        if p.is_empty() { "-".to_string() } else { p.join(",") }
    )
}

fn base_env() -> Box<Env> {
    let mut env = Env::default();
    env.cfg.chain_id = 1;
    env.block.number = U256::from(100);
    env.block.timestamp = U256::from(1000);
    env.block.gas_limit = U256::from(30_000_000u64);
    env.block.basefee = U256::from(10);
    env.block.difficulty = U256::from(7);
    env.block.prevrandao = Some(B256::from(U256::from(0x1234)));
    env.block.set_blob_excess_gas_and_price(0, false);
    Box::new(env)
}

fn parse_begin(t: &[&str]) -> Option<Session> {
    // t = [variant, probe, spec, acct=.., ..., fb=.., fs=..]
    if t.len() < 3 {
        return None;
    }
    let variant = t[0].to_string();
    if !["plain", "noop", "rec"].contains(&t[0]) {
        return None;
    }
    let probe = match t[1] { "0" => false, "1" => true, _ => return None };
    let spec = SpecId::try_from_u8(t[2].parse::<u8>().ok()?)?;
    let mut db = FlakyDb::default();
    for tok in &t[3..] {
        if let Some(r) = tok.strip_prefix("acct=") {
            let f: Vec<&str> = r.split(':').collect();
            if f.len() != 5 {
                return None;
            }
            let a = pa(f[0])?;
            let bal = U256::from_str_radix(f[1], 16).ok()?;
            let nonce = f[2].parse::<u64>().ok()?;
            let code = phex(f[3])?;
            let (code_hash, bc) = if code.is_empty() {
                (KECCAK_EMPTY, None)
            } else {
                let bc = Bytecode::new_raw_checked(Bytes::from(code.clone())).ok()?;
                (revm::primitives::keccak256(&code), Some(bc))
            };
            if let Some(bc) = &bc {
                db.codes.insert(code_hash, bc.clone());
            }
            db.accts.insert(a, AccountInfo { balance: bal, nonce, code_hash, code: None });
            if f[4] != "-" {
                for kv in f[4].split(',') {
                    let (k, v) = kv.split_once('=')?;
                    db.slots.insert((a, U256::from_str_radix(k, 16).ok()?), U256::from_str_radix(v, 16).ok()?);
                }
            }
        } else if let Some(r) = tok.strip_prefix("fb=") {
            if r != "-" {
                for a in r.split(',') {
                    db.fail_basic.insert(pa(a)?);
                }
            }
        } else if let Some(r) = tok.strip_prefix("fs=") {
            if r != "-" {
                for p in r.split(',') {
                    let (a, k) = p.split_once('.')?;
                    db.fail_storage.insert((pa(a)?, U256::from_str_radix(k, 16).ok()?));
                }
            }
        } else {
            return None;
        }
    }
    let cdb = CacheDB::new(db);
    let evm = build(cdb.clone(), base_env(), spec, &variant, probe);
    Some(Session { variant, probe, spec, evm: Some(evm), fresh_db: Some(cdb) })
}

fn parse_tx(env: &mut Env, t: &[&str]) -> Option<()> {
    let get = |k: &str| -> Option<&str> { t.iter().find_map(|x| x.strip_prefix(k)) };
    env.block.coinbase = pa(get("cb=")?)?;
    let tx = &mut env.tx;
    tx.caller = pa(get("from=")?)?;
    tx.transact_to = match get("to=")? {
        "create" => TxKind::Create,
        a => TxKind::Call(pa(a)?),
    };
    tx.value = U256::from_str_radix(get("val=")?, 16).ok()?;
    tx.gas_limit = get("gl=")?.parse().ok()?;
    tx.gas_price = U256::from_str_radix(get("gp=")?, 16).ok()?;
    tx.gas_priority_fee = match get("tip=")? {
        "-" => None,
        x => Some(U256::from_str_radix(x, 16).ok()?),
    };
    tx.nonce = match get("nonce=")? {
        "-" => None,
        x => Some(x.parse().ok()?),
    };
    tx.data = Bytes::from(phex(get("data=")?)?);
    tx.chain_id = None;
    tx.blob_hashes = vec![];
    tx.max_fee_per_blob_gas = None;
    tx.access_list = vec![];
    let al = get("al=")?;
    if al != "-" {
        for item in al.split(';') {
            let (a, ks) = item.split_once(':')?;
            let mut keys = vec![];
            if !ks.is_empty() {
                for k in ks.split('+') {
                    keys.push(B256::from(U256::from_str_radix(k, 16).ok()?));
                }
            }
            tx.access_list.push(AccessListItem { address: pa(a)?, storage_keys: keys });
        }
    }
    let auth = get("auth=")?;
    tx.authorization_list = if auth == "-" {
        None
    } else {
        let mut v = vec![];
        for item in auth.split(',') {
            let f: Vec<&str> = item.split('>').collect();
            if f.len() != 3 {
                return None;
            }
            v.push(RecoveredAuthorization::new_unchecked(
                Authorization { chain_id: U256::from(1), address: pa(f[1])?, nonce: f[2].parse().ok()? },
                RecoveredAuthority::Valid(pa(f[0])?),
            ));
        }
        Some(v.into())
    };
    Some(())
}

impl Session {
    pub fn exec(&mut self, t: &[&str]) -> String {
        match t {
            ["spec", s, how] => {
                let Some(spec) = s.parse::<u8>().ok().and_then(SpecId::try_from_u8) else { return "bad-op".into() };
                let Some(mut evm) = self.evm.take() else { return "bad-op".into() };
                match *how {
                    "modify" => evm.modify_spec_id(spec),
                    "rebuild" => evm = evm.modify().with_spec_id(spec).build(),
                    _ => {
                        self.evm = Some(evm);
                        return "bad-op".into();
                    }
                }
                self.spec = spec;
                let r = format!("ok {}", ctx_summary(&evm));
                self.evm = Some(evm);
                r
            }
            ["call", entry, _label, rest @ ..] => {
                let Some(mut evm) = self.evm.take() else { return "bad-op".into() };
                let mut env = evm.context.evm.env.clone();
                if parse_tx(&mut env, rest).is_none() {
                    self.evm = Some(evm);
                    return "bad-op".into();
                }
                // the reused instance
                *evm.context.evm.env = (*env).clone();
                let Some(r1) = run_entry(&mut evm, entry) else {
                    self.evm = Some(evm);
                    return "bad-op".into();
                };
                let label = r1.label(entry);
                let summary = ctx_summary(&evm);
                let mid = evm.context.external.mid.clone().unwrap_or_else(|| "-".into());
                let insp = if self.variant == "rec" { if evm.context.external.bad { "bad" } else { "ok" } } else { "-" };
                let ev1 = evm.context.external.events;
                // a freshly built instance over the database left by the previous fresh one
                let fdb = self.fresh_db.take().unwrap();
                let mut fresh = build(fdb, env, self.spec, &self.variant, self.probe);
                let r2 = run_entry(&mut fresh, entry).unwrap();
                let mid2 = fresh.context.external.mid.clone().unwrap_or_else(|| "-".into());
                let ev2 = fresh.context.external.events;
                let bad2 = fresh.context.external.bad;
                let (fdb, _) = fresh.into_db_and_env_with_handler_cfg();
                let (p1, p2) = (r1.parts(), r2.parts());
                let same = if p1.0 != p2.0 {
                    "0:result".to_string()
                } else if p1.1 != p2.1 {
                    "0:state".to_string()
                } else if db_str(&evm.context.evm.db) != db_str(&fdb) {
                    "0:db".to_string()
                } else if mid != mid2 {
                    "0:mid".to_string()
                } else if ev1 != ev2 || (self.variant == "rec" && bad2 != evm.context.external.bad) {
                    "0:inspector".to_string()
                } else {
                    "1".to_string()
                };
                // test hook for the teeth of this comparison (never set by ./check): plant a leak
                if let Ok(kind) = std::env::var("VERIF_C31_INJECT") {
                    inject_leak(&mut evm, &kind);
                }
                self.fresh_db = Some(fdb);
                self.evm = Some(evm);
                format!("{label} {summary} mid={mid} same={same} insp={insp}")
            }
            _ => "bad-op".into(),
        }
    }
}

fn inject_leak(evm: &mut E, kind: &str) {
    let a = |x: u64| Address::from_slice(&U256::from(x).to_be_bytes::<32>()[12..]);
    let j = &mut evm.context.evm.inner.journaled_state;
    match kind {
        "transient" => {
            for k in [0xd1u64, 0xd2, 0xd3, 0xd4] {
                j.transient_storage.insert((a(k), U256::ZERO), U256::from(5));
                j.transient_storage.insert((a(k), U256::from(1)), U256::from(5));
            }
        }
        "warm" => {
            for k in [0xd1u64, 0xd2, 0xd3, 0xd4, 0xe1] {
                j.warm_preloaded_addresses.insert(a(k));
            }
        }
        "logs" => j.logs.push(revm::primitives::Log::default()),
        "error" => evm.context.evm.inner.error = Err(EVMError::Custom("leak".into())),
        "depth" => j.depth = 3,
        _ => {}
    }
}

/// executes request lines (a pure function of the lines)
pub fn exec_lines(lines: &[String], out: &mut Out) {
    let mut sess: Option<Session> = None;
    for l in lines {
        let t: Vec<&str> = l.split(' ').collect();
        let reply = match t.as_slice() {
            ["begin", "lc", rest @ ..] => {
                let rest: Vec<&str> = rest.to_vec();
                let r = std::panic::catch_unwind(move || parse_begin(&rest));
                match r {
                    Ok(Some(s)) => {
                        let rep = format!("ok {}", ctx_summary(s.evm.as_ref().unwrap()));
                        sess = Some(s);
                        rep
                    }
                    _ => {
                        sess = None;
                        "bad-op".into()
                    }
                }
            }
            ["lc", rest @ ..] => match sess.as_mut() {
                None => "bad-op".into(),
                Some(s) => {
                    let rest: Vec<&str> = rest.to_vec();
                    let sp = std::panic::AssertUnwindSafe(&mut *s);
                    match std::panic::catch_unwind(move || {
                        let sp = sp;
                        sp.0.exec(&rest)
                    }) {
                        Ok(r) => r,
                        Err(_) => {
                            // after a panic the instance is in an unspecified state: end the case
                            sess = None;
                            "panic".into()
                        }
                    }
                }
            },
            _ => "bad-op".into(),
        };
        if t.len() > 3 && t[1] == "call" {
            out.count(&format!("entry:{}", t[2]));
            out.count(&format!("end:{}", reply.split(' ').next().unwrap_or("?")));
            if let Some(s) = reply.split(' ').find(|x| x.starts_with("same=")) {
                out.count(s);
            }
        } else if t.len() > 1 && t[1] == "spec" {
            out.count(&format!("spec-change:{}", t.last().unwrap()));
        } else if t[0] == "begin" && t.len() > 3 {
            out.count(&format!("variant:{}", t[2]));
        }
        out.push(l.clone(), reply);
    }
}

// ------------------------------------------------------------------ generator
const CALLERS: [u64; 2] = [0xc1, 0xc2];
const POOR: u64 = 0xc3;
const KS: [u64; 4] = [0xd1, 0xd2, 0xd3, 0xd4];
const EOA: u64 = 0xe1;
const F_CALLER: u64 = 0xf1;
const F_ACL: u64 = 0xf2;
const F_AUTH: u64 = 0xf3;
const F_TARGET: u64 = 0xf4;
const F_BAL: u64 = 0xf5;
const F_NESTED: u64 = 0xf6;
const F_COINBASE: u64 = 0xf7;
const FAIL_SLOT: u64 = 0x77;
const FAIL_SLOT_ACL: u64 = 0x78;

fn push(code: &mut Vec<u8>, v: u64) {
    if v <= 0xff {
        code.extend([0x60, v as u8]);
    } else {
        let b = v.to_be_bytes();
        let n = 8 - (v.leading_zeros() / 8) as usize;
        code.push(0x5f + n as u8);
        code.extend(&b[8 - n..]);
    }
}
fn push_addr(code: &mut Vec<u8>, a: u64) {
    push(code, a);
}

fn gen_code(rng: &mut Rng, me: usize, cancun_bias: bool) -> Vec<u8> {
    let mut c = vec![];
    let n = rng.range(1, 7);
    for _ in 0..n {
        match rng.below(if cancun_bias { 16 } else { 12 }) {
            0 => {
                // SLOAD (cold / warm gas), sometimes the failing slot
                let k = if rng.chance(1, 25) { FAIL_SLOT } else { rng.below(3) };
                push(&mut c, k);
                c.extend([0x54, 0x50]);
            }
            1 => {
                push(&mut c, rng.below(3));
                push(&mut c, rng.below(3));
                c.push(0x55);
            }
            2 => {
                // BALANCE / EXTCODESIZE / EXTCODEHASH of some address
                let a = match rng.below(12) {
                    0 => F_BAL,
                    1..=3 => 0xb1,
                    4..=5 => EOA,
                    6 => rng.range(1, 0x11),
                    _ => *rng.pick(&KS),
                };
                push_addr(&mut c, a);
                c.extend([*rng.pick(&[0x31u8, 0x3b, 0x3f]), 0x50]);
            }
            3 => {
                // record the gas left (makes storage depend on warm/cold accounting)
                c.push(0x5a);
                push(&mut c, 8 + rng.below(2));
                c.push(0x55);
            }
            4 => {
                // LOGn
                let nt = rng.below(3);
                for i in 0..nt {
                    push(&mut c, 0xa0 + i);
                }
                push(&mut c, 0);
                push(&mut c, 0);
                c.push(0xa0 + nt as u8);
            }
            5..=7 => {
                // CALL / STATICCALL / DELEGATECALL
                let kind = *rng.pick(&[0xf1u8, 0xf1, 0xfa, 0xf4]);
                let target = match rng.below(14) {
                    0 => F_NESTED,
                    1..=3 => rng.range(1, 0x11),
                    4 => EOA,
                    5 => 0xb1,
                    _ => {
                        // never call oneself or a lower-numbered contract: nesting is finite
                        if me + 1 < KS.len() { KS[rng.range(me as u64 + 1, KS.len() as u64 - 1) as usize] } else { EOA }
                    }
                };
                push(&mut c, 0);
                push(&mut c, 0);
                push(&mut c, if (1..=0x11).contains(&target) { rng.below(3) * 32 } else { 0 });
                push(&mut c, 0);
                if kind == 0xf1 {
                    push(&mut c, rng.below(2));
                }
                push_addr(&mut c, target);
                push(&mut c, *rng.pick(&[0u64, 3000, 30000, 100000]));
                c.push(kind);
                if rng.chance(1, 2) {
                    push(&mut c, 10);
                    c.push(0x55);
                } else {
                    c.push(0x50);
                }
            }
            8 => {
                // CREATE with a 5-byte init code: returns empty / reverts / invalid
                let init: u64 = *rng.pick(&[0x60006000f3u64, 0x60006000fd, 0xfe00000000, 0x6001600055]);
                push(&mut c, init);
                push(&mut c, 0);
                c.push(0x52);
                push(&mut c, 5);
                push(&mut c, 27);
                push(&mut c, 0);
                c.extend([0xf0, 0x50]);
            }
            9 => {
                push(&mut c, rng.below(200));
                c.extend([0x40, 0x50]);
            }
            10 => {
                // COINBASE BALANCE (warm from Shanghai)
                c.extend([0x41, 0x31, 0x50]);
            }
            11 | 12 | 13 => {
                // TLOAD k; SSTORE 4+k  (a leaked transient value becomes visible in storage)
                let k = rng.below(2);
                push(&mut c, k);
                c.push(0x5c);
                push(&mut c, 4 + k);
                c.push(0x55);
            }
            _ => {
                // TSTORE k
                push(&mut c, 1 + rng.below(200));
                push(&mut c, rng.below(2));
                c.push(0x5d);
            }
        }
    }
    match rng.below(12) {
        0..=5 => c.push(0x00),
        6 | 7 => {
            push(&mut c, 0);
            push(&mut c, 0);
            c.push(0xfd);
        }
        8 => c.push(0xfe),
        9 => {
            push(&mut c, 32);
            push(&mut c, 0);
            c.push(0xf3);
        }
        10 => {
            push_addr(&mut c, EOA);
            c.push(0xff);
        }
        _ => {
            // burn all gas
            let pos = c.len() as u64;
            c.push(0x5b);
            push(&mut c, pos);
            c.push(0x56);
        }
    }
    c
}

fn all_specs() -> Vec<u8> {
    crate::act::all_specs().into_iter().map(|s| s as u8).collect()
}

fn gen_case(rng: &mut Rng, len: usize) -> Vec<String> {
    let specs = all_specs();
    let modern: Vec<u8> = specs.iter().copied().filter(|s| *s >= SpecId::CANCUN as u8).collect();
    let pick_spec = |rng: &mut Rng| if rng.chance(3, 5) { *rng.pick(&modern) } else { *rng.pick(&specs) };
    let spec = pick_spec(rng);
    let variant = *rng.pick(&["plain", "plain", "noop", "rec", "rec"]);
    let probe = rng.chance(2, 3);
    let mut begin = format!("begin lc {variant} {} {spec}", b01(probe));
    for c in CALLERS {
        begin += &format!(" acct={:x}:{:x}:{}:-:-", c, U256::from(10).pow(U256::from(24)), rng.below(3));
    }
    begin += &format!(" acct={:x}:3e8:0:-:-", POOR);
    begin += &format!(" acct={:x}:{:x}:1:-:-", EOA, rng.below(1000));
    for (i, k) in KS.iter().enumerate() {
        let code = gen_code(rng, i, true);
        let mut slots: Vec<String> = vec![];
        for s in 0..3 {
            if rng.chance(1, 2) {
                slots.push(format!("{:x}={:x}", s, 1 + rng.below(9)));
            }
        }
        begin += &format!(
            " acct={:x}:{:x}:1:{}:{}",
            k,
            rng.below(100),
            hxb(&code),
            if slots.is_empty() { "-".to_string() } else { slots.join(",") }
        );
    }
    begin += &format!(" acct={:x}:5:0:-:-", 0xb1);
    begin += &format!(
        " fb={:x},{:x},{:x},{:x},{:x},{:x},{:x}",
        F_CALLER, F_ACL, F_AUTH, F_TARGET, F_BAL, F_NESTED, F_COINBASE
    );
    let fs: Vec<String> = KS.iter().map(|k| format!("{:x}.{:x},{:x}.{:x}", k, FAIL_SLOT, k, FAIL_SLOT_ACL)).collect();
    begin += &format!(" fs={}", fs.join(","));

    let mut lines = vec![begin.clone()];
    // the labels are observed: the generator runs the history while it writes it
    let t: Vec<&str> = begin.split(' ').collect();
    let mut sess = parse_begin(&t[2..]).expect("generated begin line parses");
    let mut cur = spec;
    for _ in 0..len {
        if rng.chance(1, 6) {
            let s = pick_spec(rng);
            cur = s;
            let how = *rng.pick(&["modify", "rebuild"]);
            let l = format!("lc spec {s} {how}");
            let t: Vec<&str> = l.split(' ').collect();
            sess.exec(&t[1..]);
            lines.push(l);
            continue;
        }
        let entry = *rng.pick(&["transact", "transact", "commit", "commit", "commit", "preverified", "preverify"]);
        let cb = match rng.below(20) { 0 => F_COINBASE, 1..=3 => 0xb2, _ => 0xb1 };
        let from = match rng.below(24) { 0 => F_CALLER, 1 => POOR, 2 => KS[0], 3..=6 => CALLERS[1], _ => CALLERS[0] };
        let to = match rng.below(24) {
            0 => "create".to_string(),
            1 => format!("{:x}", F_TARGET),
            2 => format!("{:x}", EOA),
            3 => format!("{:x}", rng.range(1, 0x11)),
            _ => format!("{:x}", rng.pick(&KS)),
        };
        let val = rng.below(3);
        let gl: u64 = if entry == "preverified" {
            *rng.pick(&[300_000u64, 1_000_000])
        } else {
            *rng.pick(&[20_000u64, 60_000, 300_000, 300_000, 300_000, 1_000_000, 1_000_000, 1_000_000, 1_000_000, 31_000_000])
        };
        let gp = *rng.pick(&[0u64, 10, 10, 1000, 1000, 1000, 1000, 1000, 1000, 1000]);
        let tip = if gp == 1000 && rng.chance(1, 5) { format!("{:x}", if rng.chance(1, 8) { 2000 } else { rng.below(20) }) } else { "-".into() };
        let nonce = if rng.chance(1, 8) { rng.below(4).to_string() } else { "-".into() };
        let data = if to == "create" {
            hxb(&match rng.below(3) { 0 => vec![0x60, 0x00, 0x60, 0x00, 0xf3], 1 => vec![0xfe], _ => vec![0x60, 0x01, 0x60, 0x00, 0x55] })
        } else if rng.chance(1, 3) {
            {
            let n = rng.below(5) as usize;
            hxb(&rng.bytes(n))
        }
        } else {
            "-".into()
        };
        // mostly only where the fork knows the list (otherwise the call ends in validation.env)
        let al_ok = cur >= SpecId::BERLIN as u8 || rng.chance(1, 8);
        let auth_ok = cur >= SpecId::PRAGUE as u8 || rng.chance(1, 8);
        let al = if al_ok && rng.chance(1, 3) {
            let mut items = vec![];
            for _ in 0..rng.range(1, 3) {
                let a = match rng.below(16) { 0 => F_ACL, 1 => EOA, 2 => 0xb1, _ => *rng.pick(&KS) };
                let ks: Vec<String> = (0..rng.below(3))
                    .map(|_| format!("{:x}", if a != F_ACL && a != EOA && a != 0xb1 && rng.chance(1, 30) { FAIL_SLOT_ACL } else { rng.below(3) }))
                    .collect();
                items.push(format!("{:x}:{}", a, ks.join("+")));
            }
            items.join(";")
        } else {
            "-".into()
        };
        let auth = if auth_ok && to != "create" && rng.chance(1, 6) {
            let mut items = vec![];
            for _ in 0..rng.range(1, 2) {
                let a = match rng.below(6) { 0 => F_AUTH, 1 | 2 => CALLERS[1], _ => EOA };
                items.push(format!("{:x}>{:x}>{}", a, KS[1], rng.below(3)));
            }
            items.join(",")
        } else {
            "-".into()
        };
        let tail = format!("cb={cb:x} from={from:x} to={to} val={val:x} gl={gl} gp={gp:x} tip={tip} nonce={nonce} data={data} al={al} auth={auth}");
        if !emit_call(&mut sess, &mut lines, entry, &tail) {
            break;
        }
    }
    lines
}

/// runs one call on the session to observe where it ends, then writes the line with that label
fn emit_call(sess: &mut Session, lines: &mut Vec<String>, entry: &str, tail: &str) -> bool {
    let probe_line = format!("call {entry} ? {tail}");
    let t: Vec<&str> = probe_line.split(' ').collect();
    let sp = std::panic::AssertUnwindSafe(&mut *sess);
    match std::panic::catch_unwind(move || {
        let sp = sp;
        sp.0.exec(&t)
    }) {
        Ok(r) => {
            let label = r.split(' ').next().unwrap_or("?").to_string();
            lines.push(format!("lc call {entry} {label} {tail}"));
            true
        }
        Err(_) => {
            lines.push(format!("lc call {entry} panic {tail}"));
            false
        }
    }
}

/// Directed history: every way a call can end (each entry point; success, revert, halt; failure in
/// validation.env / initial_tx_gas / tx_against_state; database errors in tx_against_state,
/// load_accounts (address and slot), deduct_caller, the 7702 list, first-frame creation, inside the loop
/// through the error slot (BALANCE, SLOAD) and through `?` (nested CALL), reward_beneficiary; spec
/// changes), each followed by a DETECTOR transaction whose result depends on anything that leaked:
/// TLOAD -> storage, cold/warm SLOAD + BALANCE + CALL (gas recorded into storage), LOG1, TSTORE.
fn gen_directed(spec: u8, variant: &str, probe: bool) -> Vec<String> {
    let cancun = spec >= SpecId::CANCUN as u8;
    let mut det: Vec<u8> = vec![];
    if cancun {
        det.extend([0x60, 0x00, 0x5c, 0x60, 0x04, 0x55]);
    }
    det.extend([0x60, 0x01, 0x54, 0x50]);
    det.extend([0x60, 0xd2, 0x31, 0x50]);
    det.extend([0x60, 0x00, 0x60, 0x00, 0x60, 0x00, 0x60, 0x00, 0x60, 0x00, 0x60, 0xd2, 0x61, 0x75, 0x30, 0xf1, 0x50]);
    det.extend([0x5a, 0x60, 0x09, 0x55]);
    det.extend([0x60, 0xaa, 0x60, 0x00, 0x60, 0x00, 0xa1]);
    if cancun {
        det.extend([0x60, 0x07, 0x60, 0x00, 0x5d]);
    }
    det.push(0x00);
    let mut pre: Vec<u8> = vec![];
    if cancun {
        pre.extend([0x60, 0x09, 0x60, 0x00, 0x5d]);
    }
    pre.extend([0x60, 0x05, 0x60, 0x01, 0x55]);
    pre.extend([0x60, 0x00, 0x60, 0x00, 0xa0]);
    pre.extend([0x60, 0xd2, 0x31, 0x50]);
    pre.extend([0x60, 0x00, 0x60, 0x00, 0x60, 0x00, 0x60, 0x00, 0x60, 0x00, 0x60, 0xd2, 0x61, 0x75, 0x30, 0xf1, 0x50]);
    let with = |tail: &[u8]| -> String {
        let mut c = pre.clone();
        c.extend(tail);
        hxb(&c)
    };
    let callee = hxb(&[0x60, 0x01, 0x60, 0x00, 0x55, 0x00]);
    let mut begin = format!("begin lc {variant} {} {spec}", b01(probe));
    begin += &format!(" acct=c1:{:x}:0:-:- acct=c2:{:x}:0:-:- acct=c3:3e8:0:-:- acct=e1:5:1:-:-", U256::from(10).pow(U256::from(24)), U256::from(10).pow(U256::from(24)));
    begin += &format!(" acct=d1:0:1:{}:1=3", hxb(&det));
    begin += &format!(" acct=d2:0:1:{callee}:-");
    begin += &format!(" acct=d3:0:1:{}:1=2", with(&[0x00]));
    begin += &format!(" acct=d4:0:1:{}:1=2", with(&[0x60, 0x00, 0x60, 0x00, 0xfd]));
    begin += &format!(" acct=d5:0:1:{}:1=2", with(&[0xfe]));
    begin += &format!(" acct=d6:0:1:{}:1=2", with(&[0x60, 0xf5, 0x31, 0x50, 0x00]));
    begin += &format!(" acct=d7:0:1:{}:1=2", with(&[0x60, 0x00, 0x60, 0x00, 0x60, 0x00, 0x60, 0x00, 0x60, 0x00, 0x60, 0xf6, 0x61, 0x75, 0x30, 0xf1, 0x50, 0x00]));
    begin += &format!(" acct=d8:0:1:{}:1=2", with(&[0x60, 0x77, 0x54, 0x50, 0x00]));
    begin += " acct=b1:5:0:-:- fb=f1,f2,f3,f4,f5,f6,f7 fs=d8.77,d3.78";
    let mut lines = vec![begin.clone()];
    let t: Vec<&str> = begin.split(' ').collect();
    let mut sess = parse_begin(&t[2..]).expect("directed begin line parses");
    let tail = |cb: &str, from: &str, to: &str, gl: u64, data: &str, al: &str, auth: &str| {
        format!("cb={cb} from={from} to={to} val=0 gl={gl} gp=3e8 tip=- nonce=- data={data} al={al} auth={auth}")
    };
    let detector = tail("b1", "c2", "d1", 300_000, "-", "-", "-");
    let disturbers: Vec<(&str, String)> = vec![
        ("commit", tail("b1", "c1", "d3", 300_000, "-", "-", "-")),
        ("transact", tail("b1", "c1", "d3", 300_000, "-", "-", "-")),
        ("commit", tail("b1", "c1", "d4", 300_000, "-", "-", "-")),
        ("transact", tail("b1", "c1", "d5", 300_000, "-", "-", "-")),
        ("commit", tail("b1", "c1", "d5", 300_000, "-", "-", "-")),
        ("transact", tail("b1", "c1", "d3", 31_000_000, "-", "-", "-")),
        ("commit", tail("b1", "c1", "d3", 20_000, "-", "-", "-")),
        ("transact", tail("b1", "c3", "d3", 300_000, "-", "-", "-")),
        ("transact", tail("b1", "f1", "d3", 300_000, "-", "-", "-")),
        ("preverify", tail("b1", "c1", "d3", 300_000, "-", "-", "-")),
        ("preverify", tail("b1", "c3", "d3", 300_000, "-", "-", "-")),
        ("preverify", tail("b1", "f1", "d3", 300_000, "-", "-", "-")),
        ("preverified", tail("b1", "c1", "d3", 300_000, "-", "-", "-")),
        ("preverified", tail("b1", "c3", "d4", 300_000, "-", "-", "-")),
        ("preverified", tail("b1", "f1", "d3", 300_000, "-", "-", "-")),
        ("commit", tail("b1", "c1", "d3", 300_000, "-", "d1:1;d2:;f2:", "-")),
        ("commit", tail("b1", "c1", "d3", 300_000, "-", "d1:1;d3:78", "-")),
        ("commit", tail("b1", "c1", "d3", 300_000, "-", "d1:1+0;d2:", "-")),
        ("commit", tail("b1", "c1", "d3", 400_000, "-", "-", "e1>d2>1,f3>d2>0")),
        ("commit", tail("b1", "c1", "f4", 300_000, "-", "-", "-")),
        ("transact", tail("b1", "c1", "d6", 300_000, "-", "-", "-")),
        ("commit", tail("b1", "c1", "d8", 300_000, "-", "-", "-")),
        ("commit", tail("b1", "c1", "d7", 300_000, "-", "-", "-")),
        ("commit", tail("f7", "c1", "d3", 300_000, "-", "-", "-")),
        ("commit", tail("b1", "c1", "create", 300_000, "6001600055", "-", "-")),
        ("commit", tail("b1", "c1", "9", 300_000, "-", "-", "-")),
    ];
    for (entry, d) in &disturbers {
        if !emit_call(&mut sess, &mut lines, entry, d) {
            return lines;
        }
        if !emit_call(&mut sess, &mut lines, "commit", &detector) {
            return lines;
        }
    }
    // spec changes: handler only, then through the builder, with the detector in between
    let other = if cancun { SpecId::LONDON as u8 } else { SpecId::CANCUN as u8 };
    for (s, how) in [(other, "modify"), (spec, "modify"), (SpecId::CONSTANTINOPLE as u8, "rebuild"), (spec, "rebuild")] {
        let l = format!("lc spec {s} {how}");
        let t: Vec<&str> = l.split(' ').collect();
        sess.exec(&t[1..]);
        lines.push(l);
        if !emit_call(&mut sess, &mut lines, "preverify", &detector) {
            return lines;
        }
        if !emit_call(&mut sess, &mut lines, "commit", &detector) {
            return lines;
        }
    }
    lines
}

pub fn gen(seed: u64, n: usize) -> Vec<String> {
    let mut rng = Rng::new(seed ^ 0xC31);
    let mut v = vec![];
    // directed histories, rotating over (spec, variant) with the seed
    let specs = all_specs();
    let variants = ["rec", "plain", "noop"];
    let nd = if n == 0 { 0 } else { (n / 10).clamp(6, specs.len() * variants.len()) };
    for i in 0..nd {
        let j = (seed as usize).wrapping_mul(7).wrapping_add(i) % (specs.len() * variants.len());
        v.extend(gen_directed(specs[j % specs.len()], variants[(j / specs.len()) % 3], (j + i) % 3 != 0));
    }
    for _ in 0..n {
        let len = rng.range(4, 14) as usize;
        v.extend(gen_case(&mut rng, len));
    }
    // malformed
    v.push("lc call transact ok:success".into());
    v.push("begin lc nothing 0 17".into());
    v.push("lc spec 17 modify".into());
    v
}

pub fn run(seed: u64, n: usize, replay: Option<Vec<String>>, out: &mut Out) {
    let lines = replay.unwrap_or_else(|| gen(seed, n));
    exec_lines(&lines, out);
}
