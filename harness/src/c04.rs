//! C04: jump-destination analysis and JUMP / JUMPI target handling on the real code.
//!
//! requests (component `jump`):
//!   `jump table <once|twice|contract> <code>`
//!       real `to_analysed` (once / applied twice / through `Contract::new`) and `JumpTable::is_valid`
//!       (`contract`: `Contract::is_valid_jump`) for every t in 0..len+40 and the probes
//!       len+33, len+34, 2^31, 2^32, 2^63, 2^64-1.
//!       reply `valid=<ascending decimal positions | ->`
//!   `jump pad <once|twice> <code>`
//!       reply `len=<original_len> blen=<bytecode len> bits=<table bits> tail0=<0|1> orig=<0|1>`
//!   `jump exec <jump|jumpi> <push|pre> <gas> <body> <stack>`   (stack: hex words, top first, or `-`)
//!       pre : program = [op] ++ body, stack preloaded; push: program = PUSH32 w_k .. PUSH32 w_1 op ++ body.
//!       Runs the real interpreter (Interpreter::run, DummyHost, Cancun instruction table wrapped by a
//!       recorder) and reports the state right after the JUMP/JUMPI instruction:
//!       `pc=<dec> g=<gas remaining> n=<stack len> final=<..>` | `halt <InstructionResult> g=.. n=.. final=<..>`
//!       `final` = the frame's real end result when the next byte(s) determine it (STOP, or JUMPDEST
//!       then STOP / out of gas), else `?`.
use crate::*;
use revm::interpreter::{
    analysis::to_analysed, opcode::make_instruction_table, Contract, DummyHost, InstructionResult,
    Interpreter, InterpreterAction, SharedMemory,
};
use revm::primitives::{Address, Bytecode, Bytes, CancunSpec, U256};
use std::cell::RefCell;
use std::rc::Rc;

fn parse_bytes(s: &str) -> Option<Vec<u8>> {
    if s == "-" {
        return Some(vec![]);
    }
    if s.len() % 2 != 0 {
        return None;
    }
    (0..s.len() / 2).map(|i| u8::from_str_radix(&s[2 * i..2 * i + 2], 16).ok()).collect()
}

fn parse_words(s: &str) -> Option<Vec<U256>> {
    if s == "-" {
        return Some(vec![]);
    }
    s.split(',').map(|t| U256::from_str_radix(t, 16).ok()).collect()
}

fn nat_list(v: &[usize]) -> String {
    if v.is_empty() {
        "-".into()
    } else {
        v.iter().map(|x| x.to_string()).collect::<Vec<_>>().join(",")
    }
}

fn positions(len: usize) -> Vec<usize> {
    let mut p: Vec<usize> = (0..len + 40).collect();
    p.extend_from_slice(&[len + 33, len + 34, 1usize << 31, 1usize << 32, 1usize << 63, usize::MAX]);
    p
}

fn mk_contract(bc: Bytecode) -> Contract {
    Contract::new(Bytes::new(), bc, None, Address::ZERO, None, Address::ZERO, U256::ZERO)
}

fn mk_bytecode(mode: &str, code: &[u8]) -> Option<Bytecode> {
    let raw = Bytecode::new_legacy(Bytes::from(code.to_vec()));
    match mode {
        "once" => Some(to_analysed(raw)),
        "twice" => Some(to_analysed(to_analysed(raw))),
        _ => None,
    }
}

pub fn table(mode: &str, code: &[u8]) -> String {
    let pos = positions(code.len());
    let valid: Vec<usize> = if mode == "contract" {
        let c = mk_contract(Bytecode::new_legacy(Bytes::from(code.to_vec())));
        pos.into_iter().filter(|&t| c.is_valid_jump(t)).collect()
    } else {
        let Some(bc) = mk_bytecode(mode, code) else { return "bad-op".into() };
        let Some(jt) = bc.legacy_jump_table() else { return "no-table".into() };
        pos.into_iter().filter(|&t| jt.is_valid(t)).collect()
    };
    format!("valid={}", nat_list(&valid))
}

pub fn pad_info(mode: &str, code: &[u8]) -> String {
    let Some(bc) = mk_bytecode(mode, code) else { return "bad-op".into() };
    match &bc {
        Bytecode::LegacyAnalyzed(a) => {
            let b = a.bytecode();
            let ol = a.original_len();
            let tail0 = ol <= b.len() && b[ol..].iter().all(|x| *x == 0);
            let orig = ol <= b.len() && &b[..ol] == code && a.original_byte_slice() == code;
            format!(
                "len={} blen={} bits={} tail0={} orig={}",
                ol,
                b.len(),
                a.jump_table().0.len(),
                b01(tail0),
                b01(orig)
            )
        }
        _ => "bad-op".into(),
    }
}

fn be32(w: U256) -> [u8; 32] {
    w.to_be_bytes::<32>()
}

pub fn exec(op: &str, mode: &str, gas: u64, body: &[u8], ws: &[U256]) -> String {
    let opc: u8 = match op {
        "jump" => 0x56,
        "jumpi" => 0x57,
        _ => return "bad-op".into(),
    };
    let mut prog: Vec<u8> = vec![];
    match mode {
        "pre" => {}
        "push" => {
            if ws.len() > 3 || 3 * ws.len() as u64 > gas {
                return "bad-op".into();
            }
            for w in ws.iter().rev() {
                prog.push(0x7f);
                prog.extend_from_slice(&be32(*w));
            }
        }
        _ => return "bad-op".into(),
    }
    prog.push(opc);
    let jpos = prog.len() - 1;
    prog.extend_from_slice(body);
    let contract = mk_contract(Bytecode::new_legacy(Bytes::from(prog)));
    let mut interp = Interpreter::new(contract, gas, false);
    if mode == "pre" {
        for w in ws.iter().rev() {
            if interp.stack.push(*w).is_err() {
                return "bad-op".into();
            }
        }
    }
    let mut host = DummyHost::default();
    let table = make_instruction_table::<DummyHost, CancunSpec>();
    // (result, pc, gas remaining, stack len) right after the instruction at `jpos` ran for the first time
    let rec: Rc<RefCell<Option<(InstructionResult, usize, u64, usize)>>> = Rc::new(RefCell::new(None));
    let wrapped: [Box<dyn Fn(&mut Interpreter, &mut DummyHost)>; 256] = core::array::from_fn(|i| {
        let f = table[i];
        let rec = rec.clone();
        Box::new(move |interp: &mut Interpreter, host: &mut DummyHost| {
            let pos = interp.program_counter() - 1;
            f(interp, host);
            if pos == jpos && rec.borrow().is_none() {
                *rec.borrow_mut() = Some((
                    interp.instruction_result,
                    interp.program_counter(),
                    interp.gas.remaining(),
                    interp.stack.len(),
                ));
            }
        }) as Box<dyn Fn(&mut Interpreter, &mut DummyHost)>
    });
    let action = interp.run(SharedMemory::new(), &wrapped, &mut host);
    let fin = match action {
        InterpreterAction::Return { result } => format!("{:?}", result.result),
        _ => "Action".to_string(),
    };
    let Some((res, pc, g, n)) = *rec.borrow() else { return format!("jump-not-reached {fin}") };
    let code = interp.bytecode.clone();
    let determined = if res != InstructionResult::Continue {
        true
    } else if pc >= code.len() {
        return "oob".into();
    } else if code[pc] == 0x00 {
        true
    } else if code[pc] == 0x5b {
        g == 0 || (pc + 1 < code.len() && code[pc + 1] == 0x00)
    } else {
        false
    };
    let head = if res == InstructionResult::Continue { format!("pc={pc}") } else { format!("halt {:?}", res) };
    format!("{head} g={g} n={n} final={}", if determined { fin.as_str() } else { "?" })
}

pub fn exec_line(line: &str) -> String {
    let t: Vec<String> = line.split(' ').map(|s| s.to_string()).collect();
    if t.len() < 2 || t[0] != "jump" {
        return "bad-op".into();
    }
    guarded(move || match (t[1].as_str(), t.len()) {
        ("table", 4) => match parse_bytes(&t[3]) {
            Some(c) => table(&t[2], &c),
            None => "bad-op".into(),
        },
        ("pad", 4) => match parse_bytes(&t[3]) {
            Some(c) => pad_info(&t[2], &c),
            None => "bad-op".into(),
        },
        ("exec", 7) => match (t[4].parse::<u64>(), parse_bytes(&t[5]), parse_words(&t[6])) {
            (Ok(g), Some(b), Some(ws)) => exec(&t[2], &t[3], g, &b, &ws),
            _ => "bad-op".into(),
        },
        _ => "bad-op".into(),
    })
}

// ------------------------------------------------------------------ generators

/// reference scan used only to *choose* interesting targets (never for the verdict)
fn ref_scan(code: &[u8]) -> (Vec<usize>, Vec<usize>) {
    let (mut valid, mut data5b) = (vec![], vec![]);
    let mut i = 0;
    while i < code.len() {
        let op = code[i];
        if op == 0x5b {
            valid.push(i);
        }
        if (0x60..=0x7f).contains(&op) {
            let n = (op - 0x5f) as usize;
            for j in i + 1..(i + 1 + n).min(code.len()) {
                if code[j] == 0x5b {
                    data5b.push(j);
                }
            }
            i += n;
        }
        i += 1;
    }
    (valid, data5b)
}

fn biased_byte(rng: &mut Rng) -> u8 {
    match rng.below(10) {
        0..=2 => 0x5b,
        3..=5 => rng.range(0x60, 0x7f) as u8,
        6 => *rng.pick(&[0x00u8, 0x56, 0x57, 0x5a, 0x5c, 0x5f, 0x80, 0xef, 0xfe, 0xff]),
        _ => rng.next() as u8,
    }
}

/// well-formed instruction stream; JUMPDESTs both as instructions and inside push data;
/// `tail`: 0 = complete, 1 = last PUSH truncated, 2 = ends with a bare PUSHn, 3 = ends with JUMPDEST
fn structured_code(rng: &mut Rng, max_instr: u64, tail: u64) -> Vec<u8> {
    let mut c = vec![];
    let k = rng.below(max_instr + 1);
    for _ in 0..k {
        match rng.below(10) {
            0..=2 => c.push(0x5b),
            3..=6 => {
                let n = if rng.chance(1, 3) { *rng.pick(&[1u64, 2, 31, 32]) } else { rng.range(1, 32) };
                c.push(0x5f + n as u8);
                for _ in 0..n {
                    c.push(if rng.chance(1, 2) { 0x5b } else { biased_byte(rng) });
                }
            }
            7 => c.push(0x00),
            _ => {
                // any non-PUSH opcode
                let mut b = rng.next() as u8;
                if (0x60..=0x7f).contains(&b) {
                    b = 0x01;
                }
                c.push(b)
            }
        }
    }
    match tail {
        1 => {
            let n = rng.range(2, 32);
            let have = rng.below(n);
            c.push(0x5f + n as u8);
            for _ in 0..have {
                c.push(0x5b);
            }
        }
        2 => c.push(rng.range(0x60, 0x7f) as u8),
        3 => c.push(0x5b),
        _ => {}
    }
    c
}

fn huge_targets(base: usize) -> Vec<U256> {
    let b = U256::from(base);
    let one = U256::from(1);
    vec![
        b + (one << 64),
        b + (one << 128),
        b + (one << 192),
        b + (one << 255),
        b + (one << 32),
        one << 64,
        (one << 64) - one,
        U256::MAX,
        U256::MAX - b,
        one << 63,
    ]
}

fn words_str(ws: &[U256]) -> String {
    if ws.is_empty() {
        "-".into()
    } else {
        ws.iter().map(|w| hx(*w)).collect::<Vec<_>>().join(",")
    }
}

fn conds(rng: &mut Rng) -> U256 {
    let one = U256::from(1);
    match rng.below(8) {
        0..=2 => U256::ZERO,
        3 => one,
        4 => one << 64,
        5 => one << 255,
        6 => U256::MAX,
        _ => rng.word(),
    }
}

/// exec requests around one body
fn exec_requests(rng: &mut Rng, body: &[u8], k: usize, lines: &mut Vec<String>) {
    for _ in 0..k {
        let jumpi = rng.chance(1, 2);
        let push = rng.chance(1, 2);
        let nwords = if jumpi { 2 } else { 1 };
        let hdr = if push { 33 * nwords + 1 } else { 1 };
        // body viewed at its final offset: scan the whole program shape with a placeholder header
        // (header = PUSH32s, so the body starts at an instruction boundary either way)
        let (valid, data5b) = ref_scan(body);
        let len = hdr + body.len();
        let small: usize = match rng.below(12) {
            0..=3 if !valid.is_empty() => hdr + *rng.pick(&valid),
            4..=5 if !data5b.is_empty() => hdr + *rng.pick(&data5b),
            6 => rng.below(len as u64 + 1) as usize,
            7 => len - 1,
            8 => len + rng.below(36) as usize,
            9 => rng.below(hdr as u64) as usize,
            10 => hdr,
            _ => rng.below(len as u64 + 40) as usize,
        };
        let target = if rng.chance(1, 6) { *rng.pick(&huge_targets(small)) } else { U256::from(small) };
        let mut ws = vec![target];
        if jumpi {
            ws.push(conds(rng));
        }
        let gas: u64;
        if push {
            gas = *rng.pick(&[100_000u64, 100_000, 100_000, 100_000, 30_000, 3 * nwords as u64 + 10, 3 * nwords as u64 + 11, 50]);
        } else {
            gas = *rng.pick(&[100_000u64, 100_000, 100_000, 100_000, 30_000, 30_000, 0, 7, 8, 9, 10, 11, 12]);
            // sometimes a short or a longer stack
            match rng.below(12) {
                0 => {
                    ws.pop();
                }
                1 => ws.clear(),
                2 => ws.push(rng.word()),
                _ => {}
            }
        }
        lines.push(format!(
            "jump exec {} {} {} {} {}",
            if jumpi { "jumpi" } else { "jump" },
            if push { "push" } else { "pre" },
            gas,
            hxb(body),
            words_str(&ws)
        ));
    }
}

pub fn gen(seed: u64, n: usize) -> Vec<String> {
    let mut rng = Rng::new(seed ^ 0xC04);
    let mut lines: Vec<String> = Vec::new();
    let modes = ["once", "twice", "contract"];
    let emit_code = |rng: &mut Rng, lines: &mut Vec<String>, code: &[u8], execs: usize| {
        lines.push(format!("jump table {} {}", rng.pick(&modes), hxb(code)));
        if rng.chance(1, 4) {
            lines.push(format!("jump pad {} {}", rng.pick(&["once", "twice"]), hxb(code)));
        }
        exec_requests(rng, code, execs, lines);
    };
    // ---- boundary stream (complete where small)
    emit_code(&mut rng, &mut lines, &[], 6);
    for b in 0..=255u8 {
        emit_code(&mut rng, &mut lines, &[b], if b == 0x5b || (0x5f..=0x80).contains(&b) { 2 } else { 0 });
    }
    for n in 1..=32usize {
        // PUSHn followed by n-1, n, n+1, n+2 JUMPDEST bytes: truncated, exact, one and two instructions after
        for have in [0, n.saturating_sub(1), n, n + 1, n + 2] {
            let mut c = vec![0x5f + n as u8];
            c.extend(std::iter::repeat(0x5b).take(have));
            emit_code(&mut rng, &mut lines, &c, 2);
        }
        // JUMPDEST, PUSHn at the very end
        emit_code(&mut rng, &mut lines, &[0x5b, 0x5f + n as u8], 1);
    }
    for k in [0usize, 1, 2, 31, 32, 33, 34, 35, 64, 65, 66, 70] {
        emit_code(&mut rng, &mut lines, &vec![0x5b; k], 2);
        emit_code(&mut rng, &mut lines, &vec![0x7f; k], 1);
        emit_code(&mut rng, &mut lines, &vec![0x60; k], 1);
    }
    // 0x5b everywhere inside the PUSH32 data of the header itself (jumpi condition word / target word)
    let w5b = U256::from_be_bytes([0x5bu8; 32]);
    for t in [1usize, 2, 32, 33, 34, 35, 65, 66, 67] {
        lines.push(format!("jump exec jumpi push 100000 5b00 {},{}", hx(U256::from(t)), hx(w5b)));
        lines.push(format!("jump exec jump push 100000 5b5b00 {}", hx(U256::from(t))));
    }
    lines.push(format!("jump exec jump push 100000 5b00 {}", hx(w5b)));
    // ---- structured stream
    let n_struct = n * 6 / 10;
    for i in 0..n_struct {
        let tail = rng.below(4);
        let max_instr = if i % 50 == 0 { 400 } else if i % 5 == 0 { 60 } else { 12 };
        let c = structured_code(&mut rng, max_instr, tail);
        emit_code(&mut rng, &mut lines, &c, 3);
    }
    // ---- random / malformed stream (dense in 0x5b and PUSH opcodes)
    for i in 0..n - n_struct {
        let len = if i % 100 == 0 { rng.range(1000, 3000) } else if i % 7 == 0 { rng.range(60, 300) } else { rng.below(48) };
        let c: Vec<u8> = (0..len).map(|_| if i % 3 == 0 { rng.next() as u8 } else { biased_byte(&mut rng) }).collect();
        emit_code(&mut rng, &mut lines, &c, 3);
    }
    // ---- a few maximal codes (EIP-170 size and beyond), only with a large budget
    if n >= 50_000 {
        for tail in 0..4 {
            let mut c = structured_code(&mut rng, 6000, tail);
            c.truncate(24_576 + 40);
            emit_code(&mut rng, &mut lines, &c, 2);
        }
    }
    lines
}

pub fn run(seed: u64, n: usize, replay: Option<Vec<String>>, out: &mut Out) {
    let lines = replay.unwrap_or_else(|| gen(seed, n));
    for l in lines {
        let r = exec_line(&l);
        let mut it = l.split(' ');
        let _ = it.next();
        let kind = it.next().unwrap_or("?").to_string();
        out.count(&format!("req:{kind}"));
        if kind == "exec" {
            let head = r.split(' ').take(2).collect::<Vec<_>>();
            let key = if r.starts_with("pc=") { "continues".to_string() } else { head.join("_") };
            out.count(&format!("exec:{key}"));
            if r.starts_with("pc=") {
                // landed on the requested target, or fell through (JUMPI with zero condition)?
                let t: Vec<&str> = l.split(' ').collect();
                let ws: Vec<&str> = t.get(6).map(|s| s.split(',').collect()).unwrap_or_default();
                let taken = t.get(2) == Some(&"jump") || ws.get(1).map(|c| c.trim_start_matches('0') != "").unwrap_or(false);
                out.count(if taken { "exec:landed_on_jumpdest" } else { "exec:fell_through" });
            }
            if r.ends_with("final=Stop") {
                out.count("exec:final_stop");
            }
        } else if kind == "table" {
            out.count(if r == "valid=-" { "table:no_dest" } else { "table:some_dest" });
        }
        out.push(l, r);
    }
}
