//! C34tx: whole REAL transactions that measure, per probed access, the gas the EVM charged; the Lean
//! side (`lean/Driver/AccessTx.lean`) predicts the same list from the pure access-set specification
//! `Revm.Spec.AccessSets`.
//!
//! request: `acctx bh=<0|1> <spec> <coinbase> <to> <accesslist> <dels> <auths> <prog tokens…>`
//!   addresses   hex index into a fixed universe: 0 zero address, 1..11 precompile addresses, 12..1f absent,
//!               20..27 funded EOAs, 28..2f absent, 30..3f `STOP` contracts, 40..5f frame contracts (their code is
//!               generated from the template), 60..67 funded EOAs, 68..6f absent, 80..8f self-destruct helpers,
//!               bb = BLOCKHASH_STORAGE_ADDRESS, f0 = sender, everything else absent;
//!               `n<creator>.<salt>` = the address CREATE2 gives that creator / salt with the template's init code
//!   accesslist  `-` or `;`-separated `addr` / `addr:k,k,…`
//!   dels        `-` or `;`-separated `a>t`: `a` carries the EIP-7702 designator to `t` in the pre-state (Prague)
//!   auths       `-` or `;`-separated `kind:authority>target`, kind = ok | ok0 (chain id 0) | chain (wrong chain id)
//!               | nonce (wrong nonce) | code (authority is a contract) | max (nonce 2^64-1) | inv (no signer)
//!   prog        items of the top frame (context `<to>`, always returns):
//!               `bal:a xsz:a xhs:a xcp:a` measured BALANCE / EXTCODESIZE / EXTCODEHASH / EXTCODECOPY(len 0)
//!               `ub:a` unmeasured BALANCE; `sl:k` measured SLOAD; `ss:k` measured SSTORE(k, 0) (all storage is 0)
//!               `cl:a sc:a dc:a cc:a` measured CALL / STATICCALL / DELEGATECALL / CALLCODE with gas 0, value 0
//!               `sd:h:t` measured CALL of helper `h` (80..8f) which executes SELFDESTRUCT(t)
//!               `call:a { … } ret|rev` (also `scall`, `dcall`, `ccall`): unmeasured call of a frame contract (or of an
//!               account delegated to one) that runs the sub-template and ends with RETURN / REVERT of its measurements
//!               `create2:salt { … } ret|rev`: CREATE2 whose init code runs the sub-template
//! reply: the net access price of every probe in program order, comma separated decimal (`-` if none), or `err <reason>`
use crate::*;
use revm::db::{CacheDB, EmptyDB};
use revm::primitives::{
    keccak256, AccessListItem, AccountInfo, Address, Authorization, Bytecode, Bytes, ExecutionResult, Output,
    RecoveredAuthority, RecoveredAuthorization, SpecId, TxKind, B256, BLOCKHASH_STORAGE_ADDRESS, KECCAK_EMPTY, U256,
};
use revm::Evm;
use std::collections::{BTreeMap, BTreeSet};

pub const GAS_LIMIT: u64 = 12_000_000;
pub const SENDER: u8 = 0xf0;
pub const BH: u8 = 0xbb;

// ---------------------------------------------------------------- addresses
#[derive(Clone, Copy, PartialEq, Eq, PartialOrd, Ord, Debug)]
pub enum A {
    U(u8),
    N(u8, u64),
}
impl A {
    pub fn tok(&self) -> String {
        match self {
            A::U(i) => format!("{:x}", i),
            A::N(c, s) => format!("n{:x}.{:x}", c, s),
        }
    }
    pub fn parse(s: &str) -> Option<A> {
        if let Some(r) = s.strip_prefix('n') {
            let (c, k) = r.split_once('.')?;
            Some(A::N(u8::from_str_radix(c, 16).ok()?, u64::from_str_radix(k, 16).ok()?))
        } else {
            if s.is_empty() || s.starts_with('+') {
                return None;
            }
            Some(A::U(u8::from_str_radix(s, 16).ok()?))
        }
    }
}
pub fn uaddr(i: u8) -> Address {
    match i {
        0 => Address::ZERO,
        BH => BLOCKHASH_STORAGE_ADDRESS,
        _ => Address::with_last_byte(i),
    }
}
#[derive(Clone, Copy, PartialEq, Eq, Debug)]
enum K {
    Absent,
    Eoa,
    Stop,
    FrameC,
    Helper,
    Sender,
}
fn kind(i: u8) -> K {
    match i {
        0x20..=0x27 | 0x60..=0x67 => K::Eoa,
        0x30..=0x3f => K::Stop,
        0x40..=0x5f => K::FrameC,
        0x80..=0x8f => K::Helper,
        SENDER => K::Sender,
        _ => K::Absent,
    }
}
/// accounts that may carry a delegation designator
fn delegable(i: u8) -> bool {
    matches!(i, 0x20..=0x2f | 0x60..=0x6f)
}

// ---------------------------------------------------------------- template
#[derive(Clone, Copy, PartialEq, Eq, Debug)]
pub enum CK {
    Call,
    Static,
    Delegate,
    Code,
}
impl CK {
    fn opcode(self) -> u8 {
        match self {
            CK::Call => 0xf1,
            CK::Code => 0xf2,
            CK::Delegate => 0xf4,
            CK::Static => 0xfa,
        }
    }
    fn has_value(self) -> bool {
        matches!(self, CK::Call | CK::Code)
    }
}
#[derive(Clone, Debug)]
pub enum Item {
    Acct(u8, A),
    Touch(A),
    Sload(u64),
    Sstore(u64),
    CallP(CK, A),
    Sd(A, A),
    Frame { ck: CK, a: A, body: Vec<Item>, rev: bool, key: String },
    Create2 { salt: u64, body: Vec<Item>, rev: bool, key: String },
}

fn parse_items(t: &[&str], i: &mut usize, nested: bool) -> Result<Vec<Item>, String> {
    let mut v = vec![];
    loop {
        if *i >= t.len() {
            return if nested { Err("parse".into()) } else { Ok(v) };
        }
        let tok = t[*i];
        if tok == "}" {
            return if nested { Ok(v) } else { Err("parse".into()) };
        }
        let p: Vec<&str> = tok.split(':').collect();
        if *i + 1 < t.len() && t[*i + 1] == "{" {
            if p.len() != 2 {
                return Err("parse".into());
            }
            let start = *i + 2;
            *i = start;
            let body = parse_items(t, i, true)?;
            // t[*i] == "}"
            let end = *i;
            let rev = match t.get(end + 1) {
                Some(&"rev") => true,
                Some(&"ret") => false,
                _ => return Err("parse".into()),
            };
            *i = end + 2;
            let key = format!("{} {}", t[start..end].join(" "), t[end + 1]);
            let it = match p[0] {
                "create2" => Item::Create2 { salt: u64::from_str_radix(p[1], 16).map_err(|_| "parse")?, body, rev, key },
                "call" | "scall" | "dcall" | "ccall" => {
                    let ck = match p[0] {
                        "call" => CK::Call,
                        "scall" => CK::Static,
                        "dcall" => CK::Delegate,
                        _ => CK::Code,
                    };
                    Item::Frame { ck, a: A::parse(p[1]).ok_or("parse")?, body, rev, key }
                }
                _ => return Err("parse".into()),
            };
            v.push(it);
            continue;
        }
        *i += 1;
        let it = match (p[0], p.len()) {
            ("bal", 2) => Item::Acct(0x31, A::parse(p[1]).ok_or("parse")?),
            ("xsz", 2) => Item::Acct(0x3b, A::parse(p[1]).ok_or("parse")?),
            ("xhs", 2) => Item::Acct(0x3f, A::parse(p[1]).ok_or("parse")?),
            ("xcp", 2) => Item::Acct(0x3c, A::parse(p[1]).ok_or("parse")?),
            ("ub", 2) => Item::Touch(A::parse(p[1]).ok_or("parse")?),
            ("sl", 2) => Item::Sload(parse_slot(p[1])?),
            ("ss", 2) => Item::Sstore(parse_slot(p[1])?),
            ("cl", 2) => Item::CallP(CK::Call, A::parse(p[1]).ok_or("parse")?),
            ("sc", 2) => Item::CallP(CK::Static, A::parse(p[1]).ok_or("parse")?),
            ("dc", 2) => Item::CallP(CK::Delegate, A::parse(p[1]).ok_or("parse")?),
            ("cc", 2) => Item::CallP(CK::Code, A::parse(p[1]).ok_or("parse")?),
            ("sd", 3) => Item::Sd(A::parse(p[1]).ok_or("parse")?, A::parse(p[2]).ok_or("parse")?),
            _ => return Err("parse".into()),
        };
        v.push(it);
    }
}
fn parse_slot(s: &str) -> Result<u64, String> {
    if s.is_empty() || s.starts_with('+') {
        return Err("parse".into());
    }
    u64::from_str_radix(s, 16).map_err(|_| "parse".to_string())
}
fn count_probes(items: &[Item]) -> usize {
    items
        .iter()
        .map(|it| match it {
            Item::Touch(_) => 0,
            Item::Frame { body, .. } | Item::Create2 { body, .. } => count_probes(body),
            _ => 1,
        })
        .sum()
}

pub struct AuthT {
    pub kind: String,
    pub authority: u8,
    pub target: u8,
}
pub struct Req {
    pub spec: SpecId,
    pub cb: u8,
    pub to: u8,
    pub al: Vec<(A, Vec<u64>)>,
    pub dels: Vec<(u8, u8)>,
    pub auths: Vec<AuthT>,
    pub prog: Vec<Item>,
    pub prog_key: String,
}
fn split_list<'a>(s: &'a str, sep: char) -> Vec<&'a str> {
    if s == "-" { vec![] } else { s.split(sep).collect() }
}
pub fn parse_req(line: &str) -> Result<Req, String> {
    let t: Vec<&str> = line.split(' ').collect();
    if t.len() < 8 || t[0] != "acctx" || (t[1] != "bh=0" && t[1] != "bh=1") {
        return Err("parse".into());
    }
    if t[2].is_empty() || !t[2].bytes().all(|c| c.is_ascii_digit()) {
        return Err("parse".into());
    }
    let specn: u64 = t[2].parse().map_err(|_| "parse")?;
    let cb = A::parse(t[3]).ok_or("parse")?;
    let to = A::parse(t[4]).ok_or("parse")?;
    let mut al = vec![];
    for e in split_list(t[5], ';') {
        let p: Vec<&str> = e.split(':').collect();
        let a = A::parse(p[0]).ok_or("parse")?;
        let ks = match p.len() {
            1 => vec![],
            2 => p[1].split(',').map(parse_slot).collect::<Result<Vec<_>, _>>()?,
            _ => return Err("parse".into()),
        };
        al.push((a, ks));
    }
    let mut dels_a = vec![];
    for e in split_list(t[6], ';') {
        let (a, b) = e.split_once('>').ok_or("parse")?;
        dels_a.push((A::parse(a).ok_or("parse")?, A::parse(b).ok_or("parse")?));
    }
    let mut auths_a = vec![];
    for e in split_list(t[7], ';') {
        let p: Vec<&str> = e.split(':').collect();
        if p.len() != 2 || !["ok", "ok0", "chain", "nonce", "code", "max", "inv"].contains(&p[0]) {
            return Err("parse".into());
        }
        let (a, b) = p[1].split_once('>').ok_or("parse")?;
        auths_a.push((p[0].to_string(), A::parse(a).ok_or("parse")?, A::parse(b).ok_or("parse")?));
    }
    let mut i = 8;
    let prog = parse_items(&t, &mut i, false)?;
    // ---- past this point the line is syntactically fine (the model answers it); semantic restrictions follow
    if !(11..=18).contains(&specn) {
        return Err("spec".into());
    }
    let spec = SpecId::try_from_u8(specn as u8).ok_or("spec")?;
    if specn < 18 && (!dels_a.is_empty() || !auths_a.is_empty()) {
        return Err("prague-only".into());
    }
    let un = |a: A| match a {
        A::U(i) => Ok(i),
        _ => Err("created-address-not-allowed-here".to_string()),
    };
    let mut dels = vec![];
    for (a, b) in dels_a {
        dels.push((un(a)?, un(b)?));
    }
    let mut auths = vec![];
    for (k, a, b) in auths_a {
        auths.push(AuthT { kind: k, authority: un(a)?, target: un(b)? });
    }
    Ok(Req { spec, cb: un(cb)?, to: un(to)?, al, dels, auths, prog, prog_key: format!("{} ret", t[8..].join(" ")) })
}

// ---------------------------------------------------------------- assembler
#[derive(Clone, Default)]
struct Code {
    b: Vec<u8>,
    /// (position of a 2-byte operand, index into the host's init-code table)
    fix: Vec<(usize, usize)>,
}
impl Code {
    fn op(&mut self, o: u8) {
        self.b.push(o);
    }
    fn ops(&mut self, o: &[u8]) {
        self.b.extend_from_slice(o);
    }
    fn push1(&mut self, v: u8) {
        self.b.extend([0x60, v]);
    }
    fn push2(&mut self, v: u16) {
        self.b.push(0x61);
        self.b.extend(v.to_be_bytes());
    }
    fn push3(&mut self, v: u32) {
        self.b.push(0x62);
        self.b.extend(&v.to_be_bytes()[1..]);
    }
    fn push8(&mut self, v: u64) {
        self.b.push(0x67);
        self.b.extend(v.to_be_bytes());
    }
    fn push20(&mut self, a: Address) {
        self.b.push(0x73);
        self.b.extend(a.as_slice());
    }
    /// value on the stack top is appended to the measurement buffer (pointer in mem[0])
    fn append(&mut self) {
        self.push1(0);
        self.op(0x51); // MLOAD            [v p]
        self.ops(&[0x90, 0x81, 0x52]); // SWAP1 DUP2 MSTORE   [p]
        self.push1(0x20);
        self.op(0x01); // ADD
        self.push1(0);
        self.op(0x52); // MSTORE
    }
    /// stack [g1 (r) g2] -> buffer gets g1 - g2 - overhead
    fn finish_measure(&mut self, has_result: bool, overhead: u16) {
        if has_result {
            self.ops(&[0x90, 0x50]); // SWAP1 POP
        }
        self.ops(&[0x90, 0x03]); // SWAP1 SUB  -> g1 - g2
        self.push2(overhead);
        self.ops(&[0x90, 0x03]); // SWAP1 SUB
        self.append();
    }
    /// the return data of the child is appended to the buffer
    fn copy_returndata(&mut self) {
        self.op(0x3d); // RETURNDATASIZE
        self.push1(0);
        self.push1(0);
        self.op(0x51); // MLOAD
        self.op(0x3e); // RETURNDATACOPY(dest = ptr, 0, size)
        self.op(0x3d);
        self.push1(0);
        self.op(0x51);
        self.op(0x01);
        self.push1(0);
        self.op(0x52);
    }
}

#[derive(Default)]
struct Host {
    bodies: Vec<(String, Option<Code>)>,
    inits: Vec<Vec<u8>>,
}

struct Compiler {
    prague: bool,
    dmap: BTreeMap<u8, u8>,
    hosts: BTreeMap<u8, Host>,
    /// (creator, salt) -> (body key, real address)
    created: BTreeMap<(u8, u64), (String, Address)>,
}

const HELPER_CODE: &[u8] = &[0x60, 0x00, 0x35, 0xff];

impl Compiler {
    fn delegate_of(&self, i: u8) -> Option<u8> {
        match self.dmap.get(&i) {
            Some(0) | None => None,
            Some(t) => Some(*t),
        }
    }
    fn host_of(&self, a: A) -> Result<u8, String> {
        let i = match a {
            A::U(i) => i,
            _ => return Err("bad-callee".into()),
        };
        let h = if self.prague { self.delegate_of(i).unwrap_or(i) } else { i };
        if kind(h) != K::FrameC || (h != i && kind(i) == K::FrameC) {
            return Err("bad-callee".into());
        }
        Ok(h)
    }
    fn real(&self, a: A) -> Result<Address, String> {
        match a {
            A::U(i) => Ok(uaddr(i)),
            A::N(c, s) => self.created.get(&(c, s)).map(|x| x.1).ok_or_else(|| "unknown-created-address".to_string()),
        }
    }
    /// registers the body at the host (compiling it if it is new) and returns its selector
    fn register(&mut self, host: u8, key: &str, items: &[Item], rev: bool, st: bool, in_init: bool) -> Result<u8, String> {
        if let Some(p) = self.hosts.entry(host).or_default().bodies.iter().position(|b| b.0 == key) {
            return Ok(p as u8);
        }
        let h = self.hosts.get_mut(&host).unwrap();
        if h.bodies.len() >= 250 {
            return Err("too-many-bodies".into());
        }
        h.bodies.push((key.to_string(), None));
        let sel = h.bodies.len() - 1;
        let code = self.frame_code(Some(host), items, rev, st, in_init)?;
        self.hosts.get_mut(&host).unwrap().bodies[sel].1 = Some(code);
        Ok(sel as u8)
    }
    /// code of one frame: prologue, items, RETURN / REVERT of the buffer
    fn frame_code(&mut self, host: Option<u8>, items: &[Item], rev: bool, st: bool, in_init: bool) -> Result<Code, String> {
        let mut c = Code::default();
        let buf_len = 32 * count_probes(items);
        let init_off = 0x40 + buf_len;
        // prologue: expand memory once (patched below when the staging size is known), buffer pointer := 0x40
        c.push1(0);
        let mem_patch = c.b.len() + 1;
        c.push3(0);
        c.op(0x52);
        c.push1(0x40);
        c.push1(0);
        c.op(0x52);
        let mut max_init = 0usize;
        for it in items {
            match it {
                Item::Acct(op, a) => {
                    let ad = self.real(*a)?;
                    c.op(0x5a);
                    let mut ovh = 3 + 2;
                    if *op == 0x3c {
                        c.push1(0);
                        c.push1(0);
                        c.push1(0);
                        ovh += 9;
                    }
                    c.push20(ad);
                    c.op(*op);
                    c.op(0x5a);
                    c.finish_measure(*op != 0x3c, ovh);
                }
                Item::Touch(a) => {
                    let ad = self.real(*a)?;
                    c.push20(ad);
                    c.ops(&[0x31, 0x50]);
                }
                Item::Sload(k) => {
                    c.op(0x5a);
                    c.push8(*k);
                    c.op(0x54);
                    c.op(0x5a);
                    c.finish_measure(true, 5);
                }
                Item::Sstore(k) => {
                    if st {
                        return Err("static".into());
                    }
                    c.op(0x5a);
                    c.push1(0);
                    c.push8(*k);
                    c.op(0x55);
                    c.op(0x5a);
                    c.finish_measure(false, 8);
                }
                Item::CallP(ck, a) => {
                    let ad = self.real(*a)?;
                    c.op(0x5a);
                    for _ in 0..4 {
                        c.push1(0);
                    }
                    let mut ovh = 4 * 3 + 3 + 3 + 2;
                    if ck.has_value() {
                        c.push1(0);
                        ovh += 3;
                    }
                    c.push20(ad);
                    c.push1(0);
                    c.op(ck.opcode());
                    c.op(0x5a);
                    c.finish_measure(true, ovh);
                }
                Item::Sd(h, t) => {
                    if st {
                        return Err("static".into());
                    }
                    match h {
                        A::U(i) if kind(*i) == K::Helper => {}
                        _ => return Err("bad-helper".into()),
                    }
                    let had = self.real(*h)?;
                    let tad = self.real(*t)?;
                    c.push20(tad);
                    c.push1(0x20);
                    c.op(0x52);
                    c.op(0x5a);
                    c.push1(0);
                    c.push1(0);
                    c.push1(0x20);
                    c.push1(0x20);
                    c.push1(0);
                    c.push20(had);
                    c.push2(0xffff);
                    c.op(0xf1);
                    c.op(0x5a);
                    // 7 pushes, the closing GAS, and the helper's PUSH1 + CALLDATALOAD
                    c.finish_measure(true, 7 * 3 + 2 + 6);
                }
                Item::Frame { ck, a, body, rev, key } => {
                    let host_c = self.host_of(*a)?;
                    let ad = self.real(*a)?;
                    let sel = self.register(host_c, key, body, *rev, st || *ck == CK::Static, in_init)?;
                    c.push1(sel);
                    c.push1(0x20);
                    c.op(0x53); // MSTORE8
                    c.push1(0);
                    c.push1(0);
                    c.push1(1);
                    c.push1(0x20);
                    if ck.has_value() {
                        c.push1(0);
                    }
                    c.push20(ad);
                    c.op(0x5a);
                    c.op(ck.opcode());
                    c.op(0x50);
                    c.copy_returndata();
                }
                Item::Create2 { salt, body, rev, key } => {
                    if st {
                        return Err("static".into());
                    }
                    if in_init {
                        return Err("create2-in-init".into());
                    }
                    let host = host.ok_or("create2-in-init")?;
                    let init = self.frame_code(None, body, *rev, false, true)?.b;
                    let _ = key;
                    max_init = max_init.max(init.len());
                    let len = init.len();
                    if len > 0xc000 {
                        return Err("initcode-too-large".into());
                    }
                    let h = self.hosts.entry(host).or_default();
                    let idx = match h.inits.iter().position(|x| *x == init) {
                        Some(p) => p,
                        None => {
                            h.inits.push(init);
                            h.inits.len() - 1
                        }
                    };
                    c.push2(len as u16);
                    c.fix.push((c.b.len() + 1, idx));
                    c.push2(0);
                    c.push3(init_off as u32);
                    c.op(0x39); // CODECOPY
                    c.push8(*salt);
                    c.push2(len as u16);
                    c.push3(init_off as u32);
                    c.push1(0);
                    c.op(0xf5); // CREATE2
                    if *rev {
                        c.op(0x50);
                        c.copy_returndata();
                    } else {
                        // the deployed code is the init frame's buffer
                        c.push1(0x20);
                        c.op(0x52);
                        c.push1(0x20);
                        c.ops(&[0x51, 0x3b]); // MLOAD EXTCODESIZE   [sz]
                        c.op(0x80); // DUP1
                        c.push1(0);
                        c.push1(0);
                        c.op(0x51);
                        c.push1(0x20);
                        c.op(0x51);
                        c.op(0x3c); // EXTCODECOPY(addr, ptr, 0, sz)
                        c.push1(0);
                        c.op(0x51);
                        c.op(0x01);
                        c.push1(0);
                        c.op(0x52);
                    }
                }
            }
        }
        // epilogue
        c.push1(0);
        c.op(0x51);
        c.push1(0x40);
        c.ops(&[0x90, 0x03]);
        c.push1(0x40);
        c.op(if rev { 0xfd } else { 0xf3 });
        let m = (init_off + max_init + 31) / 32 * 32;
        if m > 0xff_ffff {
            return Err("too-large".into());
        }
        c.b[mem_patch..mem_patch + 3].copy_from_slice(&(m as u32).to_be_bytes()[1..]);
        Ok(c)
    }

    /// first pass: the CREATE2 definitions (creator = context address of the frame holding the item)
    fn collect_creates(&mut self, items: &[Item], me: A, in_init: bool, defs: &mut Vec<((u8, u64), String, Vec<Item>, bool)>) -> Result<(), String> {
        for it in items {
            match it {
                Item::Frame { ck, a, body, .. } => {
                    let inner = if matches!(ck, CK::Call | CK::Static) { *a } else { me };
                    self.collect_creates(body, inner, in_init, defs)?;
                }
                Item::Create2 { salt, body, rev, key } => {
                    let c = match me {
                        A::U(c) if !in_init => c,
                        _ => return Err("create2-in-init".into()),
                    };
                    if let Some(d) = defs.iter().find(|d| d.0 == (c, *salt)) {
                        if d.1 != *key {
                            return Err("create2-mismatch".into());
                        }
                    } else {
                        defs.push(((c, *salt), key.clone(), body.clone(), *rev));
                    }
                    self.collect_creates(body, A::N(c, *salt), true, defs)?;
                }
                _ => {}
            }
        }
        Ok(())
    }

    fn host_code(&self, host: u8) -> Result<Vec<u8>, String> {
        let h = &self.hosts[&host];
        let n = h.bodies.len();
        let mut out: Vec<u8> = vec![0x60, 0x00, 0x35, 0x60, 0xf8, 0x1c];
        let disp_len = 6 + 8 * n + 1;
        let mut offs = vec![];
        let mut off = disp_len;
        for b in &h.bodies {
            offs.push(off);
            off += 2 + b.1.as_ref().ok_or("internal")?.b.len();
        }
        let mut init_offs = vec![];
        for i in &h.inits {
            init_offs.push(off);
            off += i.len();
        }
        if off > 0xffff {
            return Err("code-too-large".into());
        }
        for (i, o) in offs.iter().enumerate() {
            out.extend([0x80, 0x60, i as u8, 0x14, 0x61]);
            out.extend((*o as u16).to_be_bytes());
            out.push(0x57);
        }
        out.push(0xfe);
        for b in &h.bodies {
            let code = b.1.as_ref().unwrap();
            out.extend([0x5b, 0x50]);
            let base = out.len();
            out.extend(&code.b);
            for (pos, idx) in &code.fix {
                out[base + pos..base + pos + 2].copy_from_slice(&(init_offs[*idx] as u16).to_be_bytes());
            }
        }
        for i in &h.inits {
            out.extend(i);
        }
        Ok(out)
    }
}

// ---------------------------------------------------------------- executor
pub fn exec_line(line: &str) -> String {
    let l = line.to_string();
    guarded(move || match exec_inner(&l) {
        Ok(s) => s,
        Err(e) => format!("err {e}"),
    })
}

pub struct Built {
    pub db: CacheDB<EmptyDB>,
    pub req: Req,
    pub access_list: Vec<AccessListItem>,
    pub auths: Vec<RecoveredAuthorization>,
    pub n_probes: usize,
    pub top_sel: u8,
    pub codes: BTreeMap<u8, Vec<u8>>,
}

pub fn build(line: &str) -> Result<Built, String> {
    let req = parse_req(line)?;
    let prague = req.spec as u8 >= SpecId::PRAGUE as u8;
    // delegations when execution starts
    let mut dmap: BTreeMap<u8, u8> = BTreeMap::new();
    for (a, t) in &req.dels {
        if !delegable(*a) {
            return Err("bad-delegation".into());
        }
        dmap.insert(*a, *t);
    }
    let pre_dmap = dmap.clone();
    for au in &req.auths {
        if au.authority == SENDER {
            return Err("sender-authority".into());
        }
        match au.kind.as_str() {
            "ok" | "ok0" => {
                if !delegable(au.authority) {
                    return Err("bad-authority".into());
                }
                dmap.insert(au.authority, au.target);
            }
            "code" => {
                if !matches!(kind(au.authority), K::Stop | K::FrameC | K::Helper) {
                    return Err("bad-authority".into());
                }
            }
            _ => {}
        }
    }
    let mut comp = Compiler { prague, dmap: dmap.clone(), hosts: BTreeMap::new(), created: BTreeMap::new() };
    // pass 1: CREATE2 addresses (their init code must not mention created addresses)
    let mut defs = vec![];
    comp.collect_creates(&req.prog, A::U(req.to), false, &mut defs)?;
    for ((c, salt), key, body, rev) in &defs {
        let init = comp.frame_code(None, body, *rev, false, true)?.b;
        let ad = uaddr(*c).create2(B256::from(U256::from(*salt)).0, keccak256(&init));
        comp.created.insert((*c, *salt), (key.clone(), ad));
    }
    // bodies registered while compiling the init codes above stay registered (same keys are reused)
    // pass 2: the top frame is body 0 of the recipient's code host
    let top_host = comp.host_of(A::U(req.to)).map_err(|_| "bad-recipient".to_string())?;
    let top_sel = comp.register(top_host, &req.prog_key, &req.prog, false, false, false)?;
    // ---- database
    let mut db = CacheDB::new(EmptyDB::default());
    let mut codes = BTreeMap::new();
    let put = |db: &mut CacheDB<EmptyDB>, i: u8, balance: u64, nonce: u64, code: Option<Bytecode>| {
        let (code_hash, code) = match code {
            Some(c) => (c.hash_slow(), Some(c)),
            None => (KECCAK_EMPTY, None),
        };
        db.insert_account_info(uaddr(i), AccountInfo { balance: U256::from(balance), nonce, code_hash, code });
    };
    for i in 0..=255u8 {
        match kind(i) {
            K::Absent => {}
            K::Eoa => put(&mut db, i, 1, 0, None),
            K::Sender => put(&mut db, i, 1 << 62, 5, None),
            K::Stop => put(&mut db, i, 0, 1, Some(Bytecode::new_legacy(Bytes::from_static(&[0x00])))),
            K::Helper => put(&mut db, i, 0, 1, Some(Bytecode::new_legacy(Bytes::from_static(HELPER_CODE)))),
            K::FrameC => {
                let code = if comp.hosts.contains_key(&i) { comp.host_code(i)? } else { vec![0x00] };
                codes.insert(i, code.clone());
                put(&mut db, i, 0, 1, Some(Bytecode::new_legacy(Bytes::from(code))));
            }
        }
    }
    let mut nonces: BTreeMap<u8, u64> = BTreeMap::new();
    for (a, t) in &pre_dmap {
        if *t != 0 {
            put(&mut db, *a, 1, 1, Some(Bytecode::new_eip7702(uaddr(*t))));
            nonces.insert(*a, 1);
        }
    }
    // ---- authorization tuples realising the requested kinds
    let mut auths = vec![];
    for au in &req.auths {
        let cur = *nonces.entry(au.authority).or_insert(match kind(au.authority) {
            K::Stop | K::FrameC | K::Helper => 1,
            _ => 0,
        });
        let (chain, nonce, valid) = match au.kind.as_str() {
            "ok" => (1u64, cur, true),
            "ok0" => (0, cur, true),
            "chain" => (2, cur, true),
            "nonce" => (1, cur + 7, true),
            "code" => (1, cur, true),
            "max" => (1, u64::MAX, true),
            _ => (1, cur, false),
        };
        if au.kind == "ok" || au.kind == "ok0" {
            nonces.insert(au.authority, cur + 1);
        }
        auths.push(RecoveredAuthorization::new_unchecked(
            Authorization { chain_id: U256::from(chain), address: uaddr(au.target), nonce },
            if valid { RecoveredAuthority::Valid(uaddr(au.authority)) } else { RecoveredAuthority::Invalid },
        ));
    }
    let mut access_list = vec![];
    for (a, ks) in &req.al {
        access_list.push(AccessListItem {
            address: comp.real(*a)?,
            storage_keys: ks.iter().map(|k| B256::from(U256::from(*k))).collect(),
        });
    }
    let n_probes = count_probes(&req.prog);
    Ok(Built { db, req, access_list, auths, n_probes, top_sel, codes })
}

fn exec_inner(line: &str) -> Result<String, String> {
    let b = build(line)?;
    let Built { db, req, access_list, auths, n_probes, top_sel, .. } = b;
    let mut evm = Evm::builder()
        .with_db(db)
        .with_spec_id(req.spec)
        .modify_block_env(|blk| blk.coinbase = uaddr(req.cb))
        .modify_tx_env(|tx| {
            tx.caller = uaddr(SENDER);
            tx.transact_to = TxKind::Call(uaddr(req.to));
            tx.value = U256::ZERO;
            tx.gas_limit = GAS_LIMIT;
            tx.gas_price = U256::ZERO;
            tx.data = Bytes::from(vec![top_sel]);
            tx.nonce = None;
            tx.access_list = access_list;
            tx.authorization_list = if auths.is_empty() { None } else { Some(auths.into()) };
        })
        .build();
    let rs = evm.transact().map_err(|e| format!("tx:{}", format!("{:?}", e).chars().filter(|c| c.is_ascii_alphanumeric()).take(40).collect::<String>()))?;
    let outp = match rs.result {
        ExecutionResult::Success { output: Output::Call(b), .. } => b,
        ExecutionResult::Success { .. } => return Err("not-a-call".into()),
        ExecutionResult::Revert { .. } => return Err("revert".into()),
        ExecutionResult::Halt { reason, .. } => return Err(format!("halt:{:?}", reason).replace(' ', "")),
    };
    if outp.len() != 32 * n_probes {
        return Err(format!("count:{}/{}", outp.len(), 32 * n_probes));
    }
    if n_probes == 0 {
        return Ok("-".into());
    }
    let v: Vec<String> = outp.chunks(32).map(|c| format!("{}", U256::from_be_slice(c))).collect();
    Ok(v.join(","))
}

// ---------------------------------------------------------------- generator
struct G<'a> {
    rng: &'a mut Rng,
    spec: u8,
    bh: bool,
    cb: u8,
    to: u8,
    dmap: BTreeMap<u8, u8>,
    auth_addrs: Vec<u8>,
    recent: Vec<A>,
    recent_callees: Vec<u8>,
    recent_slots: BTreeMap<A, Vec<u64>>,
    used_slots: BTreeSet<(A, u64)>,
    mentioned: BTreeSet<A>,
    live: BTreeSet<(u8, u64)>,
    defs: BTreeMap<(u8, u64), (Vec<String>, bool)>,
    budget: i64,
    max_depth: usize,
}

const PRECOMPILE_PICKS: &[u8] = &[1, 2, 3, 4, 5, 8, 9, 0x0a, 0x0b, 0x0c, 0x10, 0x11, 0x12, 0x13];

impl<'a> G<'a> {
    fn prague(&self) -> bool {
        self.spec >= 18
    }
    fn note(&mut self, a: A) -> A {
        self.mentioned.insert(a);
        self.recent.push(a);
        if self.recent.len() > 12 {
            self.recent.remove(0);
        }
        a
    }
    fn frame_callees(&mut self) -> Vec<u8> {
        let mut v: Vec<u8> = (0x40..=0x45).collect();
        if self.prague() {
            for (a, t) in &self.dmap {
                if kind(*t) == K::FrameC {
                    v.push(*a);
                }
            }
        }
        v
    }
    fn pick_addr(&mut self, in_init: bool) -> A {
        if !self.recent.is_empty() && self.rng.chance(45, 100) {
            let a = *self.rng.pick(&self.recent);
            if !(in_init && matches!(a, A::N(..))) {
                return self.note(a);
            }
        }
        let a = match self.rng.below(13) {
            0 | 1 => A::U(*self.rng.pick(PRECOMPILE_PICKS)),
            2 => A::U(self.cb),
            3 => A::U(SENDER),
            4 => A::U(self.to),
            5 => A::U(0x20 + self.rng.below(12) as u8),
            6 => A::U(0x30 + self.rng.below(3) as u8),
            7 => A::U(0x40 + self.rng.below(7) as u8),
            8 | 9 => {
                if self.prague() && !(self.auth_addrs.is_empty() && self.dmap.is_empty()) {
                    let mut v = self.auth_addrs.clone();
                    for (a, t) in &self.dmap {
                        v.push(*a);
                        v.push(*t);
                    }
                    A::U(*self.rng.pick(&v))
                } else {
                    A::U(0x60 + self.rng.below(12) as u8)
                }
            }
            10 => {
                if in_init {
                    A::U(0x2d)
                } else {
                    let creators = [self.to, 0x40, 0x41];
                    A::N(*self.rng.pick(&creators), 1 + self.rng.below(2))
                }
            }
            11 => {
                if self.prague() {
                    A::U(0x2e)
                } else {
                    A::U(BH)
                }
            }
            _ => A::U(0),
        };
        self.note(a)
    }
    fn pick_slot(&mut self, me: A) -> u64 {
        let k = match self.recent_slots.get(&me) {
            Some(v) if !v.is_empty() && self.rng.chance(60, 100) => *self.rng.pick(v),
            _ => self.rng.below(4),
        };
        self.recent_slots.entry(me).or_default().push(k);
        self.used_slots.insert((me, k));
        k
    }
    /// items of one frame
    fn frame(&mut self, me: A, st: bool, in_init: bool, depth: usize, out: &mut Vec<String>) {
        self.max_depth = self.max_depth.max(depth);
        let n = 1 + self.rng.below(6);
        for _ in 0..n {
            if self.budget <= 0 {
                break;
            }
            self.budget -= 1;
            let r = self.rng.below(100);
            if r < 30 {
                let a = self.pick_addr(in_init);
                let op = *self.rng.pick(&["bal", "xsz", "xhs", "xcp"]);
                out.push(format!("{}:{}", op, a.tok()));
            } else if r < 33 {
                let a = self.pick_addr(in_init);
                out.push(format!("ub:{}", a.tok()));
            } else if r < 45 {
                let k = self.pick_slot(me);
                out.push(format!("sl:{:x}", k));
            } else if r < 53 {
                let k = self.pick_slot(me);
                out.push(format!("{}:{:x}", if st { "sl" } else { "ss" }, k));
            } else if r < 65 {
                let a = if self.prague() && !self.dmap.is_empty() && self.rng.chance(35, 100) {
                    let ks: Vec<u8> = self.dmap.keys().copied().collect();
                    let a = A::U(*self.rng.pick(&ks));
                    self.note(a)
                } else {
                    self.pick_addr(in_init)
                };
                let op = *self.rng.pick(&["cl", "cl", "sc", "dc", "cc"]);
                out.push(format!("{}:{}", op, a.tok()));
            } else if r < 70 {
                if st {
                    continue;
                }
                let t = self.pick_addr(in_init);
                let hi = 0x80 + self.rng.below(3) as u8;
                let h = self.note(A::U(hi));
                out.push(format!("sd:{}:{}", h.tok(), t.tok()));
            } else if r < 92 {
                if depth >= 4 {
                    continue;
                }
                let callees = self.frame_callees();
                let c = if !self.recent_callees.is_empty() && self.rng.chance(40, 100) {
                    *self.rng.pick(&self.recent_callees)
                } else if self.rng.chance(1, 8) {
                    self.to
                } else {
                    *self.rng.pick(&callees)
                };
                self.recent_callees.push(c);
                self.note(A::U(c));
                if self.prague() {
                    if let Some(t) = self.dmap.get(&c).copied() {
                        self.note(A::U(t));
                    }
                }
                let ck = *self.rng.pick(&["call", "call", "call", "call", "scall", "dcall", "ccall"]);
                let rev = self.rng.chance(45, 100);
                let inner_me = if ck == "call" || ck == "scall" { A::U(c) } else { me };
                let snap = self.live.clone();
                out.push(format!("{}:{:x}", ck, c));
                out.push("{".into());
                self.frame(inner_me, st || ck == "scall", in_init, depth + 1, out);
                out.push("}".into());
                out.push(if rev { "rev" } else { "ret" }.into());
                if rev {
                    self.live = snap;
                }
            } else {
                let c = match me {
                    A::U(c) if !st && !in_init && depth < 4 => c,
                    _ => continue,
                };
                let salt = 1 + self.rng.below(2);
                if self.live.contains(&(c, salt)) {
                    continue;
                }
                let (body, rev) = match self.defs.get(&(c, salt)) {
                    Some(d) => d.clone(),
                    None => {
                        let mut b = vec![];
                        self.frame(A::N(c, salt), false, true, depth + 1, &mut b);
                        let rev = self.rng.chance(40, 100);
                        self.defs.insert((c, salt), (b.clone(), rev));
                        (b, rev)
                    }
                };
                self.note(A::N(c, salt));
                out.push(format!("create2:{:x}", salt));
                out.push("{".into());
                out.extend(body);
                out.push("}".into());
                out.push(if rev { "rev" } else { "ret" }.into());
                if !rev {
                    self.live.insert((c, salt));
                }
            }
        }
    }
}

fn fix_unresolved(toks: &mut [String], defs: &BTreeMap<(u8, u64), (Vec<String>, bool)>) {
    for t in toks.iter_mut() {
        if !t.contains(":n") {
            continue;
        }
        let parts: Vec<String> = t
            .split(':')
            .map(|p| match A::parse(p) {
                Some(A::N(c, s)) if p.starts_with('n') && !defs.contains_key(&(c, s)) => "2c".to_string(),
                _ => p.to_string(),
            })
            .collect();
        *t = parts.join(":");
    }
}

pub fn gen_case(rng: &mut Rng, bh: bool) -> String {
    let spec: u8 = if bh { 18 } else { *rng.pick(&[11u8, 12, 15, 16, 17, 18, 18, 18]) };
    let prague = spec >= 18;
    let cb = *rng.pick(&[0x20u8, 0x2a, 0x31, 0x41, 0x45, 0x61, 0x6a, 0x0a, 0x12, 0x00]);
    let mut dels: Vec<(u8, u8)> = vec![];
    let mut auths: Vec<(String, u8, u8)> = vec![];
    let mut to: u8 = if rng.chance(3, 4) { 0x40 } else { 0x41 + rng.below(3) as u8 };
    if prague {
        let targets: &[u8] = &[0x40, 0x41, 0x42, 0x43, 0x30, 0x31, 0x24, 0x2b, 0x02, 0x62, 0x00, 0x44];
        for _ in 0..*rng.pick(&[0u64, 0, 1, 1, 2, 3]) {
            let a = *rng.pick(&[0x60u8, 0x61, 0x62, 0x69, 0x6a, 0x21, 0x29]);
            if dels.iter().any(|d| d.0 == a) {
                continue;
            }
            let t = *rng.pick(targets);
            if t != 0 {
                dels.push((a, t));
            }
        }
        for _ in 0..*rng.pick(&[0u64, 0, 1, 1, 2, 3, 4]) {
            let k = *rng.pick(&["ok", "ok", "ok", "ok0", "chain", "chain", "nonce", "nonce", "code", "max", "inv", "inv"]);
            let a = if k == "code" {
                *rng.pick(&[0x31u8, 0x32, 0x44, 0x46, 0x81])
            } else {
                *rng.pick(&[0x60u8, 0x61, 0x63, 0x64, 0x68, 0x69, 0x6b, 0x22, 0x2a])
            };
            let t = *rng.pick(targets);
            auths.push((k.to_string(), a, t));
        }
    }
    let mut dmap: BTreeMap<u8, u8> = dels.iter().copied().collect();
    for (k, a, t) in &auths {
        if k == "ok" || k == "ok0" {
            dmap.insert(*a, *t);
        }
    }
    dmap.retain(|_, t| *t != 0);
    if prague && rng.chance(35, 100) {
        // the recipient is a delegated account
        let cands: Vec<u8> = dmap.iter().filter(|(_, t)| kind(**t) == K::FrameC).map(|(a, _)| *a).collect();
        if cands.is_empty() {
            let a = *rng.pick(&[0x65u8, 0x6c, 0x25]);
            let t = *rng.pick(&[0x40u8, 0x41]);
            if rng.chance(1, 2) {
                dels.push((a, t));
            } else {
                auths.push(("ok".into(), a, t));
            }
            dmap.insert(a, t);
            to = a;
        } else {
            to = *rng.pick(&cands);
        }
    }
    let auth_addrs: Vec<u8> = auths.iter().map(|a| a.1).collect();
    let budget = *rng.pick(&[4i64, 8, 12, 20, 30, 45]);
    let mut g = G {
        rng,
        spec,
        bh,
        cb,
        to,
        dmap,
        auth_addrs,
        recent: vec![],
        recent_callees: vec![],
        recent_slots: BTreeMap::new(),
        used_slots: BTreeSet::new(),
        mentioned: BTreeSet::new(),
        live: BTreeSet::new(),
        defs: BTreeMap::new(),
        budget,
        max_depth: 0,
    };
    let mut prog: Vec<String> = vec![];
    if bh {
        // the history contract's address as a first access (and again later)
        let op = *g.rng.pick(&["bal", "xsz", "xhs", "xcp", "cl", "sc"]);
        if g.rng.chance(1, 3) {
            let a = g.pick_addr(false);
            prog.push(format!("bal:{}", a.tok()));
        }
        if g.rng.chance(1, 4) {
            prog.push(format!("sd:80:{:x}", BH));
        } else {
            prog.push(format!("{}:{:x}", op, BH));
        }
        g.recent.push(A::U(BH));
    }
    if prague {
        // authorities, delegated accounts and delegation targets are probed early
        for (_, a, t) in auths.iter() {
            if g.rng.chance(1, 2) {
                let op = *g.rng.pick(&["bal", "xsz", "xhs", "xcp", "cl"]);
                prog.push(format!("{}:{:x}", op, a));
                g.note(A::U(*a));
                g.budget -= 1;
            }
            if g.rng.chance(1, 4) {
                prog.push(format!("bal:{:x}", t));
                g.note(A::U(*t));
                g.budget -= 1;
            }
        }
        for (a, t) in dels.iter() {
            if g.rng.chance(2, 5) {
                let op = *g.rng.pick(&["cl", "sc", "dc", "cc", "xsz"]);
                prog.push(format!("{}:{:x}", op, a));
                g.note(A::U(*a));
                g.budget -= 1;
            }
            if g.rng.chance(1, 5) {
                prog.push(format!("xhs:{:x}", t));
                g.note(A::U(*t));
                g.budget -= 1;
            }
        }
        if g.budget <= 0 {
            g.budget = 2;
        }
    }
    while g.budget > 0 {
        g.frame(A::U(to), false, false, 0, &mut prog);
    }
    let _ = g.bh;
    fix_unresolved(&mut prog, &g.defs);
    // access list from what the program mentions
    let mut al: Vec<(A, Vec<u64>)> = vec![];
    let mentioned: Vec<A> = g
        .mentioned
        .iter()
        .copied()
        .filter(|a| match a {
            A::N(c, s) => g.defs.contains_key(&(*c, *s)),
            A::U(i) => !(bh && *i == BH),
        })
        .collect();
    let used: Vec<(A, u64)> = g.used_slots.iter().copied().collect();
    let n_al = *g.rng.pick(&[0u64, 0, 0, 1, 1, 2, 3, 5]);
    for _ in 0..n_al {
        if !al.is_empty() && g.rng.chance(15, 100) {
            let mut e = g.rng.pick(&al).clone();
            if g.rng.chance(1, 2) {
                e.1 = vec![g.rng.below(4)];
            }
            al.push(e);
            continue;
        }
        if !used.is_empty() && g.rng.chance(50, 100) {
            let (a, k) = *g.rng.pick(&used);
            let mut ks = vec![k];
            for (b, j) in &used {
                if *b == a && g.rng.chance(1, 3) {
                    ks.push(*j);
                }
            }
            if g.rng.chance(1, 4) {
                ks.push(g.rng.below(5));
            }
            al.push((a, ks));
        } else if !mentioned.is_empty() && g.rng.chance(80, 100) {
            let a = *g.rng.pick(&mentioned);
            let ks = if g.rng.chance(1, 4) { vec![g.rng.below(4)] } else { vec![] };
            al.push((a, ks));
        } else {
            al.push((A::U(*g.rng.pick(&[0x2fu8, 0x46, 0x01, 0x13, SENDER])), vec![]));
        }
    }
    let fmt_list = |v: Vec<String>| if v.is_empty() { "-".to_string() } else { v.join(";") };
    let al_s = fmt_list(
        al.iter()
            .map(|(a, ks)| {
                if ks.is_empty() {
                    a.tok()
                } else {
                    format!("{}:{}", a.tok(), ks.iter().map(|k| format!("{:x}", k)).collect::<Vec<_>>().join(","))
                }
            })
            .collect(),
    );
    let dels_s = fmt_list(dels.iter().map(|(a, t)| format!("{:x}>{:x}", a, t)).collect());
    let auths_s = fmt_list(auths.iter().map(|(k, a, t)| format!("{}:{:x}>{:x}", k, a, t)).collect());
    format!("acctx bh={} {} {:x} {:x} {} {} {} {}", b01(bh), spec, cb, to, al_s, dels_s, auths_s, prog.join(" "))
}

/// hand-written lines: the fork boundaries of the pre-warmed sets, and the revert shapes named in the property
pub fn fixed_lines() -> Vec<String> {
    let mut v = vec![];
    for spec in [11u8, 12, 15, 16, 17, 18] {
        // precompile set, coinbase, sender, recipient per fork
        v.push(format!(
            "acctx bh=0 {spec} 2a 40 - - - bal:1 xsz:9 xhs:a bal:b xcp:11 bal:12 bal:2a bal:f0 bal:40 cl:a sc:b cl:2a bal:2a sl:0 sl:0 ss:1 ss:1"
        ));
        // an access inside a reverting frame is forgotten; access list and pre-warmed addresses are not
        v.push(format!(
            "acctx bh=0 {spec} 2a 40 41:1;2b - - call:41 {{ sl:1 sl:2 bal:2b bal:2c bal:2a bal:9 bal:f0 }} rev bal:2b bal:2c bal:2a bal:9 bal:f0 call:41 {{ sl:1 sl:2 }} ret call:41 {{ sl:1 sl:2 }} rev"
        ));
        // a reverting frame inside a returning frame inside a reverting frame
        v.push(format!(
            "acctx bh=0 {spec} 20 40 - - - call:41 {{ bal:21 call:42 {{ bal:22 call:43 {{ bal:23 sl:0 }} rev bal:23 }} ret bal:22 bal:23 }} rev bal:21 bal:22 bal:23 call:43 {{ sl:0 }} ret"
        ));
        // CREATE2 repeated with the same salt and init code; the created address and one of its slots in the access list
        v.push(format!(
            "acctx bh=0 {spec} 20 40 n40.1:1 - - create2:1 {{ sl:1 sl:2 ss:2 bal:2d }} rev bal:n40.1 bal:2d create2:1 {{ sl:1 sl:2 ss:2 bal:2d }} rev call:41 {{ create2:1 {{ sl:0 }} ret bal:n41.1 }} rev bal:n41.1 call:41 {{ create2:1 {{ sl:0 }} ret }} ret"
        ));
        v.push(format!(
            "acctx bh=0 {spec} 20 40 - - - bal:n40.2 call:40 {{ create2:2 {{ sl:3 cl:2d }} ret cl:n40.2 }} rev bal:n40.2 bal:2d create2:2 {{ sl:3 cl:2d }} ret dc:n40.2 sd:80:2e sd:81:2e sd:80:80 dcall:42 {{ sl:3 ss:3 }} rev sl:3"
        ));
    }
    // Prague: authorities, delegation targets, delegated recipient
    v.push("acctx bh=0 18 20 60 - 60>40;61>30 ok:62>31;chain:63>31;nonce:64>31;code:32>31;max:68>31;inv:69>31;ok0:6a>0 bal:60 bal:40 bal:62 bal:63 bal:64 bal:32 bal:68 bal:69 bal:6a bal:31 cl:61 cl:61 cl:62 xsz:61 bal:30".into());
    v.push("acctx bh=0 18 20 65 - - ok:65>41;ok:66>42 sl:0 bal:41 call:66 { sl:0 bal:42 bal:2b } rev bal:42 bal:2b cl:66 dcall:66 { sl:0 sl:1 } rev sl:1 scall:66 { sl:0 sc:66 } ret".into());
    v.push("acctx bh=0 18 20 40 61 61>62;62>30 ok:61>2b;ok:61>43;nonce:61>30 cl:61 bal:43 bal:2b bal:62 call:61 { cl:62 bal:30 } rev cl:62 bal:30".into());
    v
}

pub fn gen(seed: u64, n: usize) -> Vec<String> {
    let mut rng = Rng::new(seed ^ 0xc34_7a);
    let mut lines = fixed_lines();
    for _ in 0..n {
        lines.push(gen_case(&mut rng, false));
    }
    // malformed lines: both sides answer `err parse`
    lines.push("acctx bh=0 18 20 40 - - - bal:20 }".into());
    lines.push("acctx bh=0 18 20 40 - - - call:41 { bal:20".into());
    lines.push("acctx bh=2 18 20 40 - - - bal:20".into());
    lines.push("acctx bh=0 18 20 40 - - - foo:20".into());
    lines.push("acctx bh=0 10 20 40 - - - bal:20".into());
    lines.push("acctx bh=0 17 20 40 - 60>40 - bal:20".into());
    // the separate region of the known disagreement (Prague pre-warms BLOCKHASH_STORAGE_ADDRESS)
    for _ in 0..(n / 100).max(3) {
        lines.push(gen_case(&mut rng, true));
    }
    lines
}

fn tally(line: &str, reply: &str, out: &mut Out) {
    let t: Vec<&str> = line.split(' ').collect();
    if t.len() < 8 {
        return;
    }
    out.count(&format!("region_{}", t[1]));
    out.count(&format!("fork_{}", t[2]));
    let mut depth = 0usize;
    let mut max_depth = 0usize;
    let mut revs = 0usize;
    let mut callees: Vec<&str> = vec![];
    let mut twice = false;
    for (i, tok) in t[8..].iter().enumerate() {
        match *tok {
            "{" => {
                depth += 1;
                max_depth = max_depth.max(depth);
            }
            "}" => depth = depth.saturating_sub(1),
            "rev" => revs += 1,
            "ret" => {}
            _ => {
                let op = tok.split(':').next().unwrap_or("");
                out.count(&format!("item_{op}"));
                if t[8..].get(i + 1) == Some(&"{") && op != "create2" {
                    let a = tok.split(':').nth(1).unwrap_or("");
                    if callees.contains(&a) {
                        twice = true;
                    }
                    callees.push(a);
                }
            }
        }
    }
    out.count(&format!("depth_{max_depth}"));
    out.count(&format!("reverting_frames_{}", if revs > 5 { "6+".to_string() } else { revs.to_string() }));
    if twice {
        out.count("same_address_called_twice");
    }
    let al = split_list(t[5], ';');
    out.count(&format!("accesslist_entries_{}", al.len()));
    let nslots: usize = al.iter().map(|e| e.split_once(':').map(|x| x.1.split(',').count()).unwrap_or(0)).sum();
    out.count(&format!("accesslist_slots_{}", if nslots > 3 { "4+".to_string() } else { nslots.to_string() }));
    if al.iter().any(|e| e.starts_with('n')) {
        out.count("accesslist_has_created_address");
    }
    for a in split_list(t[7], ';') {
        out.count(&format!("auth_{}", a.split(':').next().unwrap_or("")));
    }
    out.count(&format!("predelegations_{}", split_list(t[6], ';').len()));
    if t[2] == "18" {
        let to = t[4];
        if split_list(t[6], ';').iter().any(|d| d.split('>').next() == Some(to))
            || split_list(t[7], ';').iter().any(|d| d.split(':').nth(1).and_then(|x| x.split('>').next()) == Some(to))
        {
            out.count("recipient_delegated");
        }
    }
    if !reply.starts_with("err") {
        let np = if reply == "-" { 0 } else { reply.split(',').count() };
        out.count(&format!("probes_{}", match np { 0 => "0", 1..=4 => "1-4", 5..=9 => "5-9", 10..=19 => "10-19", 20..=39 => "20-39", _ => "40+" }));
    }
    let kind = if reply.starts_with("err") { reply.split(':').next().unwrap_or("err").replace(' ', "_") } else { "prices".into() };
    out.count(&format!("reply_{kind}"));
    if !reply.starts_with("err") && reply != "-" {
        for p in reply.split(',') {
            out.count(&format!("price_{p}"));
        }
    }
}

pub fn run(seed: u64, n: usize, replay: Option<Vec<String>>, out: &mut Out) {
    let lines = replay.unwrap_or_else(|| gen(seed, n));
    for l in lines {
        let r = exec_line(&l);
        tally(&l, &r, out);
        out.push(l, r);
    }
}
