//! C15 (`statedb`): `revm::db::State` built by `StateBuilder` over a generated map database,
//! driven by read / commit / increment / drain request lines; every read is also compared with an
//! independent in-harness `BTreeMap` reference; `tx` lines run a real transaction on a copy of the
//! State and on a `CacheDB` fed with the same commits and compare the results.
//!
//! requests (tokens are hex unless noted):
//!   begin statedb <sc> <bu> <region> U <n> <addr>* S <n> <slot>* DB <n> (<addr> <bal> <nonce> <hash> <code|none> <m> (<k> <v>)*)* CODES <n> (<hash> <bytes>)*
//!   every following line of the case starts with the token `sdb`:
//!   basic <addr> | storage <addr> <slot> | code <hash> | probe
//!   commit <n> (<addr> <flags:1=touched,2=created,4=selfdestructed> <bal> <nonce> <hash> <code|none> <m> (<k> <orig> <present>)*)*
//!   inc <n> (<addr> <amount>)* | drain <n> <addr>*
//!   tx <spec_u8> <caller> <to|create> <value> <gas> <data>
//! replies: `ok` | `none` | `some <bal> <nonce> <hash> <code>` | `<word>` | `<bytes>` |
//!   `ok ts=<0|1> T <n> (<addr> <prev> <status> <previnfo> <info> <wiped> <m> (<k> <o> <p>)*)*` |
//!   `ok <bal>*` | `cachedb=eq` | `panic` | `dead` (after a panic) | `bad-op`
use crate::*;
use revm::db::states::{CacheAccount, StorageSlot};
use revm::db::{
    AccountStatus, BundleAccount, BundleState, CacheDB, DatabaseRef, State, StateBuilder,
    TransitionAccount, WrapDatabaseRef,
};
use revm::primitives::{
    keccak256, Account, AccountInfo, Address, Bytecode, Bytes, EvmState, EvmStorageSlot,
    ExecutionResult, HashMap, SpecId, TxKind, B256, KECCAK_EMPTY, U256,
};
use revm::{Database, DatabaseCommit, Evm};
use std::collections::{BTreeMap, BTreeSet};
use std::convert::Infallible;

pub type Store = BTreeMap<U256, U256>;

#[derive(Clone, Default, Debug)]
pub struct MapDb {
    pub accts: BTreeMap<Address, (AccountInfo, Store)>,
    pub codes: BTreeMap<B256, Bytecode>,
}
impl DatabaseRef for MapDb {
    type Error = Infallible;
    fn basic_ref(&self, a: Address) -> Result<Option<AccountInfo>, Infallible> {
        Ok(self.accts.get(&a).map(|x| x.0.clone()))
    }
    fn code_by_hash_ref(&self, h: B256) -> Result<Bytecode, Infallible> {
        Ok(self.codes.get(&h).cloned().unwrap_or_else(|| Bytecode::new_raw(Bytes::new())))
    }
    fn storage_ref(&self, a: Address, k: U256) -> Result<U256, Infallible> {
        Ok(self.accts.get(&a).and_then(|x| x.1.get(&k).copied()).unwrap_or_default())
    }
    fn block_hash_ref(&self, n: u64) -> Result<B256, Infallible> {
        Ok(keccak256(n.to_be_bytes()))
    }
}

pub type St = State<WrapDatabaseRef<MapDb>>;

pub fn addr(n: U256) -> Address {
    Address::from_word(B256::from(n))
}
pub fn addr_u(a: Address) -> U256 {
    U256::from_be_slice(a.as_slice())
}
pub fn hash_u(h: B256) -> U256 {
    U256::from_be_bytes(h.0)
}
pub fn code_bytes(c: &Bytecode) -> Vec<u8> {
    c.original_bytes().to_vec()
}

// ---------------------------------------------------------------- tokens
pub struct Toks<'a> {
    pub t: Vec<&'a str>,
    pub i: usize,
}
impl<'a> Toks<'a> {
    pub fn new(line: &'a str) -> Self {
        Toks { t: line.split(' ').collect(), i: 0 }
    }
    pub fn next(&mut self) -> Option<&'a str> {
        let r = self.t.get(self.i).copied();
        self.i += 1;
        r
    }
    pub fn hex(&mut self) -> Option<U256> {
        let s = self.next()?;
        if s.is_empty() || s.len() > 64 {
            return None;
        }
        U256::from_str_radix(s, 16).ok()
    }
    pub fn num(&mut self) -> Option<usize> {
        let v = self.hex()?;
        if v > U256::from(100000u64) {
            return None;
        }
        Some(v.to::<usize>())
    }
    pub fn expect(&mut self, w: &str) -> Option<()> {
        if self.next()? == w { Some(()) } else { None }
    }
    pub fn done(&self) -> bool {
        self.i >= self.t.len()
    }
}
pub fn parse_bytes(s: &str) -> Option<Vec<u8>> {
    if s == "-" {
        return Some(vec![]);
    }
    if s.len() % 2 != 0 {
        return None;
    }
    (0..s.len() / 2).map(|i| u8::from_str_radix(s.get(2 * i..2 * i + 2)?, 16).ok()).collect()
}
pub fn parse_code_opt(s: &str) -> Option<Option<Bytecode>> {
    if s == "none" {
        return Some(None);
    }
    Some(Some(Bytecode::new_raw(Bytes::from(parse_bytes(s)?))))
}
/// `<bal> <nonce> <hash> <code|none>`
pub fn parse_info(t: &mut Toks) -> Option<AccountInfo> {
    let balance = t.hex()?;
    let nonce = t.hex()?;
    if nonce > U256::from(u64::MAX) {
        return None;
    }
    let hash = t.hex()?;
    let code = parse_code_opt(t.next()?)?;
    Some(AccountInfo { balance, nonce: nonce.to::<u64>(), code_hash: B256::from(hash), code })
}
/// `none` | `i:<bal>:<nonce>:<hash>:<code|none>`
pub fn parse_info_opt(s: &str) -> Option<Option<AccountInfo>> {
    if s == "none" {
        return Some(None);
    }
    let p: Vec<&str> = s.split(':').collect();
    if p.len() != 5 || p[0] != "i" {
        return None;
    }
    let line = format!("{} {} {} {}", p[1], p[2], p[3], p[4]);
    let mut t = Toks::new(&line);
    parse_info(&mut t).map(Some)
}
pub fn fmt_code_opt(c: &Option<Bytecode>) -> String {
    match c {
        None => "none".into(),
        Some(c) => hxb(&code_bytes(c)),
    }
}
pub fn fmt_info(i: &AccountInfo) -> String {
    format!("{} {:x} {} {}", hx(i.balance), i.nonce, hx(hash_u(i.code_hash)), fmt_code_opt(&i.code))
}
pub fn fmt_info_opt(i: &Option<AccountInfo>) -> String {
    match i {
        None => "none".into(),
        Some(i) => format!("i:{}:{:x}:{}:{}", hx(i.balance), i.nonce, hx(hash_u(i.code_hash)), fmt_code_opt(&i.code)),
    }
}
pub fn status_name(s: AccountStatus) -> &'static str {
    match s {
        AccountStatus::LoadedNotExisting => "LNE",
        AccountStatus::Loaded => "L",
        AccountStatus::LoadedEmptyEIP161 => "LE",
        AccountStatus::InMemoryChange => "IMC",
        AccountStatus::Changed => "C",
        AccountStatus::Destroyed => "D",
        AccountStatus::DestroyedChanged => "DC",
        AccountStatus::DestroyedAgain => "DA",
    }
}
pub fn parse_status(s: &str) -> Option<AccountStatus> {
    Some(match s {
        "LNE" => AccountStatus::LoadedNotExisting,
        "L" => AccountStatus::Loaded,
        "LE" => AccountStatus::LoadedEmptyEIP161,
        "IMC" => AccountStatus::InMemoryChange,
        "C" => AccountStatus::Changed,
        "D" => AccountStatus::Destroyed,
        "DC" => AccountStatus::DestroyedChanged,
        "DA" => AccountStatus::DestroyedAgain,
        _ => return None,
    })
}

// ---------------------------------------------------------------- case header
pub struct Header {
    pub sc: bool,
    pub bu: bool,
    pub region: String,
    pub uni_a: Vec<Address>,
    pub uni_s: Vec<U256>,
    pub db: MapDb,
}
/// parses `U … S … DB … CODES …`
pub fn parse_world(t: &mut Toks) -> Option<(Vec<Address>, Vec<U256>, MapDb)> {
    t.expect("U")?;
    let n = t.num()?;
    let mut uni_a = vec![];
    for _ in 0..n {
        uni_a.push(addr(t.hex()?));
    }
    t.expect("S")?;
    let n = t.num()?;
    let mut uni_s = vec![];
    for _ in 0..n {
        uni_s.push(t.hex()?);
    }
    t.expect("DB")?;
    let n = t.num()?;
    let mut db = MapDb::default();
    for _ in 0..n {
        let a = addr(t.hex()?);
        let info = parse_info(t)?;
        let m = t.num()?;
        let mut st = Store::new();
        for _ in 0..m {
            let k = t.hex()?;
            let v = t.hex()?;
            st.insert(k, v);
        }
        db.accts.insert(a, (info, st));
    }
    t.expect("CODES")?;
    let n = t.num()?;
    for _ in 0..n {
        let h = B256::from(t.hex()?);
        let b = parse_bytes(t.next()?)?;
        db.codes.insert(h, Bytecode::new_raw(Bytes::from(b)));
    }
    Some((uni_a, uni_s, db))
}
pub fn fmt_world(uni_a: &[Address], uni_s: &[U256], db: &MapDb) -> String {
    let mut s = format!("U {:x}", uni_a.len());
    for a in uni_a {
        s += &format!(" {}", hx(addr_u(*a)));
    }
    s += &format!(" S {:x}", uni_s.len());
    for k in uni_s {
        s += &format!(" {}", hx(*k));
    }
    s += &format!(" DB {:x}", db.accts.len());
    for (a, (i, st)) in &db.accts {
        s += &format!(" {} {} {:x}", hx(addr_u(*a)), fmt_info(i), st.len());
        for (k, v) in st {
            s += &format!(" {} {}", hx(*k), hx(*v));
        }
    }
    s += &format!(" CODES {:x}", db.codes.len());
    for (h, c) in &db.codes {
        s += &format!(" {} {}", hx(hash_u(*h)), hxb(&code_bytes(c)));
    }
    s
}
pub fn parse_begin(line: &str) -> Option<Header> {
    let mut t = Toks::new(line);
    t.expect("begin")?;
    t.expect("statedb")?;
    let sc = t.hex()? == U256::from(1);
    let bu = t.hex()? == U256::from(1);
    let region = t.next()?.to_string();
    let (uni_a, uni_s, db) = parse_world(&mut t)?;
    if !t.done() {
        return None;
    }
    Some(Header { sc, bu, region, uni_a, uni_s, db })
}

pub fn build_state(db: &MapDb, sc: bool, bu: bool, pre: Option<BundleState>) -> St {
    let mut b = StateBuilder::new().with_database_ref(db.clone());
    if !sc {
        b = b.without_state_clear();
    }
    if bu {
        b = b.with_bundle_update();
    }
    if let Some(p) = pre {
        b = b.with_bundle_prestate(p);
    }
    b.build()
}
pub fn clone_state(st: &St) -> St {
    State {
        cache: st.cache.clone(),
        database: WrapDatabaseRef(st.database.0.clone()),
        transition_state: None,
        bundle_state: st.bundle_state.clone(),
        use_preloaded_bundle: st.use_preloaded_bundle,
        block_hashes: BTreeMap::new(),
    }
}

// ---------------------------------------------------------------- commit lines
pub fn parse_commit(t: &mut Toks) -> Option<Vec<(Address, Account)>> {
    let n = t.num()?;
    let mut v = vec![];
    for _ in 0..n {
        let a = addr(t.hex()?);
        let flags = t.num()?;
        if flags > 7 {
            return None;
        }
        let info = parse_info(t)?;
        let m = t.num()?;
        let mut storage = HashMap::default();
        for _ in 0..m {
            let k = t.hex()?;
            let o = t.hex()?;
            let p = t.hex()?;
            storage.insert(k, EvmStorageSlot::new_changed(o, p));
        }
        let mut acc = Account { info, storage, status: revm::primitives::AccountStatus::Loaded };
        if flags & 1 != 0 {
            acc.mark_touch();
        }
        if flags & 2 != 0 {
            acc.mark_created();
        }
        if flags & 4 != 0 {
            acc.mark_selfdestruct();
        }
        v.push((a, acc));
    }
    Some(v)
}
pub fn fmt_commit(accts: &[(Address, Account)]) -> String {
    let mut s = format!("commit {:x}", accts.len());
    for (a, acc) in accts {
        let flags = (acc.is_touched() as u8) | ((acc.is_created() as u8) << 1) | ((acc.is_selfdestructed() as u8) << 2);
        let slots: BTreeMap<U256, &EvmStorageSlot> = acc.storage.iter().map(|(k, v)| (*k, v)).collect();
        s += &format!(" {} {} {} {:x}", hx(addr_u(*a)), flags, fmt_info(&acc.info), slots.len());
        for (k, v) in slots {
            s += &format!(" {} {} {}", hx(k), hx(v.original_value), hx(v.present_value));
        }
    }
    s
}
pub fn fmt_transitions(mut tr: Vec<(Address, TransitionAccount)>) -> String {
    tr.sort_by_key(|x| x.0);
    let mut s = format!("T {:x}", tr.len());
    for (a, t) in tr {
        let slots: BTreeMap<U256, StorageSlot> = t.storage.iter().map(|(k, v)| (*k, *v)).collect();
        s += &format!(
            " {} {} {} {} {} {} {:x}",
            hx(addr_u(a)),
            status_name(t.previous_status),
            status_name(t.status),
            fmt_info_opt(&t.previous_info),
            fmt_info_opt(&t.info),
            b01(t.storage_was_destroyed),
            slots.len()
        );
        for (k, v) in slots {
            s += &format!(" {} {} {}", hx(k), hx(v.previous_or_original_value), hx(v.present_value));
        }
    }
    s
}

// ---------------------------------------------------------------- in-harness reference (plain map)
#[derive(Clone, Default)]
pub struct RefState {
    pub m: BTreeMap<Address, (AccountInfo, Store)>,
}
impl RefState {
    pub fn from_db(db: &MapDb) -> Self {
        RefState { m: db.accts.clone() }
    }
    pub fn commit(&mut self, sc: bool, accts: &[(Address, Account)]) {
        for (a, acc) in accts {
            if !acc.is_touched() {
                continue;
            }
            if acc.is_selfdestructed() {
                self.m.remove(a);
                continue;
            }
            let changed: Vec<(U256, U256)> =
                acc.storage.iter().filter(|(_, s)| s.is_changed()).map(|(k, s)| (*k, s.present_value)).collect();
            if acc.is_created() {
                self.m.insert(*a, (acc.info.clone(), changed.into_iter().collect()));
                continue;
            }
            if acc.info.is_empty() && sc {
                self.m.remove(a);
                continue;
            }
            let e = self.m.entry(*a).or_insert_with(|| (AccountInfo::default(), Store::new()));
            e.0 = acc.info.clone();
            for (k, v) in changed {
                e.1.insert(k, v);
            }
        }
    }
    pub fn storage(&self, a: Address, k: U256) -> U256 {
        self.m.get(&a).and_then(|x| x.1.get(&k).copied()).unwrap_or_default()
    }
}
pub fn view_of(i: &AccountInfo, resolve: &mut dyn FnMut(B256) -> Vec<u8>) -> String {
    let code = match &i.code {
        Some(c) => code_bytes(c),
        None => {
            if i.code_hash == KECCAK_EMPTY { vec![] } else { resolve(i.code_hash) }
        }
    };
    format!("some {} {:x} {} {}", hx(i.balance), i.nonce, hx(hash_u(i.code_hash)), hxb(&code))
}

// ---------------------------------------------------------------- the case executor
pub struct Case {
    pub st: Option<St>,
    pub cdb: CacheDB<MapDb>,
    pub refs: RefState,
    pub h: Header,
    pub ref_checks: u64,
    pub ref_mismatch: u64,
    pub saw_tx: bool,
}

pub fn read_basic(st: &mut St, a: Address) -> String {
    match st.basic(a).unwrap() {
        None => "none".into(),
        Some(i) => {
            let mut f = |h: B256| code_bytes(&st.code_by_hash(h).unwrap());
            view_of(&i, &mut f)
        }
    }
}
pub fn ref_basic(refs: &RefState, db: &MapDb, a: Address) -> String {
    match refs.m.get(&a) {
        None => "none".into(),
        Some((i, _)) => {
            let mut f = |h: B256| code_bytes(&db.code_by_hash_ref(h).unwrap());
            view_of(i, &mut f)
        }
    }
}
pub fn probe(st: &St, uni_a: &[Address], uni_s: &[U256]) -> String {
    let mut c = clone_state(st);
    let mut parts = vec![];
    for a in uni_a {
        let b = read_basic(&mut c, *a).replace(' ', ",");
        let vals: Vec<String> = uni_s.iter().map(|k| hx(c.storage(*a, *k).unwrap())).collect();
        parts.push(format!("{}={}[{}]", hx(addr_u(*a)), b, vals.join(",")));
    }
    parts.join(" ")
}
pub fn ref_probe(refs: &RefState, db: &MapDb, uni_a: &[Address], uni_s: &[U256]) -> String {
    let mut parts = vec![];
    for a in uni_a {
        let b = ref_basic(refs, db, *a).replace(' ', ",");
        let vals: Vec<String> = uni_s.iter().map(|k| hx(refs.storage(*a, *k))).collect();
        parts.push(format!("{}={}[{}]", hx(addr_u(*a)), b, vals.join(",")));
    }
    parts.join(" ")
}

/// normalised execution outcome for the State-vs-CacheDB comparison
fn norm_outcome(r: &Result<revm::primitives::ResultAndState, String>) -> String {
    match r {
        Err(e) => format!("err {e}"),
        Ok(rs) => {
            let res = match &rs.result {
                ExecutionResult::Success { reason, gas_used, gas_refunded, logs, output } => {
                    format!("ok {:?} {} {} {} {}", reason, gas_used, gas_refunded, logs.len(), hxb(output.data()))
                }
                ExecutionResult::Revert { gas_used, output } => format!("revert {} {}", gas_used, hxb(output)),
                ExecutionResult::Halt { reason, gas_used } => format!("halt {:?} {}", reason, gas_used),
            };
            let mut accts: Vec<String> = vec![];
            let sorted: BTreeMap<Address, &Account> = rs.state.iter().map(|(a, b)| (*a, b)).collect();
            for (a, acc) in sorted {
                let slots: BTreeMap<U256, &EvmStorageSlot> = acc.storage.iter().map(|(k, v)| (*k, v)).collect();
                let sl: Vec<String> = slots
                    .iter()
                    .filter(|(_, v)| v.is_changed())
                    .map(|(k, v)| format!("{}:{}", hx(*k), hx(v.present_value)))
                    .collect();
                accts.push(format!(
                    "{}:{}{}{}:{}:{:x}:{}:[{}]",
                    hx(addr_u(a)),
                    b01(acc.is_touched()),
                    b01(acc.is_created()),
                    b01(acc.is_selfdestructed()),
                    hx(acc.info.balance),
                    acc.info.nonce,
                    hx(hash_u(acc.info.code_hash)),
                    sl.join(",")
                ));
            }
            format!("{} | {}", res, accts.join(" "))
        }
    }
}

pub struct TxReq {
    pub spec: SpecId,
    pub caller: Address,
    pub to: Option<Address>,
    pub value: U256,
    pub gas: u64,
    pub data: Vec<u8>,
}
pub fn parse_tx(t: &mut Toks) -> Option<TxReq> {
    let spec = SpecId::try_from_u8(t.num()? as u8)?;
    let caller = addr(t.hex()?);
    let to = match t.next()? {
        "create" => None,
        s => Some(addr(U256::from_str_radix(s, 16).ok()?)),
    };
    let value = t.hex()?;
    let gas = t.hex()?;
    if gas > U256::from(30_000_000u64) {
        return None;
    }
    let data = parse_bytes(t.next()?)?;
    Some(TxReq { spec, caller, to, value, gas: gas.to::<u64>(), data })
}
pub fn fmt_tx(r: &TxReq) -> String {
    format!(
        "tx {:x} {} {} {} {:x} {}",
        r.spec as u8,
        hx(addr_u(r.caller)),
        r.to.map(|a| hx(addr_u(a))).unwrap_or("create".into()),
        hx(r.value),
        r.gas,
        hxb(&r.data)
    )
}
pub fn run_tx<DB: Database>(db: DB, r: &TxReq) -> Result<revm::primitives::ResultAndState, String>
where
    DB::Error: std::fmt::Debug,
{
    let mut evm = Evm::builder()
        .with_db(db)
        .with_spec_id(r.spec)
        .modify_tx_env(|tx| {
            tx.caller = r.caller;
            tx.transact_to = match r.to {
                Some(a) => TxKind::Call(a),
                None => TxKind::Create,
            };
            tx.value = r.value;
            tx.gas_limit = r.gas;
            tx.gas_price = U256::ZERO;
            tx.data = Bytes::from(r.data.clone());
            tx.nonce = None;
        })
        .build();
    evm.transact().map_err(|e| format!("{:?}", e).chars().take(60).collect())
}

impl Case {
    pub fn new(h: Header) -> Self {
        let st = build_state(&h.db, h.sc, h.bu, None);
        let cdb = CacheDB::new(h.db.clone());
        let refs = RefState::from_db(&h.db);
        Case { st: Some(st), cdb, refs, h, ref_checks: 0, ref_mismatch: 0, saw_tx: false }
    }
    fn with_ref(&mut self, real: String, reference: String) -> String {
        self.ref_checks += 1;
        if real != reference {
            self.ref_mismatch += 1;
            if self.h.region == "valid" {
                return format!("{} !ref={}", real, reference.replace(' ', "_"));
            }
        }
        real
    }
    pub fn exec(&mut self, line: &str) -> String {
        if self.st.is_none() {
            return "dead".into();
        }
        let mut t = Toks::new(line);
        let op = t.next().unwrap_or("");
        let r = self.exec_op(op, &mut t);
        match r {
            Some(s) => s,
            None => "bad-op".into(),
        }
    }
    fn exec_op(&mut self, op: &str, t: &mut Toks) -> Option<String> {
        let sc = self.h.sc;
        match op {
            "basic" => {
                let a = addr(t.hex()?);
                if !t.done() {
                    return None;
                }
                let st = self.st.as_mut().unwrap();
                let real = read_basic(st, a);
                let rf = ref_basic(&self.refs, &self.h.db, a);
                Some(self.with_ref(real, rf))
            }
            "storage" => {
                let a = addr(t.hex()?);
                let k = t.hex()?;
                if !t.done() {
                    return None;
                }
                let mut st = self.st.take().unwrap();
                let r = std::panic::catch_unwind(std::panic::AssertUnwindSafe(|| st.storage(a, k).unwrap()));
                match r {
                    Ok(v) => {
                        self.st = Some(st);
                        let rf = hx(self.refs.storage(a, k));
                        Some(self.with_ref(hx(v), rf))
                    }
                    Err(_) => Some("panic".into()),
                }
            }
            "code" => {
                let h = B256::from(t.hex()?);
                if !t.done() {
                    return None;
                }
                let st = self.st.as_mut().unwrap();
                let real = hxb(&code_bytes(&st.code_by_hash(h).unwrap()));
                let rf = hxb(&code_bytes(&self.h.db.code_by_hash_ref(h).unwrap()));
                Some(self.with_ref(real, rf))
            }
            "probe" => {
                if !t.done() {
                    return None;
                }
                let real = probe(self.st.as_ref().unwrap(), &self.h.uni_a, &self.h.uni_s);
                let rf = ref_probe(&self.refs, &self.h.db, &self.h.uni_a, &self.h.uni_s);
                Some(self.with_ref(real, rf))
            }
            "commit" => {
                let accts = parse_commit(t)?;
                if !t.done() {
                    return None;
                }
                let mut st = self.st.take().unwrap();
                let evm_state: EvmState = accts.iter().cloned().collect();
                if evm_state.len() != accts.len() {
                    self.st = Some(st);
                    return None; // duplicate addresses cannot occur in a HashMap
                }
                let mut cache2 = st.cache.clone();
                let es2 = evm_state.clone();
                let r = std::panic::catch_unwind(std::panic::AssertUnwindSafe(move || {
                    let tr = cache2.apply_evm_state(es2);
                    st.commit(evm_state);
                    (st, tr)
                }));
                match r {
                    Ok((st, tr)) => {
                        let ts = st.transition_state.is_some();
                        self.st = Some(st);
                        self.refs.commit(sc, &accts);
                        self.cdb.commit(accts.iter().cloned().collect());
                        Some(format!("ok ts={} {}", b01(ts), fmt_transitions(tr)))
                    }
                    Err(_) => Some("panic".into()),
                }
            }
            "inc" => {
                let n = t.num()?;
                let mut l = vec![];
                for _ in 0..n {
                    let a = addr(t.hex()?);
                    let v = t.hex()?;
                    if v > U256::from(u128::MAX) {
                        return None;
                    }
                    l.push((a, v.to::<u128>()));
                }
                if !t.done() {
                    return None;
                }
                let st = self.st.as_mut().unwrap();
                st.increment_balances(l.clone()).unwrap();
                for (a, v) in l {
                    if v == 0 {
                        continue;
                    }
                    let e = self.refs.m.entry(a).or_insert_with(|| (AccountInfo::default(), Store::new()));
                    e.0.balance = e.0.balance.saturating_add(U256::from(v));
                }
                Some("ok".into())
            }
            "drain" => {
                let n = t.num()?;
                let mut l = vec![];
                for _ in 0..n {
                    l.push(addr(t.hex()?));
                }
                if !t.done() {
                    return None;
                }
                let mut st = self.st.take().unwrap();
                let l2 = l.clone();
                let r = std::panic::catch_unwind(std::panic::AssertUnwindSafe(move || {
                    let b = st.drain_balances(l2).unwrap();
                    (st, b)
                }));
                match r {
                    Ok((st, bals)) => {
                        self.st = Some(st);
                        let mut rb = vec![];
                        for a in l {
                            let e = self.refs.m.entry(a).or_insert_with(|| (AccountInfo::default(), Store::new()));
                            rb.push(hx(e.0.balance));
                            e.0.balance = U256::ZERO;
                        }
                        let real = format!("ok {}", bals.iter().map(|b| format!("{:x}", b)).collect::<Vec<_>>().join(" "));
                        let rf = format!("ok {}", rb.join(" "));
                        Some(self.with_ref(real.trim_end().to_string(), rf.trim_end().to_string()))
                    }
                    Err(_) => Some("panic".into()),
                }
            }
            "tx" => {
                self.saw_tx = true;
                let r = parse_tx(t)?;
                if !t.done() {
                    return None;
                }
                let mut s2 = clone_state(self.st.as_ref().unwrap());
                let mut c2 = self.cdb.clone();
                let a = std::panic::catch_unwind(std::panic::AssertUnwindSafe(|| norm_outcome(&run_tx(&mut s2, &r))));
                let b = std::panic::catch_unwind(std::panic::AssertUnwindSafe(|| norm_outcome(&run_tx(&mut c2, &r))));
                match (a, b) {
                    (Ok(a), Ok(b)) => {
                        if a == b {
                            Some("cachedb=eq".into())
                        } else {
                            Some(format!("cachedb=ne state:{} cachedb:{}", a.replace(' ', "_"), b.replace(' ', "_")))
                        }
                    }
                    _ => Some("panic".into()),
                }
            }
            _ => None,
        }
    }
}

/// executes request lines (any number of cases); pure function of the lines
pub fn exec_lines(lines: &[String], out: &mut Out) {
    let mut case: Option<Case> = None;
    for l in lines {
        let reply = if l.starts_with("begin ") {
            if let Some(c) = &case {
                tally(c, out);
            }
            match parse_begin(l) {
                Some(h) => {
                    case = Some(Case::new(h));
                    "ok".to_string()
                }
                None => {
                    case = None;
                    "bad-op".to_string()
                }
            }
        } else {
            match (case.as_mut(), l.strip_prefix("sdb ")) {
                (Some(c), Some(op)) => c.exec(op),
                _ => "bad-op".into(),
            }
        };
        out.push(l.clone(), reply);
    }
    if let Some(c) = &case {
        tally(c, out);
    }
}
/// operation lines of a case carry the component prefix (`sdb` for statedb, `pst` for prestate)
pub fn prefixed(lines: Vec<String>, pfx: &str) -> Vec<String> {
    lines.into_iter().map(|l| if l.starts_with("begin ") { l } else { format!("{pfx} {l}") }).collect()
}
fn tally(c: &Case, out: &mut Out) {
    *out.dist.entry("ref_checks".into()).or_insert(0) += c.ref_checks;
    *out.dist.entry("ref_mismatch_in_excluded_region".into()).or_insert(0) += c.ref_mismatch;
    if c.saw_tx && c.ref_mismatch > 0 {
        *out.dist.entry("realtx_cases_reproducing_the_finding".into()).or_insert(0) += 1;
    }
}

// ---------------------------------------------------------------- generators
pub const CODE_SSTORE: &[u8] = &[0x60, 0x20, 0x35, 0x60, 0x00, 0x35, 0x55, 0x00];
pub const CODE_SD: &[u8] = &[0x33, 0xff];
pub const CODE_CREATE: &[u8] = &[0x36, 0x60, 0x00, 0x60, 0x00, 0x37, 0x36, 0x60, 0x00, 0x34, 0xf0, 0x00];
/// CALL(gas, addr = calldata[0..32], value = callvalue, no data) ; STOP
pub const CODE_FWD: &[u8] = &[0x60, 0x00, 0x60, 0x00, 0x60, 0x00, 0x60, 0x00, 0x34, 0x60, 0x00, 0x35, 0x5a, 0xf1, 0x00];
/// init code: SSTORE(0,1); STOP  (deploys empty code, leaves storage)
pub const INIT_STORE_EMPTY: &[u8] = &[0x60, 0x01, 0x60, 0x00, 0x55, 0x00];
/// init code: SSTORE(1,7); return `33ff`
pub const INIT_SD: &[u8] = &[0x60, 0x07, 0x60, 0x01, 0x55, 0x61, 0x33, 0xff, 0x60, 0x00, 0x52, 0x60, 0x02, 0x60, 0x1e, 0xf3];
/// init code: return the 8-byte sstore contract
pub const INIT_SSTORE: &[u8] = &[0x67, 0x60, 0x20, 0x35, 0x60, 0x00, 0x35, 0x55, 0x00, 0x60, 0x00, 0x52, 0x60, 0x08, 0x60, 0x18, 0xf3];

pub fn code_pool() -> Vec<Vec<u8>> {
    vec![CODE_SSTORE.to_vec(), CODE_SD.to_vec(), CODE_CREATE.to_vec(), CODE_FWD.to_vec(), vec![0xfe]]
}
pub fn info_with_code(balance: U256, nonce: u64, code: &[u8], keep_code: bool) -> AccountInfo {
    let bc = Bytecode::new_raw(Bytes::from(code.to_vec()));
    AccountInfo { balance, nonce, code_hash: keccak256(code), code: if keep_code { Some(bc) } else { None } }
}

pub struct Gen {
    pub rng: Rng,
}
fn small_word(rng: &mut Rng) -> U256 {
    match rng.below(6) {
        0 => U256::ZERO,
        1 => U256::from(1),
        2 => U256::MAX,
        3 => U256::from(rng.below(1000)),
        4 => U256::from(1) << 128,
        _ => U256::from(rng.next()),
    }
}
fn small_bal(rng: &mut Rng) -> U256 {
    match rng.below(5) {
        0 => U256::ZERO,
        1 => U256::from(1),
        2 => U256::from(rng.below(100000)),
        3 => (U256::from(1) << 127) + U256::from(rng.below(5)),
        _ => U256::from(rng.next()),
    }
}

/// a generated database over the universe; `finding` adds codeless accounts that have storage
pub fn gen_db(rng: &mut Rng, uni_a: &[Address], uni_s: &[U256], finding: bool, malformed: bool) -> MapDb {
    let mut db = MapDb::default();
    let pool = code_pool();
    for c in &pool {
        db.codes.insert(keccak256(c), Bytecode::new_raw(Bytes::from(c.clone())));
    }
    for a in uni_a {
        let kind = rng.below(8);
        let mut store = Store::new();
        let mut fill = |rng: &mut Rng, store: &mut Store| {
            for k in uni_s {
                if rng.chance(1, 2) {
                    let v = small_word(rng);
                    if !v.is_zero() {
                        store.insert(*k, v);
                    }
                }
            }
        };
        let info = match kind {
            0 | 1 => continue, // absent
            2 => {
                // empty account (possible before EIP-161)
                if finding && rng.chance(2, 3) {
                    fill(rng, &mut store);
                }
                let mut i = AccountInfo::default();
                if malformed && rng.chance(1, 3) {
                    i.code_hash = B256::ZERO;
                }
                i
            }
            3 => {
                // balance only
                if finding && rng.chance(2, 3) {
                    fill(rng, &mut store);
                }
                AccountInfo { balance: small_bal(rng).max(U256::from(1)), ..Default::default() }
            }
            4 => AccountInfo { balance: small_bal(rng), nonce: 1 + rng.below(5), ..Default::default() },
            _ => {
                fill(rng, &mut store);
                let c = rng.pick(&pool).clone();
                let keep = rng.chance(1, 4);
                info_with_code(small_bal(rng), if rng.chance(1, 5) { 0 } else { 1 }, &c, keep)
            }
        };
        db.accts.insert(*a, (info, store));
    }
    db
}

fn mk_account(info: AccountInfo, slots: Vec<(U256, U256, U256)>, touched: bool, created: bool, sd: bool) -> Account {
    let mut acc = Account {
        info,
        storage: slots.into_iter().map(|(k, o, p)| (k, EvmStorageSlot::new_changed(o, p))).collect(),
        status: revm::primitives::AccountStatus::Loaded,
    };
    if touched {
        acc.mark_touch();
    }
    if created {
        acc.mark_created();
    }
    if sd {
        acc.mark_selfdestruct();
    }
    acc
}

/// one structured history obeying the EVM reachability rules (region `valid`), or deliberately
/// entering the excluded region (`finding`)
pub fn gen_history(seed: u64, region: &str, n_ops: usize) -> Vec<String> {
    let mut rng = Rng::new(seed);
    let finding = region == "finding";
    let uni_a: Vec<Address> = (1..=5u64).map(|i| addr(U256::from(0xa0 + i))).collect();
    let uni_s: Vec<U256> = vec![U256::ZERO, U256::from(1), U256::from(2)];
    let sc = rng.chance(1, 2);
    let bu = rng.chance(1, 2);
    let db = gen_db(&mut rng, &uni_a, &uni_s, finding, false);
    let mut lines = vec![format!("begin statedb {} {} {} {}", b01(sc), b01(bu), region, fmt_world(&uni_a, &uni_s, &db))];
    lines.extend(gen_ops(&mut rng, finding, sc, &db, &uni_a, &uni_s, n_ops));
    lines
}

/// operations of a structured history over the database `db` (no `begin` line)
pub fn gen_ops(rng_in: &mut Rng, finding: bool, sc: bool, db: &MapDb, uni_a: &[Address], uni_s: &[U256], n_ops: usize) -> Vec<String> {
    let mut rng = Rng(rng_in.next());
    let uni_a: Vec<Address> = uni_a.to_vec();
    let uni_s: Vec<U256> = uni_s.to_vec();
    let db = db.clone();
    let pool = code_pool();
    let mut lines: Vec<String> = vec![];
    let mut refs = RefState::from_db(&db);
    let mut loaded: BTreeSet<Address> = BTreeSet::new();
    for _ in 0..n_ops {
        match rng.below(10) {
            0 => {
                let a = *rng.pick(&uni_a);
                loaded.insert(a);
                lines.push(format!("basic {}", hx(addr_u(a))));
            }
            1 => {
                if let Some(a) = loaded.iter().nth(rng.below(loaded.len().max(1) as u64) as usize).copied() {
                    lines.push(format!("storage {} {}", hx(addr_u(a)), hx(*rng.pick(&uni_s))));
                }
            }
            2 => {
                let h = if rng.chance(1, 4) { KECCAK_EMPTY } else { keccak256(rng.pick(&pool)) };
                lines.push(format!("code {}", hx(hash_u(h))));
            }
            3 => {
                // increments
                let n = rng.range(1, 2);
                let mut s = format!("inc {:x}", n);
                for _ in 0..n {
                    let a = *rng.pick(&uni_a);
                    let amt: u128 = if rng.chance(1, 5) { 0 } else { rng.below(1000) as u128 + ((rng.below(2) as u128) << 100) };
                    let bal = refs.m.get(&a).map(|x| x.0.balance).unwrap_or_default();
                    if bal > U256::MAX - U256::from(amt) {
                        continue;
                    }
                    if amt != 0 {
                        loaded.insert(a);
                        let e = refs.m.entry(a).or_insert_with(|| (AccountInfo::default(), Store::new()));
                        e.0.balance += U256::from(amt);
                    }
                    s += &format!(" {} {:x}", hx(addr_u(a)), amt);
                }
                let cnt = (s.split(' ').count() - 2) / 2;
                let s = s.replacen(&format!("inc {:x}", n), &format!("inc {:x}", cnt), 1);
                lines.push(s);
            }
            4 => {
                // drain: only accounts whose balance fits u128 and that stay non-empty (or are absent / empty)
                let a = *rng.pick(&uni_a);
                let ok = match refs.m.get(&a) {
                    None => true,
                    Some((i, _)) => {
                        i.balance <= U256::from(u128::MAX)
                            && (i.is_empty() || i.nonce != 0 || (i.code_hash != KECCAK_EMPTY && !i.code_hash.is_zero()))
                    }
                };
                if ok {
                    loaded.insert(a);
                    let e = refs.m.entry(a).or_insert_with(|| (AccountInfo::default(), Store::new()));
                    e.0.balance = U256::ZERO;
                    lines.push(format!("drain 1 {}", hx(addr_u(a))));
                }
            }
            5 => lines.push("probe".into()),
            _ => {
                // a commit of 1..3 accounts
                let n = rng.range(1, 3) as usize;
                let mut chosen: Vec<Address> = vec![];
                while chosen.len() < n {
                    let a = *rng.pick(&uni_a);
                    if !chosen.contains(&a) {
                        chosen.push(a);
                    }
                }
                let mut accts: Vec<(Address, Account)> = vec![];
                for a in chosen {
                    let cur = refs.m.get(&a).cloned();
                    let cur_empty = cur.as_ref().map(|x| x.0.is_empty()).unwrap_or(true);
                    let kind = rng.below(10);
                    // slots as the EVM would report them: original = committed value
                    let mut slots = vec![];
                    let mut gen_slots = |rng: &mut Rng, created: bool| {
                        let mut v = vec![];
                        for k in &uni_s {
                            if rng.chance(1, 2) {
                                let o = if created { U256::ZERO } else { refs.storage(a, *k) };
                                let p = if rng.chance(1, 4) { o } else { small_word(rng) };
                                v.push((*k, o, p));
                            }
                        }
                        v
                    };
                    let acc = match kind {
                        0 => {
                            // untouched (just loaded), arbitrary content
                            mk_account(AccountInfo { balance: small_bal(&mut rng), ..Default::default() }, gen_slots(&mut rng, false), false, rng.chance(1, 4), false)
                        }
                        1 => {
                            // self-destruct (possibly of an account created in the same tx)
                            let info = cur.as_ref().map(|x| x.0.clone()).unwrap_or_default();
                            mk_account(AccountInfo { balance: U256::ZERO, ..info }, gen_slots(&mut rng, false), true, rng.chance(1, 3), true)
                        }
                        2 | 3 if cur.as_ref().map(|x| x.0.nonce == 0 && x.0.code_hash == KECCAK_EMPTY && x.1.values().all(|v| v.is_zero())).unwrap_or(true) => {
                            // creation (only where the EVM's collision check allows it): nonce 1 after Spurious Dragon, nonce 0 before
                            let code = if rng.chance(1, 3) { vec![] } else { rng.pick(&pool).clone() };
                            let bal = if rng.chance(1, 2) { U256::ZERO } else { small_bal(&mut rng) };
                            let info = AccountInfo { balance: bal, nonce: if sc { 1 } else { 0 }, code_hash: keccak256(&code), code: Some(Bytecode::new_raw(Bytes::from(code))) };
                            slots = gen_slots(&mut rng, true);
                            // before EIP-161 a created account has nonce 0: without code it is a
                            // code-less account, which must not carry storage outside the finding region
                            if info.code_hash == KECCAK_EMPTY && !sc && !finding {
                                slots.retain(|s| s.2.is_zero());
                            }
                            mk_account(info, slots.clone(), true, true, false)
                        }
                        4 | 5 if cur_empty => {
                            // touch of an empty / absent account
                            let info = AccountInfo { code: if rng.chance(1, 2) { Some(Bytecode::new_raw(Bytes::new())) } else { None }, ..Default::default() };
                            mk_account(info, vec![], true, false, false)
                        }
                        _ => {
                            // change: nonce never decreases, code stays, result not empty
                            let base = cur.as_ref().map(|x| x.0.clone()).unwrap_or_default();
                            let mut info = base.clone();
                            info.balance = small_bal(&mut rng);
                            if rng.chance(1, 2) {
                                info.nonce = info.nonce.saturating_add(rng.below(3));
                            }
                            if info.code.is_none() && rng.chance(1, 2) {
                                info.code = Some(db.code_by_hash_ref(info.code_hash).unwrap());
                                if info.code_hash == KECCAK_EMPTY {
                                    info.code = Some(Bytecode::new_raw(Bytes::new()));
                                }
                            }
                            if info.is_empty() {
                                info.balance = U256::from(1 + rng.below(9));
                            }
                            let has_code = info.code_hash != KECCAK_EMPTY;
                            slots = if has_code { gen_slots(&mut rng, false) } else { vec![] };
                            mk_account(info, slots.clone(), true, false, false)
                        }
                    };
                    let _ = &slots;
                    accts.push((a, acc));
                }
                for (a, acc) in &accts {
                    if acc.is_touched() && !loaded.contains(a) {
                        loaded.insert(*a);
                        lines.push(format!("basic {}", hx(addr_u(*a))));
                    }
                }
                refs.commit(sc, &accts);
                lines.push(fmt_commit(&accts));
                if rng.chance(2, 3) {
                    lines.push("probe".into());
                }
            }
        }
    }
    lines.push("probe".into());
    lines
}

/// histories that ignore the reachability rules: unloaded accounts, arbitrary flags, empty infos
pub fn gen_malformed(seed: u64, n_ops: usize) -> Vec<String> {
    let mut rng = Rng::new(seed);
    let uni_a: Vec<Address> = (1..=4u64).map(|i| addr(U256::from(0xa0 + i))).collect();
    let uni_s: Vec<U256> = vec![U256::ZERO, U256::from(1)];
    let sc = rng.chance(1, 2);
    let bu = rng.chance(1, 2);
    let db = gen_db(&mut rng, &uni_a, &uni_s, true, true);
    let pool = code_pool();
    let mut lines = vec![format!("begin statedb {} {} malformed {}", b01(sc), b01(bu), fmt_world(&uni_a, &uni_s, &db))];
    for _ in 0..n_ops {
        match rng.below(8) {
            0 | 1 => lines.push(format!("basic {}", hx(addr_u(*rng.pick(&uni_a))))),
            2 => lines.push(format!("storage {} {}", hx(addr_u(*rng.pick(&uni_a))), hx(*rng.pick(&uni_s)))),
            3 => lines.push(format!("drain 1 {}", hx(addr_u(*rng.pick(&uni_a))))),
            4 => lines.push(format!("inc 1 {} {:x}", hx(addr_u(*rng.pick(&uni_a))), rng.below(3))),
            5 => lines.push("probe".into()),
            _ => {
                let a = *rng.pick(&uni_a);
                let info = match rng.below(4) {
                    0 => AccountInfo::default(),
                    1 => AccountInfo { code_hash: B256::ZERO, ..Default::default() },
                    2 => AccountInfo { balance: small_bal(&mut rng), nonce: rng.below(2), ..Default::default() },
                    _ => {
                        let c = rng.pick(&pool).clone();
                        info_with_code(small_bal(&mut rng), rng.below(2), &c, rng.chance(1, 2))
                    }
                };
                let mut slots = vec![];
                for k in &uni_s {
                    if rng.chance(1, 2) {
                        slots.push((*k, small_word(&mut rng), small_word(&mut rng)));
                    }
                }
                let acc = mk_account(info, slots, rng.chance(4, 5), rng.chance(1, 4), rng.chance(1, 5));
                lines.push(fmt_commit(&[(a, acc)]));
            }
        }
    }
    lines.push("probe".into());
    lines
}

/// database wrapper that records the reads the EVM performs
struct Recorder<'a> {
    st: &'a mut St,
    log: Vec<String>,
}
impl<'a> Database for Recorder<'a> {
    type Error = Infallible;
    fn basic(&mut self, a: Address) -> Result<Option<AccountInfo>, Infallible> {
        self.log.push(format!("basic {}", hx(addr_u(a))));
        let r = self.st.basic(a)?;
        // `read_basic` resolves the code of a code-less info through code_by_hash; keep both States in step
        if let Some(i) = &r {
            if i.code.is_none() && i.code_hash != KECCAK_EMPTY {
                let _ = self.st.code_by_hash(i.code_hash);
            }
        }
        Ok(r)
    }
    fn code_by_hash(&mut self, h: B256) -> Result<Bytecode, Infallible> {
        self.log.push(format!("code {}", hx(hash_u(h))));
        self.st.code_by_hash(h)
    }
    fn storage(&mut self, a: Address, k: U256) -> Result<U256, Infallible> {
        self.log.push(format!("storage {} {}", hx(addr_u(a)), hx(k)));
        self.st.storage(a, k)
    }
    fn block_hash(&mut self, n: u64) -> Result<B256, Infallible> {
        self.st.block_hash(n)
    }
}

/// histories produced by REAL transactions (SSTORE / CREATE / SELFDESTRUCT / transfers to empty
/// accounts): each transaction is a `tx` line (State vs CacheDB comparison), followed by the reads
/// the EVM performed and the commit of the state it produced
pub fn gen_tx_history(seed: u64, region: &str, n_tx: usize) -> Vec<String> {
    let mut rng = Rng::new(seed);
    let finding = region == "finding";
    let sc = if finding { false } else { rng.chance(2, 3) };
    let bu = rng.chance(1, 2);
    let spec = if sc { *rng.pick(&[SpecId::SPURIOUS_DRAGON, SpecId::BERLIN, SpecId::SHANGHAI, SpecId::CANCUN, SpecId::PRAGUE]) } else { *rng.pick(&[SpecId::FRONTIER, SpecId::HOMESTEAD, SpecId::TANGERINE]) };
    let eoa1 = addr(U256::from(0xe1));
    let eoa2 = addr(U256::from(0xe2));
    let empty1 = addr(U256::from(0xe3)); // absent
    let empty2 = addr(U256::from(0xe4)); // present and empty (pre-161 leftovers)
    let c_sstore = addr(U256::from(0xc1));
    let c_sd = addr(U256::from(0xc2));
    let c_create = addr(U256::from(0xc3));
    let c_fwd = addr(U256::from(0xc4));
    let mut db = MapDb::default();
    for c in code_pool() {
        db.codes.insert(keccak256(&c), Bytecode::new_raw(Bytes::from(c)));
    }
    let big = U256::from(10).pow(U256::from(20));
    db.accts.insert(eoa1, (AccountInfo { balance: big, nonce: 3, ..Default::default() }, Store::new()));
    db.accts.insert(eoa2, (AccountInfo { balance: U256::from(5), ..Default::default() }, Store::new()));
    db.accts.insert(empty2, (AccountInfo::default(), if finding { [(U256::from(1), U256::from(9))].into_iter().collect() } else { Store::new() }));
    db.accts.insert(c_sstore, (info_with_code(U256::ZERO, 1, CODE_SSTORE, false), [(U256::from(1), U256::from(5))].into_iter().collect()));
    db.accts.insert(c_sd, (info_with_code(U256::from(7), 1, CODE_SD, false), [(U256::ZERO, U256::from(3))].into_iter().collect()));
    db.accts.insert(c_create, (info_with_code(U256::from(1000), 1, CODE_CREATE, false), Store::new()));
    db.accts.insert(c_fwd, (info_with_code(U256::from(1000), 1, CODE_FWD, false), Store::new()));
    // created addresses are part of the universe as they appear
    let mut uni_a = vec![eoa1, eoa2, empty1, empty2, c_sstore, c_sd, c_create, c_fwd, Address::ZERO];
    let uni_s = vec![U256::ZERO, U256::from(1), U256::from(2)];
    // predicted addresses of the first creations
    for n in 3..6u64 {
        uni_a.push(eoa1.create(n));
    }
    for n in 1..4u64 {
        uni_a.push(c_create.create(n));
    }
    if !sc {
        uni_a.push(c_create.create(0));
    }
    let mut lines = vec![format!("begin statedb {} {} {} {}", b01(sc), b01(bu), region, fmt_world(&uni_a, &uni_s, &db))];
    let mut st = build_state(&db, sc, bu, None);
    let mut created: Vec<Address> = vec![];
    let word = |u: U256| u.to_be_bytes::<32>().to_vec();
    for _ in 0..n_tx {
        let targets_call: Vec<Address> = [vec![empty1, empty2, eoa2, c_sstore, c_sd, Address::ZERO], created.clone()].concat();
        let mut inits: Vec<&[u8]> = vec![INIT_SD, INIT_SSTORE];
        if sc || finding {
            inits.push(INIT_STORE_EMPTY);
        }
        let req = match rng.below(8) {
            0 => TxReq { spec, caller: eoa1, to: Some(*rng.pick(&targets_call)), value: U256::from(rng.below(3)), gas: 200000, data: vec![] },
            1 => TxReq { spec, caller: eoa1, to: Some(c_sstore), value: U256::ZERO, gas: 200000, data: [word(U256::from(rng.below(3))), word(U256::from(rng.below(3)))].concat() },
            2 => TxReq { spec, caller: eoa1, to: Some(c_sd), value: U256::from(rng.below(2)), gas: 200000, data: vec![] },
            3 => TxReq { spec, caller: eoa1, to: None, value: U256::from(rng.below(2)), gas: 300000, data: rng.pick(&inits).to_vec() },
            4 => TxReq { spec, caller: eoa1, to: Some(c_create), value: U256::from(rng.below(2)), gas: 400000, data: rng.pick(&inits).to_vec() },
            5 => TxReq { spec, caller: eoa1, to: Some(c_fwd), value: U256::from(rng.below(2)), gas: 300000, data: word(addr_u(*rng.pick(&targets_call))) },
            6 if !created.is_empty() => {
                let c = *rng.pick(&created);
                TxReq { spec, caller: eoa1, to: Some(c), value: U256::ZERO, gas: 200000, data: [word(U256::from(rng.below(3))), word(U256::from(rng.below(3)))].concat() }
            }
            _ => TxReq { spec, caller: eoa1, to: Some(*rng.pick(&[empty1, empty2])), value: U256::ZERO, gas: 100000, data: vec![] },
        };
        lines.push(fmt_tx(&req));
        let mut rec = Recorder { st: &mut st, log: vec![] };
        let res = run_tx(&mut rec, &req);
        let log = std::mem::take(&mut rec.log);
        drop(rec);
        lines.extend(log);
        if let Ok(rs) = res {
            let accts: Vec<(Address, Account)> = rs.state.iter().map(|(a, b)| (*a, b.clone())).collect::<BTreeMap<_, _>>().into_iter().collect();
            for (a, acc) in &accts {
                if acc.is_created() && !created.contains(a) {
                    created.push(*a);
                }
            }
            lines.push(fmt_commit(&accts));
            st.commit(rs.state);
        }
        lines.push("probe".into());
    }
    lines
}

pub fn run(seed: u64, n: usize, replay: Option<Vec<String>>, out: &mut Out) {
    if let Some(lines) = replay {
        exec_lines(&lines, out);
        return;
    }
    let mut rng = Rng::new(seed ^ 0xc15);
    let mut lines: Vec<String> = vec![];
    // fixed witnesses of the two excluded regions (see Props/C15.lean counterexamples)
    lines.extend(witness_lines());
    let cases = n.max(10);
    for i in 0..cases {
        let s = rng.next();
        let l = match i % 10 {
            0..=3 => {
                out.count("case_history_valid");
                gen_history(s, "valid", 12 + (s % 20) as usize)
            }
            4 | 5 => {
                out.count("case_realtx_valid");
                gen_tx_history(s, "valid", 4 + (s % 6) as usize)
            }
            6 => {
                out.count("case_history_finding_region");
                gen_history(s, "finding", 12 + (s % 12) as usize)
            }
            7 => {
                out.count("case_realtx_finding_region");
                gen_tx_history(s, "finding", 4 + (s % 6) as usize)
            }
            _ => {
                out.count("case_malformed");
                gen_malformed(s, 10 + (s % 10) as usize)
            }
        };
        lines.extend(l);
    }
    let lines = prefixed(lines, "sdb");
    for l in &lines {
        let op = if l.starts_with("begin ") { "begin" } else { l.split(' ').nth(1).unwrap_or("") };
        out.count(&format!("op_{op}"));
    }
    exec_lines(&lines, out);
    let panics = out.imp.iter().filter(|x| x.as_str() == "panic").count() as u64;
    out.dist.insert("reply_panic".into(), panics);
    let eq = out.imp.iter().filter(|x| x.as_str() == "cachedb=eq").count() as u64;
    out.dist.insert("reply_cachedb_eq".into(), eq);
}

/// the concrete witnesses of the two findings, as request lines
pub fn witness_lines() -> Vec<String> {
    let ke = hx(hash_u(KECCAK_EMPTY));
    vec![
        // (A) DESIGN §9 #11: empty account with storage in the database, changed, slot reads 0 instead of 9
        format!("begin statedb 1 0 finding U 1 a1 S 1 1 DB 1 a1 0 0 {ke} none 1 1 9 CODES 0"),
        "basic a1".into(),
        format!("commit 1 a1 1 5 0 {ke} none 0"),
        "storage a1 1".into(),
        // (B) pre-EIP-161: created empty account with storage, then touched: storage dropped
        "begin statedb 0 0 finding U 1 a1 S 1 0 DB 0 CODES 0".into(),
        "basic a1".into(),
        format!("commit 1 a1 3 0 0 {ke} - 1 0 0 1"),
        "storage a1 0".into(),
        format!("commit 1 a1 1 0 0 {ke} - 0"),
        "storage a1 0".into(),
    ]
}

#[allow(dead_code)]
fn _unused(_: CacheAccount, _: BundleAccount) {}
