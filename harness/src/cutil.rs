//! Correspondence for the trusted Lean definitions of keccak256 / CREATE / CREATE2 address derivation
//! (lean/Revm/Util/Keccak.lean) against `revm::primitives::keccak256`, `Address::create`, `Address::create2`.
use crate::*;
use revm::primitives::{keccak256, Address, B256, U256};

fn addr_of(w: U256) -> Address {
    Address::from_word(B256::from(w))
}
fn addr_hex(a: Address) -> String {
    hx(U256::from_be_bytes(a.into_word().0))
}

pub fn exec(line: &str) -> String {
    let t: Vec<&str> = line.split(' ').collect();
    let pw = |s: &str| U256::from_str_radix(s, 16).ok();
    match t.as_slice() {
        ["util", "keccak", b] => {
            let bytes = if *b == "-" { Some(vec![]) } else { (0..b.len() / 2).map(|i| u8::from_str_radix(&b[2 * i..2 * i + 2], 16).ok()).collect() };
            match bytes {
                Some(bs) if b.len() % 2 == 0 || *b == "-" => hx(U256::from_be_bytes(keccak256(&bs).0)),
                _ => "bad-op".into(),
            }
        }
        ["util", "create", a, n] => match (pw(a), pw(n)) {
            (Some(a), Some(n)) if n <= U256::from(u64::MAX) && a < (U256::from(1) << 160) => addr_hex(addr_of(a).create(n.as_limbs()[0])),
            _ => "bad-op".into(),
        },
        ["util", "create2", a, s, h] => match (pw(a), pw(s), pw(h)) {
            (Some(a), Some(s), Some(h)) if a < (U256::from(1) << 160) => addr_hex(addr_of(a).create2(B256::from(s), B256::from(h))),
            _ => "bad-op".into(),
        },
        _ => "bad-op".into(),
    }
}

pub fn run(seed: u64, n: usize, replay: Option<Vec<String>>, out: &mut Out) {
    if let Some(lines) = replay {
        for l in lines {
            let r = guarded({ let l = l.clone(); move || exec(&l) });
            out.push(l, r);
        }
        return;
    }
    let mut rng = Rng::new(seed ^ 0x7575);
    let mut lines = vec![];
    // every length around the block boundaries of the sponge
    for len in (0..=300).chain([271, 272, 273, 407, 408, 409, 1000, 4096]) {
        lines.push(format!("util keccak {}", hxb(&rng.bytes(len))));
        out.count("keccak-len-sweep");
    }
    for _ in 0..n {
        match rng.below(3) {
            0 => {
                let len = rng.below(600) as usize;
                lines.push(format!("util keccak {}", hxb(&rng.bytes(len))));
                out.count("keccak-random");
            }
            1 => {
                let a = rng.u256() >> 96;
                let nonce = match rng.below(6) {
                    0 => U256::from(rng.below(3)),
                    1 => U256::from(0x7f + rng.below(3)),
                    2 => U256::from(0xff + rng.below(2)),
                    3 => U256::from(u64::MAX - rng.below(2)),
                    4 => U256::from(1u64 << (8 * rng.below(8))),
                    _ => U256::from(rng.next()),
                };
                lines.push(format!("util create {} {}", hx(a), hx(nonce)));
                out.count("create");
            }
            _ => {
                let a = if rng.chance(1, 5) { U256::ZERO } else { rng.u256() >> 96 };
                lines.push(format!("util create2 {} {} {}", hx(a), hx(rng.word()), hx(rng.u256())));
                out.count("create2");
            }
        }
    }
    for l in lines {
        let r = guarded({ let l = l.clone(); move || exec(&l) });
        out.push(l, r);
    }
}
