//! C09: transaction-level gas and fee pipeline (`Evm::transact` around the first frame).
//!
//! Component `txgas`, two request kinds (unsigned numbers lowercase hex, `-` = `None`, i64 signed decimal):
//!
//! (a) `txgas pipe <spec_u8> <gl> <gp> <pf|-> <bf> <bp|-> <nb> <mf|-> <val> <bal> <cb>
//!                 <kind c|r> <z> <n> <al> <auth> <same 0|1> <rw 0|1> <ir> <rem> <refd>`
//!     A REAL `Evm` (InMemoryDB, sender EOA with balance `bal`, coinbase balance `cb`) runs `transact()`
//!     with the `execution.call/create/eofcreate` handles replaced by closures that return the
//!     prescribed first-frame result: `InstructionResult` `<ir>` (by name) and a `Gas` with
//!     `remaining = rem`, `refunded = refd`. Everything else is the real code: validation,
//!     `deduct_caller`, `gas_limit - initial_gas`, `apply_eip7702_auth_list`, `last_frame_return`,
//!     `refund`, the EIP-7623 floor, `reimburse_caller`, `reward_beneficiary`, `output`.
//!     kind: c = call, r = create; data = `z` zero bytes then `n` bytes 0x01; `al` = `-` or comma list
//!     of storage-key counts per access-list item; `auth` = `-` or `<k>,<m>`: k authorities that exist
//!     (refunded) then m that do not; `same` = the beneficiary is the sender; `rw` = reward handle enabled.
//!     reply: `rejected` | `panic` |
//!            `<success|revert|halt> used=<hex> refunded=<hex|-> g=<limit>,<remaining>,<refunded> sender=<hex> coinbase=<hex>`
//!            (`g` = the Gas handed to `output`, balances = post balances)
//!
//! (b) `txgas tx <spec_u8> <gl> <gp> <pf|-> <bf> <bp|-> <nb> <mf|-> <val> <bal> <cb>
//!               <prog> <k> <to t|a|c> <data> <al> <auth> <rw> <oir> <orem> <orefd> <oauth>`
//!     A whole REAL transaction (nothing replaced; `last_frame_return` and `apply_eip7702_auth_list`
//!     are wrapped only to OBSERVE the first frame's result and the 7702 refund). `<oir> <orem> <orefd>
//!     <oauth>` is that observation (made by the generator, re-checked by the executor: a different
//!     observation is the reply `stale …`); the Lean model predicts the reply from the env and the observation.
//!     reply: `rejected` | `stale <oir> <orem> <orefd> <oauth>` |
//!            `<success|revert|halt> used=<hex> refunded=<hex|-> paid=<hex> coinbase=<hex> eq=<bits>`
//!            paid = sender_pre - sender_post - (value if success), coinbase = post - pre,
//!            eq = the property's equations recomputed by the harness on the real balances (see `oracle`).
use crate::*;
use revm::db::InMemoryDB;
use revm::interpreter::gas::calculate_initial_tx_gas;
use revm::interpreter::{Gas, InstructionResult, InterpreterResult, SuccessOrHalt};
use revm::primitives::{
    keccak256, AccessListItem, AccountInfo, Address, Authorization, BlobExcessGasAndPrice, Bytecode, Bytes, Env,
    ExecutionResult, RecoveredAuthority, RecoveredAuthorization, SpecId, TxKind, B256, U256,
};
use revm::{Evm, FrameOrResult};
use std::cell::RefCell;
use std::rc::Rc;
use std::sync::Arc;

pub const IRS: &[(&str, InstructionResult)] = &[
    ("Continue", InstructionResult::Continue),
    ("Stop", InstructionResult::Stop),
    ("Return", InstructionResult::Return),
    ("SelfDestruct", InstructionResult::SelfDestruct),
    ("ReturnContract", InstructionResult::ReturnContract),
    ("Revert", InstructionResult::Revert),
    ("CallTooDeep", InstructionResult::CallTooDeep),
    ("OutOfFunds", InstructionResult::OutOfFunds),
    ("CreateInitCodeStartingEF00", InstructionResult::CreateInitCodeStartingEF00),
    ("InvalidEOFInitCode", InstructionResult::InvalidEOFInitCode),
    ("InvalidExtDelegateCallTarget", InstructionResult::InvalidExtDelegateCallTarget),
    ("CallOrCreate", InstructionResult::CallOrCreate),
    ("OutOfGas", InstructionResult::OutOfGas),
    ("MemoryOOG", InstructionResult::MemoryOOG),
    ("MemoryLimitOOG", InstructionResult::MemoryLimitOOG),
    ("PrecompileOOG", InstructionResult::PrecompileOOG),
    ("InvalidOperandOOG", InstructionResult::InvalidOperandOOG),
    ("OpcodeNotFound", InstructionResult::OpcodeNotFound),
    ("CallNotAllowedInsideStatic", InstructionResult::CallNotAllowedInsideStatic),
    ("StateChangeDuringStaticCall", InstructionResult::StateChangeDuringStaticCall),
    ("InvalidFEOpcode", InstructionResult::InvalidFEOpcode),
    ("InvalidJump", InstructionResult::InvalidJump),
    ("NotActivated", InstructionResult::NotActivated),
    ("StackUnderflow", InstructionResult::StackUnderflow),
    ("StackOverflow", InstructionResult::StackOverflow),
    ("OutOfOffset", InstructionResult::OutOfOffset),
    ("CreateCollision", InstructionResult::CreateCollision),
    ("OverflowPayment", InstructionResult::OverflowPayment),
    ("PrecompileError", InstructionResult::PrecompileError),
    ("NonceOverflow", InstructionResult::NonceOverflow),
    ("CreateContractSizeLimit", InstructionResult::CreateContractSizeLimit),
    ("CreateContractStartingWithEF", InstructionResult::CreateContractStartingWithEF),
    ("CreateInitCodeSizeLimit", InstructionResult::CreateInitCodeSizeLimit),
    ("FatalExternalError", InstructionResult::FatalExternalError),
    ("ReturnContractInNotInitEOF", InstructionResult::ReturnContractInNotInitEOF),
    ("EOFOpcodeDisabledInLegacy", InstructionResult::EOFOpcodeDisabledInLegacy),
    ("EOFFunctionStackOverflow", InstructionResult::EOFFunctionStackOverflow),
    ("EofAuxDataOverflow", InstructionResult::EofAuxDataOverflow),
    ("EofAuxDataTooSmall", InstructionResult::EofAuxDataTooSmall),
    ("InvalidEXTCALLTarget", InstructionResult::InvalidEXTCALLTarget),
];
fn ir_by_name(s: &str) -> Option<InstructionResult> {
    IRS.iter().find(|(n, _)| *n == s).map(|(_, r)| *r)
}
fn ir_name(r: InstructionResult) -> &'static str {
    IRS.iter().find(|(_, x)| *x == r).map(|(n, _)| *n).unwrap_or("Unknown")
}

// ---------------------------------------------------------------- parsing (same rules as Driver/TxGas.lean)
fn p256(s: &str) -> Option<U256> {
    if s.is_empty() {
        return None;
    }
    let mut acc = U256::ZERO;
    for c in s.chars() {
        let d = c.to_digit(16)?;
        acc = acc.checked_mul(U256::from(16))?.checked_add(U256::from(d))?;
    }
    Some(acc)
}
fn p64(s: &str) -> Option<u64> {
    let v = p256(s)?;
    if v > U256::from(u64::MAX) {
        None
    } else {
        Some(v.as_limbs()[0])
    }
}
fn p128(s: &str) -> Option<u128> {
    let v = p256(s)?;
    if v > U256::from(u128::MAX) {
        None
    } else {
        Some(v.as_limbs()[0] as u128 | ((v.as_limbs()[1] as u128) << 64))
    }
}
fn popt<T>(s: &str, f: impl Fn(&str) -> Option<T>) -> Option<Option<T>> {
    if s == "-" {
        Some(None)
    } else {
        f(s).map(Some)
    }
}
fn pbool(s: &str) -> Option<bool> {
    match s {
        "0" => Some(false),
        "1" => Some(true),
        _ => None,
    }
}
fn pi64(s: &str) -> Option<i64> {
    let (neg, ds) = match s.strip_prefix('-') {
        Some(r) => (true, r),
        None => (false, s),
    };
    if ds.is_empty() {
        return None;
    }
    let mut acc: u128 = 0;
    for c in ds.chars() {
        if !c.is_ascii_digit() {
            return None;
        }
        acc = acc.checked_mul(10)?.checked_add(c as u128 - '0' as u128)?;
        if acc > (1u128 << 64) {
            return None;
        }
    }
    let v: i128 = if neg { -(acc as i128) } else { acc as i128 };
    if v < i64::MIN as i128 || v > i64::MAX as i128 {
        return None;
    }
    Some(v as i64)
}
/// `-` or comma separated hex counts, at most 8 items, each <= 16
fn pal(s: &str) -> Option<Vec<u64>> {
    if s == "-" {
        return Some(vec![]);
    }
    let v: Option<Vec<u64>> = s.split(',').map(p64).collect();
    let v = v?;
    if v.len() > 8 || v.iter().any(|k| *k > 16) {
        return None;
    }
    Some(v)
}
/// `-` or `<k>,<m>` with k, m <= 8
fn pauth(s: &str) -> Option<Option<(u64, u64)>> {
    if s == "-" {
        return Some(None);
    }
    let p: Vec<&str> = s.split(',').collect();
    if p.len() != 2 {
        return None;
    }
    let (k, m) = (p64(p[0])?, p64(p[1])?);
    if k > 8 || m > 8 {
        return None;
    }
    Some(Some((k, m)))
}
fn pbytes(s: &str) -> Option<Vec<u8>> {
    if s == "-" {
        return Some(vec![]);
    }
    if s.len() % 2 != 0 || s.len() > 400_000 {
        return None;
    }
    let c: Vec<char> = s.chars().collect();
    let mut v = Vec::with_capacity(c.len() / 2);
    for p in c.chunks(2) {
        v.push((p[0].to_digit(16)? * 16 + p[1].to_digit(16)?) as u8);
    }
    Some(v)
}

// ---------------------------------------------------------------- environment
#[derive(Clone, Debug)]
pub struct Fees {
    pub spec: SpecId,
    pub gl: u64,
    pub gp: U256,
    pub pf: Option<U256>,
    pub bf: U256,
    pub bp: Option<u128>,
    pub nb: u64,
    pub mf: Option<U256>,
    pub val: U256,
    pub bal: U256,
    pub cb: U256,
}
fn parse_fees(t: &[&str]) -> Option<Fees> {
    // t = spec gl gp pf bf bp nb mf val bal cb
    let spec = SpecId::try_from_u8(p64(t[0]).filter(|v| *v < 256)? as u8)?;
    let nb = p64(t[6])?;
    if nb > 64 {
        return None;
    }
    Some(Fees {
        spec,
        gl: p64(t[1])?,
        gp: p256(t[2])?,
        pf: popt(t[3], p256)?,
        bf: p256(t[4])?,
        bp: popt(t[5], p128)?,
        nb,
        mf: popt(t[7], p256)?,
        val: p256(t[8])?,
        bal: p256(t[9])?,
        cb: p256(t[10])?,
    })
}
fn fmt_fees(f: &Fees) -> String {
    let o = |x: &Option<U256>| x.map(hx).unwrap_or("-".into());
    format!(
        "{:x} {:x} {} {} {} {} {:x} {} {} {} {}",
        f.spec as u8,
        f.gl,
        hx(f.gp),
        o(&f.pf),
        hx(f.bf),
        f.bp.map(|p| format!("{:x}", p)).unwrap_or("-".into()),
        f.nb,
        o(&f.mf),
        hx(f.val),
        hx(f.bal),
        hx(f.cb)
    )
}

pub fn caller() -> Address {
    Address::with_last_byte(0x99)
}
pub fn coinbase() -> Address {
    Address::with_last_byte(0xCB)
}
fn target() -> Address {
    Address::with_last_byte(0xC0)
}
fn subaddr() -> Address {
    Address::with_last_byte(0xC1)
}
fn auth_existing(i: u64) -> Address {
    Address::with_last_byte(0xA0 + i as u8)
}
fn auth_fresh(i: u64) -> Address {
    Address::with_last_byte(0xB0 + i as u8)
}

fn set_env(env: &mut Env, f: &Fees, coinbase_addr: Address) {
    env.tx.caller = caller();
    env.tx.gas_limit = f.gl;
    env.tx.gas_price = f.gp;
    env.tx.gas_priority_fee = f.pf;
    env.tx.value = f.val;
    env.tx.nonce = None;
    env.tx.chain_id = None;
    env.tx.blob_hashes = (0..f.nb)
        .map(|i| {
            let mut b = B256::ZERO;
            b.0[0] = 1;
            b.0[31] = i as u8;
            b
        })
        .collect();
    env.tx.max_fee_per_blob_gas = f.mf;
    env.block.basefee = f.bf;
    env.block.coinbase = coinbase_addr;
    env.block.gas_limit = U256::MAX;
    env.block.prevrandao = Some(B256::ZERO);
    env.block.blob_excess_gas_and_price = f.bp.map(|p| BlobExcessGasAndPrice { excess_blob_gas: 0, blob_gasprice: p });
}
fn access_list(al: &[u64]) -> Vec<AccessListItem> {
    al.iter()
        .enumerate()
        .map(|(i, k)| AccessListItem {
            address: match i {
                0 => target(),
                1 => subaddr(),
                _ => Address::with_last_byte(0xE0 + i as u8),
            },
            storage_keys: (1..=*k).map(|s| B256::from(U256::from(s))).collect(),
        })
        .collect()
}
fn auth_list(a: Option<(u64, u64)>, delegate: Address) -> Option<revm::primitives::AuthorizationList> {
    a.map(|(k, m)| {
        let mut v = vec![];
        for i in 0..k {
            v.push(RecoveredAuthorization::new_unchecked(
                Authorization { chain_id: U256::from(1), address: delegate, nonce: 0 },
                RecoveredAuthority::Valid(auth_existing(i)),
            ));
        }
        for i in 0..m {
            v.push(RecoveredAuthorization::new_unchecked(
                Authorization { chain_id: U256::ZERO, address: delegate, nonce: 0 },
                RecoveredAuthority::Valid(auth_fresh(i)),
            ));
        }
        v.into()
    })
}
fn base_db(f: &Fees, a: Option<(u64, u64)>, coinbase_is_sender: bool) -> InMemoryDB {
    let mut db = InMemoryDB::default();
    db.insert_account_info(caller(), AccountInfo { balance: f.bal, ..Default::default() });
    if !coinbase_is_sender && !f.cb.is_zero() {
        db.insert_account_info(coinbase(), AccountInfo { balance: f.cb, ..Default::default() });
    }
    if let Some((k, _)) = a {
        for i in 0..k {
            db.insert_account_info(auth_existing(i), AccountInfo { balance: U256::from(1), ..Default::default() });
        }
    }
    db
}
fn report_name(r: InstructionResult) -> Option<&'static str> {
    match SuccessOrHalt::from(r) {
        SuccessOrHalt::Success(_) => Some("success"),
        SuccessOrHalt::Revert => Some("revert"),
        SuccessOrHalt::Halt(_) => Some("halt"),
        _ => None,
    }
}
fn result_fields(r: &ExecutionResult) -> (&'static str, u64, Option<u64>) {
    match r {
        ExecutionResult::Success { gas_used, gas_refunded, .. } => ("success", *gas_used, Some(*gas_refunded)),
        ExecutionResult::Revert { gas_used, .. } => ("revert", *gas_used, None),
        ExecutionResult::Halt { gas_used, .. } => ("halt", *gas_used, None),
    }
}

// ---------------------------------------------------------------- (a) pipe
pub fn exec_pipe(t: &[&str]) -> String {
    if t.len() != 21 {
        return "bad-op".into();
    }
    let Some(f) = parse_fees(&t[0..11]) else { return "bad-op".into() };
    let is_create = match t[11] {
        "c" => false,
        "r" => true,
        _ => return "bad-op".into(),
    };
    let (Some(z), Some(n)) = (p64(t[12]), p64(t[13])) else { return "bad-op".into() };
    if z > 0x40000 || n > 0x40000 {
        return "bad-op".into();
    }
    let Some(al) = pal(t[14]) else { return "bad-op".into() };
    let Some(auth) = pauth(t[15]) else { return "bad-op".into() };
    let (Some(same), Some(rw)) = (pbool(t[16]), pbool(t[17])) else { return "bad-op".into() };
    let Some(ir) = ir_by_name(t[18]) else { return "bad-op".into() };
    let Some(rem) = p64(t[19]) else { return "bad-op".into() };
    let Some(refd) = pi64(t[20]) else { return "bad-op".into() };
    guarded(move || {
        let cb_addr = if same { caller() } else { coinbase() };
        let db = base_db(&f, auth, same);
        let mut data = vec![0u8; z as usize];
        data.extend(std::iter::repeat(1u8).take(n as usize));
        let mut evm = Evm::builder()
            .with_db(db)
            .with_spec_id(f.spec)
            .modify_env(|env| {
                set_env(env, &f, cb_addr);
                env.tx.transact_to = if is_create { TxKind::Create } else { TxKind::Call(target()) };
                env.tx.data = Bytes::from(data);
                env.tx.access_list = access_list(&al);
                env.tx.authorization_list = auth_list(auth, target());
            })
            .build();
        let mk = move |limit: u64| -> InterpreterResult {
            let mut g = Gas::new(limit);
            if rem <= limit {
                let _ = g.record_cost(limit - rem);
            } else {
                g.erase_cost(rem - limit);
            }
            g.record_refund(refd);
            InterpreterResult { result: ir, output: Bytes::new(), gas: g }
        };
        evm.handler.execution.call = Arc::new(move |_c, i| Ok(FrameOrResult::new_call_result(mk(i.gas_limit), 0..0)));
        evm.handler.execution.create =
            Arc::new(move |_c, i| Ok(FrameOrResult::new_create_result(mk(i.gas_limit), None)));
        evm.handler.execution.eofcreate =
            Arc::new(move |_c, i| Ok(FrameOrResult::new_eofcreate_result(mk(i.gas_limit), None)));
        if !rw {
            evm.handler.post_execution.reward_beneficiary = None;
        }
        let seen: Rc<RefCell<Option<Gas>>> = Rc::new(RefCell::new(None));
        let seen2 = seen.clone();
        evm.handler.post_execution.output = Box::new(move |ctx, result| {
            *seen2.borrow_mut() = Some(*result.gas());
            revm::handler::mainnet::output(ctx, result)
        });
        let rs = match evm.transact() {
            Ok(rs) => rs,
            Err(_) => return "rejected".into(),
        };
        let (cls, used, refunded) = result_fields(&rs.result);
        let g = seen.borrow().unwrap();
        let sender = rs.state.get(&caller()).map(|a| a.info.balance).unwrap_or(f.bal);
        let cbal = if same { sender } else { rs.state.get(&coinbase()).map(|a| a.info.balance).unwrap_or(f.cb) };
        format!(
            "{} used={:x} refunded={} g={:x},{:x},{} sender={} coinbase={}",
            cls,
            used,
            refunded.map(|r| format!("{:x}", r)).unwrap_or("-".into()),
            g.limit(),
            g.remaining(),
            g.refunded(),
            hx(sender),
            hx(cbal)
        )
    })
}

// ---------------------------------------------------------------- (b) whole transactions
pub const PROGS: &[&str] =
    &["stop", "clear", "clearset", "revert", "invalid", "oog", "sub", "subrevert", "sd", "ret", "create"];

fn push1(c: &mut Vec<u8>, v: u8) {
    c.extend([0x60, v]);
}
fn clear_slots(c: &mut Vec<u8>, k: u8) {
    for i in 1..=k {
        push1(c, 0);
        push1(c, i);
        c.push(0x55);
    }
}
/// code of the target contract
fn prog_code(prog: &str, k: u8) -> Vec<u8> {
    let mut c = vec![];
    match prog {
        "stop" | "create" => c.push(0x00),
        "clear" => {
            clear_slots(&mut c, k);
            c.push(0x00);
        }
        "clearset" => {
            for i in 1..=k {
                push1(&mut c, 0);
                push1(&mut c, i);
                c.push(0x55);
                push1(&mut c, 1);
                push1(&mut c, i);
                c.push(0x55);
            }
            push1(&mut c, 0);
            push1(&mut c, 1);
            c.push(0x55);
            c.push(0x00);
        }
        "revert" => {
            clear_slots(&mut c, k);
            push1(&mut c, 0);
            push1(&mut c, 0);
            c.push(0xfd);
        }
        "invalid" => {
            clear_slots(&mut c, k);
            c.push(0xfe);
        }
        "oog" => c.extend([0x5b, 0x60, 0x00, 0x56]),
        "sub" | "subrevert" => {
            // CALL(gas, SUB, 0, 0, 0, 0, 0)
            for _ in 0..5 {
                push1(&mut c, 0);
            }
            push1(&mut c, 0xC1);
            c.push(0x5a);
            c.push(0xf1);
            c.push(0x50);
            clear_slots(&mut c, k.min(2));
            if prog == "sub" {
                c.push(0x00);
            } else {
                push1(&mut c, 0);
                push1(&mut c, 0);
                c.push(0xfd);
            }
        }
        "sd" => {
            clear_slots(&mut c, k);
            push1(&mut c, 0xDD);
            c.push(0xff);
        }
        "ret" => {
            push1(&mut c, 0x20);
            push1(&mut c, 0);
            c.push(0xf3);
        }
        _ => c.push(0x00),
    }
    c
}
/// init codes for create transactions, by `k`
pub fn init_code(k: u8) -> Vec<u8> {
    match k % 6 {
        0 => vec![0x00],
        1 => vec![0x60, 0x01, 0x60, 0x01, 0x55, 0x60, 0x00, 0x60, 0x01, 0x55, 0x00],
        2 => vec![0x60, 0x00, 0x60, 0x00, 0xfd],
        3 => vec![0xfe],
        4 => vec![0x61, 0x01, 0x00, 0x60, 0x00, 0xf3],
        _ => vec![0x60, 0x01, 0x60, 0x01, 0x55, 0x60, 0x00, 0x60, 0x01, 0x55, 0x60, 0x20, 0x60, 0x00, 0xf3],
    }
}
fn contract(db: &mut InMemoryDB, a: Address, code: Vec<u8>, slots: u8) {
    let h = keccak256(&code);
    db.insert_account_info(
        a,
        AccountInfo { balance: U256::ZERO, nonce: 1, code_hash: h, code: Some(Bytecode::new_legacy(Bytes::from(code))) },
    );
    for s in 1..=slots {
        db.insert_account_storage(a, U256::from(s), U256::from(1)).unwrap();
    }
}

#[derive(Clone, Debug)]
pub struct TxReq {
    pub f: Fees,
    pub prog: String,
    pub k: u8,
    pub to: char,
    pub data: Vec<u8>,
    pub al: Vec<u64>,
    pub auth: Option<(u64, u64)>,
    pub rw: bool,
}
#[derive(Clone, Debug, PartialEq)]
pub struct Obs {
    pub ir: String,
    pub rem: u64,
    pub refd: i64,
    pub auth: u64,
}
pub struct TxRun {
    pub cls: &'static str,
    pub used: u64,
    pub refunded: Option<u64>,
    pub sender_post: U256,
    pub coinbase_post: U256,
    pub obs: Obs,
}
fn tx_db(r: &TxReq) -> InMemoryDB {
    let mut db = base_db(&r.f, r.auth, false);
    contract(&mut db, target(), prog_code(&r.prog, r.k), 8);
    let mut sub = vec![];
    clear_slots(&mut sub, r.k);
    sub.push(0x00);
    contract(&mut db, subaddr(), sub, 8);
    db
}
fn tx_env(env: &mut Env, r: &TxReq) {
    set_env(env, &r.f, coinbase());
    env.tx.transact_to = match r.to {
        't' => TxKind::Call(target()),
        'a' => TxKind::Call(auth_existing(0)),
        _ => TxKind::Create,
    };
    env.tx.data = Bytes::from(r.data.clone());
    env.tx.access_list = access_list(&r.al);
    env.tx.authorization_list = auth_list(r.auth, target());
}
/// an `Inspector` that keeps the result of the LAST `*_end` callback: the outermost frame ends last
#[derive(Default)]
struct LastEnd {
    last: Option<(InstructionResult, Gas)>,
    ends: u64,
}
impl<DB: revm::Database> revm::Inspector<DB> for LastEnd {
    fn call_end(
        &mut self,
        _c: &mut revm::EvmContext<DB>,
        _i: &revm::interpreter::CallInputs,
        o: revm::interpreter::CallOutcome,
    ) -> revm::interpreter::CallOutcome {
        self.last = Some((o.result.result, o.result.gas));
        self.ends += 1;
        o
    }
    fn create_end(
        &mut self,
        _c: &mut revm::EvmContext<DB>,
        _i: &revm::interpreter::CreateInputs,
        o: revm::interpreter::CreateOutcome,
    ) -> revm::interpreter::CreateOutcome {
        self.last = Some((o.result.result, o.result.gas));
        self.ends += 1;
        o
    }
    fn eofcreate_end(
        &mut self,
        _c: &mut revm::EvmContext<DB>,
        _i: &revm::interpreter::EOFCreateInputs,
        o: revm::interpreter::CreateOutcome,
    ) -> revm::interpreter::CreateOutcome {
        self.last = Some((o.result.result, o.result.gas));
        self.ends += 1;
        o
    }
}
/// the first frame's result as an `Inspector` sees it (`call_end` / `create_end` of the outermost frame)
pub fn observe_with_inspector(r: &TxReq) -> Option<(String, u64, i64)> {
    let mut evm = Evm::builder()
        .with_db(tx_db(r))
        .with_external_context(LastEnd::default())
        .with_spec_id(r.f.spec)
        .append_handler_register(revm::inspector_handle_register)
        .modify_env(|env| tx_env(env, r))
        .build();
    if !r.rw {
        evm.handler.post_execution.reward_beneficiary = None;
    }
    evm.transact().ok()?;
    let (ir, g) = evm.context.external.last?;
    Some((ir_name(ir).to_string(), g.remaining(), g.refunded()))
}
/// runs the whole real transaction; `Err(())` = rejected by validation
pub fn run_tx(r: &TxReq) -> Result<TxRun, ()> {
    let f = &r.f;
    let mut evm = Evm::builder().with_db(tx_db(r)).with_spec_id(f.spec).modify_env(|env| tx_env(env, r)).build();
    if !r.rw {
        evm.handler.post_execution.reward_beneficiary = None;
    }
    let seen: Rc<RefCell<Option<(InstructionResult, Gas)>>> = Rc::new(RefCell::new(None));
    let seen2 = seen.clone();
    let prev = evm.handler.execution.last_frame_return.clone();
    evm.handler.execution.last_frame_return = Arc::new(move |ctx, fr| {
        *seen2.borrow_mut() = Some((fr.interpreter_result().result, *fr.gas()));
        prev(ctx, fr)
    });
    let aseen: Rc<RefCell<u64>> = Rc::new(RefCell::new(0));
    let aseen2 = aseen.clone();
    let prev = evm.handler.pre_execution.apply_eip7702_auth_list.clone();
    evm.handler.pre_execution.apply_eip7702_auth_list = Arc::new(move |ctx| {
        let v = prev(ctx)?;
        *aseen2.borrow_mut() = v;
        Ok(v)
    });
    let rs = evm.transact().map_err(|_| ())?;
    let (cls, used, refunded) = result_fields(&rs.result);
    let (ir, g) = seen.borrow().unwrap();
    let a = *aseen.borrow();
    Ok(TxRun {
        cls,
        used,
        refunded,
        sender_post: rs.state.get(&caller()).map(|a| a.info.balance).unwrap_or(f.bal),
        coinbase_post: rs.state.get(&coinbase()).map(|a| a.info.balance).unwrap_or(f.cb),
        obs: Obs { ir: ir_name(ir).to_string(), rem: g.remaining(), refd: g.refunded(), auth: a / 12500 },
    })
}
fn fmt_al(al: &[u64]) -> String {
    if al.is_empty() {
        "-".into()
    } else {
        al.iter().map(|k| format!("{:x}", k)).collect::<Vec<_>>().join(",")
    }
}
fn fmt_auth(a: Option<(u64, u64)>) -> String {
    a.map(|(k, m)| format!("{:x},{:x}", k, m)).unwrap_or("-".into())
}
pub fn fmt_tx(r: &TxReq, o: Option<&Obs>) -> String {
    let obs = match o {
        Some(o) => format!("{} {:x} {} {:x}", o.ir, o.rem, o.refd, o.auth),
        None => "- 0 0 0".into(),
    };
    format!(
        "txgas tx {} {} {:x} {} {} {} {} {} {}",
        fmt_fees(&r.f),
        r.prog,
        r.k,
        r.to,
        hxb(&r.data),
        fmt_al(&r.al),
        fmt_auth(r.auth),
        b01(r.rw),
        obs
    )
}
/// effective gas price and blob fee recomputed independently (unbounded where it matters)
fn eff_price(f: &Fees) -> U256 {
    match f.pf {
        Some(p) => f.gp.min(f.bf.wrapping_add(p)),
        None => f.gp,
    }
}
/// the property's statements evaluated on the real results; one bit per statement (1 = holds):
/// used<=limit, initial<=spent, floor<=used (Prague), refund cap, refund zero on revert/halt (no 7702 refund),
/// halt uses all (no 7702 refund), sender pays, beneficiary gets
fn oracle(r: &TxReq, x: &TxRun, paid: U256, cb_delta: U256) -> String {
    let f = &r.f;
    let is_create = r.to == 'c';
    let alist = access_list(&r.al);
    let g = calculate_initial_tx_gas(f.spec, &r.data, is_create, &alist, r.auth.map(|(k, m)| k + m).unwrap_or(0));
    let london = f.spec.is_enabled_in(SpecId::LONDON);
    let cancun = f.spec.is_enabled_in(SpecId::CANCUN);
    let prague = f.spec.is_enabled_in(SpecId::PRAGUE);
    let refunded = x.refunded.unwrap_or(0);
    let spent = x.used as u128 + refunded as u128;
    let q: u128 = if london { 5 } else { 2 };
    let eff = eff_price(f);
    let blob_fee = if cancun { U256::from(f.bp.unwrap_or(0)) * U256::from((f.nb as u128) << 17) } else { U256::ZERO };
    let cb_price = if london { eff.saturating_sub(f.bf) } else { eff };
    let no7702 = x.obs.auth == 0;
    // gas spent when no refund at all is applied (revert-class results give the remaining gas back)
    let gives_back = ir_by_name(&x.obs.ir).map(|i| i.is_ok() || i.is_revert()).unwrap_or(false);
    let spent0 = if gives_back { f.gl - x.obs.rem } else { f.gl };
    let bits = [
        x.used <= f.gl,
        // gas spent before refund (from the observed first frame) covers the intrinsic gas; on success the
        // reported numbers add up to it, unless the EIP-7623 floor replaced them
        spent0 >= g.initial_gas
            && (x.cls != "success" || spent == spent0 as u128 || (prague && x.used == g.floor_gas && refunded == 0)),
        !prague || x.used >= g.floor_gas,
        (refunded as u128) <= spent / q,
        x.cls == "success" || !no7702 || x.used == spent0.max(if prague { g.floor_gas } else { 0 }),
        x.cls != "halt" || !no7702 || x.used == f.gl,
        paid == eff * U256::from(x.used) + blob_fee,
        if r.rw { cb_delta == cb_price * U256::from(x.used) } else { cb_delta.is_zero() },
    ];
    bits.iter().map(|b| b01(*b)).collect::<Vec<_>>().join("")
}
pub fn parse_tx(t: &[&str]) -> Option<(TxReq, Obs)> {
    if t.len() != 22 {
        return None;
    }
    let f = parse_fees(&t[0..11])?;
    let prog = t[11];
    if !PROGS.contains(&prog) {
        return None;
    }
    let k = p64(t[12]).filter(|k| *k <= 8)? as u8;
    let to = match t[13] {
        "t" => 't',
        "a" => 'a',
        "c" => 'c',
        _ => return None,
    };
    let data = pbytes(t[14])?;
    let al = pal(t[15])?;
    let auth = pauth(t[16])?;
    let rw = pbool(t[17])?;
    let ir = if t[18] == "-" { "-".to_string() } else { ir_name(ir_by_name(t[18])?).to_string() };
    let obs = Obs { ir, rem: p64(t[19])?, refd: pi64(t[20])?, auth: p64(t[21])? };
    Some((TxReq { f, prog: prog.to_string(), k, to, data, al, auth, rw }, obs))
}
pub fn exec_tx(t: &[&str]) -> String {
    let Some((r, obs)) = parse_tx(t) else { return "bad-op".into() };
    guarded(move || {
        let x = match run_tx(&r) {
            Ok(x) => x,
            Err(()) => return "rejected".into(),
        };
        if x.obs != obs {
            return format!("stale {} {:x} {} {:x}", x.obs.ir, x.obs.rem, x.obs.refd, x.obs.auth);
        }
        let moved = if x.cls == "success" { r.f.val } else { U256::ZERO };
        let paid = r.f.bal.wrapping_sub(x.sender_post).wrapping_sub(moved);
        let cb_delta = x.coinbase_post.wrapping_sub(r.f.cb);
        format!(
            "{} used={:x} refunded={} paid={} coinbase={} eq={}",
            x.cls,
            x.used,
            x.refunded.map(|v| format!("{:x}", v)).unwrap_or("-".into()),
            hx(paid),
            hx(cb_delta),
            oracle(&r, &x, paid, cb_delta)
        )
    })
}

pub fn exec_line(line: &str) -> String {
    let t: Vec<&str> = line.split(' ').collect();
    match t.as_slice() {
        ["txgas", "pipe", rest @ ..] => exec_pipe(rest),
        ["txgas", "tx", rest @ ..] => exec_tx(rest),
        _ => "bad-op".into(),
    }
}

// ---------------------------------------------------------------- generators
const SPECS: &[u8] = &[0, 1, 2, 3, 4, 5, 6, 7, 8, 9, 10, 11, 12, 13, 14, 15, 16, 17, 18, 19, 255];

/// half uniform over every SpecId, half over the forks where the pipeline changes (London, Merge,
/// Shanghai, Cancun, Prague, Osaka, Latest)
fn pick_spec(rng: &mut Rng) -> u8 {
    if rng.chance(1, 2) {
        *rng.pick(SPECS)
    } else {
        *rng.pick(&[12u8, 15, 16, 17, 18, 18, 18, 19, 255])
    }
}
fn spec_of(b: u8) -> SpecId {
    SpecId::try_from_u8(b).unwrap()
}
struct Shape {
    is_create: bool,
    z: u64,
    n: u64,
    al: Vec<u64>,
    auth: Option<(u64, u64)>,
}
fn gen_shape(rng: &mut Rng, spec: SpecId) -> Shape {
    let sizes = [0u64, 0, 1, 5, 32, 100, 1000, 10000, 60000];
    let prague = spec.is_enabled_in(SpecId::PRAGUE);
    let auth = if prague && rng.chance(1, 3) {
        Some(*rng.pick(&[(1u64, 0u64), (0, 1), (2, 1), (3, 0), (1, 2), (8, 8)]))
    } else if rng.chance(1, 60) {
        Some(*rng.pick(&[(0u64, 0u64), (1, 0)]))
    } else {
        None
    };
    let is_create = auth.is_none() && rng.chance(1, 4) || rng.chance(1, 50);
    let al = if spec.is_enabled_in(SpecId::BERLIN) && rng.chance(1, 3) || rng.chance(1, 60) {
        rng.pick(&[vec![0u64], vec![2], vec![1, 3], vec![16, 16, 16]]).clone()
    } else {
        vec![]
    };
    let mut z = *rng.pick(&sizes);
    let mut n = *rng.pick(&sizes);
    if is_create && z + n > 49152 && !rng.chance(1, 10) {
        z = 7;
        n = 9;
    }
    Shape { is_create, z, n, al, auth }
}
fn initial_floor(spec: SpecId, s: &Shape) -> (u64, u64) {
    let mut data = vec![0u8; s.z as usize];
    data.extend(std::iter::repeat(1u8).take(s.n as usize));
    let g = calculate_initial_tx_gas(
        spec,
        &data,
        s.is_create,
        &access_list(&s.al),
        s.auth.map(|(k, m)| k + m).unwrap_or(0),
    );
    (g.initial_gas, g.floor_gas)
}
/// fee fields for a transaction with the given gas limit; mostly valid, boundaries of every check
fn gen_fees(rng: &mut Rng, specb: u8, gl: u64, blob_ok: bool) -> Fees {
    let spec = spec_of(specb);
    let london = spec.is_enabled_in(SpecId::LONDON);
    let cancun = spec.is_enabled_in(SpecId::CANCUN);
    let bf = *rng.pick(&[U256::ZERO, U256::from(7), U256::from(1_000_000_000u64), U256::from(u64::MAX)]);
    let w_max_price = if gl == 0 { U256::MAX } else { U256::MAX / U256::from(gl) };
    let mut gp = match rng.below(10) {
        0 => bf,
        1 => bf + U256::from(1),
        2 => w_max_price,
        3 => w_max_price.saturating_add(U256::from(rng.below(2))),
        4 => U256::ZERO,
        5 => U256::from(rng.below(1000)),
        _ => bf + U256::from(rng.below(100_000_000_000)),
    };
    if london && gp < bf && !rng.chance(1, 8) {
        gp = bf + U256::from(rng.below(50));
    }
    let pf = if rng.chance(if london { 1 } else { 0 }, 2) || rng.chance(1, 40) {
        Some(match rng.below(14) {
            0 => U256::ZERO,
            1 => gp,
            2 => gp.saturating_add(U256::from(1)),
            3 => U256::MAX - bf + U256::from(rng.below(3)),
            4 => gp.saturating_sub(bf),
            5 => gp.saturating_sub(bf).saturating_add(U256::from(1)),
            _ => U256::from(rng.below(1_000_000_000)).min(gp),
        })
    } else {
        None
    };
    let bp: Option<u128> = if cancun || rng.chance(1, 30) {
        if rng.chance(1, 40) { None } else { Some(*rng.pick(&[1u128, 1, 1000, 1u128 << 64, u128::MAX])) }
    } else if rng.chance(1, 2) {
        Some(1)
    } else {
        None
    };
    let (nb, mf) = if blob_ok && (cancun && rng.chance(1, 4) || rng.chance(1, 60)) {
        let nb = *rng.pick(&[1u64, 1, 2, 3, 6, 7, 9, 10, 0]);
        let p = U256::from(bp.unwrap_or(1));
        let mf = match rng.below(6) {
            0 => p,
            1 => p.saturating_sub(U256::from(1)),
            2 => U256::MAX,
            _ => p + U256::from(rng.below(1000)),
        };
        (nb, Some(mf))
    } else if rng.chance(1, 80) {
        (1, None)
    } else {
        (0, None)
    };
    let val = *rng.pick(&[U256::ZERO, U256::ZERO, U256::from(1), U256::from(1_000_000u64), U256::MAX]);
    // the balance the validation demands (saturating, for the generator only)
    let tbg = U256::from(nb << 17);
    let need = U256::from(gl)
        .saturating_mul(gp)
        .saturating_add(val)
        .saturating_add(if cancun { mf.unwrap_or(U256::ZERO).saturating_mul(tbg) } else { U256::ZERO });
    let bal = match rng.below(20) {
        0 | 5 => need,
        1 => need.saturating_sub(U256::from(1)),
        2 => need.saturating_add(U256::from(1)),
        3 => U256::MAX,
        4 => U256::from(1u64) << 200,
        _ => need.saturating_add(U256::from(rng.next())),
    };
    let cb = *rng.pick(&[U256::ZERO, U256::ZERO, U256::from(5), U256::MAX, U256::MAX - U256::from(1000), U256::from(1u64) << 255]);
    Fees { spec, gl, gp, pf, bf, bp, nb, mf, val: if val == U256::MAX && !rng.chance(1, 10) { U256::from(3) } else { val }, bal, cb }
}

fn gen_pipe(rng: &mut Rng, out: &mut Out) -> String {
    let specb = pick_spec(rng);
    let spec = spec_of(specb);
    let s = gen_shape(rng, spec);
    let (init, floor) = initial_floor(spec, &s);
    let hi = init.max(floor);
    let gl = match rng.below(26) {
        0 => init,
        1 => init + 1,
        2 => init.saturating_sub(1),
        3 => hi,
        4 => hi + 1,
        5 => hi.saturating_sub(1),
        6 => if floor == 0 { hi + 7 } else { floor },
        7 => u64::MAX,
        8 => 1u64 << 63,
        9 => 30_000_000,
        10 => hi + rng.below(50),
        _ => hi + rng.below(1_000_000),
    };
    let f = gen_fees(rng, specb, gl, !s.is_create && s.auth.is_none());
    let avail = gl.saturating_sub(init);
    let rem = match rng.below(14) {
        0 => 0,
        1 => 1.min(avail),
        2 => avail,
        3 => avail.saturating_sub(1),
        4 => avail / 2,
        5 => avail.saturating_sub(floor.saturating_sub(init)), // spent == max(floor, init)
        6 => avail.saturating_sub(floor.saturating_sub(init)).saturating_sub(1),
        7 => {
            out.count("pipe_rem_over_avail");
            *rng.pick(&[avail.saturating_add(1), gl, gl.saturating_add(1), u64::MAX])
        }
        _ => rng.below(avail.saturating_add(1)),
    };
    let spent = gl.saturating_sub(rem);
    let q = if spec.is_enabled_in(SpecId::LONDON) { 5 } else { 2 };
    let cap = spent / q;
    let arefund = s.auth.map(|(k, _)| k * 12500).unwrap_or(0);
    let refd: i64 = match rng.below(18) {
        0 | 1 => 0,
        2 => 1,
        3 => cap as i64,
        4 => cap.saturating_add(1) as i64,
        5 => cap.saturating_sub(1) as i64,
        6 => cap.saturating_sub(arefund) as i64,
        7 => (cap.saturating_sub(arefund) as i64).saturating_add(1),
        8 => spent as i64,
        9 => spent.saturating_sub(floor) as i64,
        10 => (spent.saturating_sub(floor) as i64).saturating_add(1),
        11 => (spent.saturating_sub(floor) as i64).saturating_sub(1),
        12 => {
            out.count("pipe_refund_negative");
            *rng.pick(&[-1i64, -(arefund as i64), -(arefund as i64) - 1, i64::MIN, -(spent as i64)])
        }
        13 => *rng.pick(&[i64::MAX, i64::MAX - arefund as i64, i64::MAX - arefund as i64 + 1]),
        14 => 4800 * rng.below(20) as i64,
        15 => 15000 * rng.below(20) as i64,
        _ => rng.below(cap.saturating_mul(2).saturating_add(2)) as i64,
    };
    let ir = match rng.below(20) {
        0..=8 => *rng.pick(&["Stop", "Return", "SelfDestruct", "ReturnContract"]),
        9..=11 => *rng.pick(&["Revert", "Revert", "CreateInitCodeStartingEF00", "InvalidEOFInitCode"]),
        12..=16 => *rng.pick(&["OutOfGas", "InvalidFEOpcode", "StackUnderflow", "CreateCollision", "OpcodeNotFound", "InvalidJump"]),
        17 => *rng.pick(&["CallTooDeep", "OutOfFunds"]),
        18 => IRS[rng.below(IRS.len() as u64) as usize].0,
        _ => *rng.pick(&["FatalExternalError", "Continue", "CallOrCreate", "InvalidExtDelegateCallTarget"]),
    };
    let same = rng.chance(1, 20);
    let rw = !rng.chance(1, 10);
    out.count(&format!("pipe_spec_{}", specb));
    out.count(if s.is_create { "pipe_create" } else { "pipe_call" });
    if s.auth.is_some() {
        out.count("pipe_7702");
    }
    if f.mf.is_some() {
        out.count("pipe_blob");
    }
    if f.pf.is_some() {
        out.count("pipe_1559");
    }
    format!(
        "txgas pipe {} {} {:x} {:x} {} {} {} {} {} {:x} {}",
        fmt_fees(&f),
        if s.is_create { "r" } else { "c" },
        s.z,
        s.n,
        fmt_al(&s.al),
        fmt_auth(s.auth),
        b01(same),
        b01(rw),
        ir,
        rem,
        refd
    )
}

fn gen_tx(rng: &mut Rng, out: &mut Out) -> String {
    let specb = pick_spec(rng);
    let spec = spec_of(specb);
    let prague = spec.is_enabled_in(SpecId::PRAGUE);
    let berlin = spec.is_enabled_in(SpecId::BERLIN);
    let prog = if rng.chance(1, 5) { "create" } else { *rng.pick(&PROGS[..PROGS.len() - 1]) };
    let k = rng.below(9) as u8;
    let auth = if prague && prog != "create" && rng.chance(2, 5) {
        Some(*rng.pick(&[(1u64, 0u64), (0, 1), (2, 1), (3, 0), (1, 2)]))
    } else {
        None
    };
    let to = if prog == "create" {
        'c'
    } else if auth.map(|(k, _)| k > 0).unwrap_or(false) && rng.chance(1, 3) {
        'a'
    } else {
        't'
    };
    let mut data = if prog == "create" { init_code(k) } else { vec![] };
    let extra = *rng.pick(&[0usize, 0, 0, 4, 36, 200, 1500, 6000]);
    for _ in 0..extra {
        data.push(if rng.chance(1, 4) { 0 } else { (rng.below(255) + 1) as u8 });
    }
    let al = if berlin && rng.chance(1, 3) { rng.pick(&[vec![0u64], vec![2], vec![8, 3], vec![1, 0, 4]]).clone() } else { vec![] };
    let g = calculate_initial_tx_gas(spec, &data, to == 'c', &access_list(&al), auth.map(|(k, m)| k + m).unwrap_or(0));
    let hi = g.initial_gas.max(g.floor_gas);
    let gl = match rng.below(16) {
        0 => hi,
        1 => hi + 1,
        2 => hi + 2300,
        3 => hi + rng.below(6000),
        4 | 5 => hi + rng.below(60000),
        6 => 30_000_000,
        _ => hi + 150_000 + rng.below(400_000),
    };
    let mut f = gen_fees(rng, specb, gl, to != 'c' && auth.is_none());
    // whole transactions: keep prices where the arithmetic is exact; extreme values are stream (a)'s job
    if f.gp > U256::from(u64::MAX) {
        f.gp = f.bf + U256::from(rng.below(1_000_000));
    }
    if let Some(p) = f.pf {
        if p > U256::from(u64::MAX) {
            f.pf = Some(U256::from(rng.below(1000)));
        }
    }
    if f.val > U256::from(u64::MAX) {
        f.val = U256::from(2);
    }
    if f.bal < (U256::from(1u64) << 160) && !rng.chance(1, 10) {
        f.bal = (U256::from(1u64) << 160) + U256::from(rng.next());
    }
    if f.cb > (U256::from(1u64) << 250) {
        f.cb = U256::from(77);
    }
    let r = TxReq { f, prog: prog.to_string(), k, to, data, al, auth, rw: !rng.chance(1, 10) };
    out.count(&format!("tx_spec_{}", specb));
    out.count(&format!("tx_prog_{}", prog));
    if r.auth.is_some() {
        out.count("tx_7702");
    }
    if r.f.mf.is_some() {
        out.count("tx_blob");
    }
    if r.f.pf.is_some() {
        out.count("tx_1559");
    }
    if !r.al.is_empty() {
        out.count("tx_access_list");
    }
    let mut obs = std::panic::catch_unwind(|| {
        run_tx(&r).ok().map(|x| (x.cls, x.obs, prague && x.used == g.floor_gas && g.floor_gas > g.initial_gas))
    })
    .ok()
    .flatten()
    .map(|(c, o, fb)| {
        if fb {
            out.count("tx_floor_binds");
        }
        (c, o)
    });
    if rng.chance(1, 4) {
        // the observation written into the request is the Inspector's (outermost call_end / create_end);
        // the executor re-checks it against what `last_frame_return` receives
        if let Some((_, o)) = obs.as_mut() {
            let seen = std::panic::catch_unwind(|| observe_with_inspector(&r)).ok().flatten();
            out.count("tx_observed_by_inspector");
            match seen {
                Some((ir, rem, refd)) => {
                    o.ir = ir;
                    o.rem = rem;
                    o.refd = refd;
                }
                None => o.ir = "FatalExternalError".into(),
            }
        }
    }
    match &obs {
        Some((cls, o)) => {
            out.count(&format!("tx_class_{}", cls));
            if o.refd != 0 {
                out.count("tx_frame_refund_nonzero");
            }
            if o.auth != 0 {
                out.count("tx_7702_refund_nonzero");
            }
        }
        None => out.count("tx_rejected"),
    }
    fmt_tx(&r, obs.as_ref().map(|x| &x.1))
}

/// the witnesses of the `_counterexample` theorems of Props/C09.lean and fixed boundary lines
pub fn fixed_lines() -> Vec<String> {
    let mut v = vec![];
    // every InstructionResult x {Frontier, London, Prague}, plain legacy call, 100000 gas, 30000 left, refund 20000
    for (name, _) in IRS {
        for spec in ["0", "c", "12"] {
            v.push(format!("txgas pipe {spec} 186a0 a - 7 1 0 - 0 ffffffffffff 5 c 0 0 - - 0 1 {name} 7530 20000"));
        }
    }
    v.push("txgas pipe".into());
    v.push("txgas nope 1".into());
    v.push("txgas pipe 12 186a0 a - 7 1 0 - 0 ffffffffffff 5 c 0 0 - - 0 1 Stopp 7530 20000".into());
    v.push("txgas pipe 12 186a0 xyz - 7 1 0 - 0 ffffffffffff 5 c 0 0 - - 0 1 Stop 7530 20000".into());
    v.push("txgas pipe 14 186a0 a - 7 1 0 - 0 ffffffffffff 5 c 0 0 - - 0 1 Stop 7530 20000".into());
    v
}

pub fn run(seed: u64, n: usize, replay: Option<Vec<String>>, out: &mut Out) {
    if let Some(lines) = replay {
        for l in lines {
            if l.trim().is_empty() || l.starts_with('#') {
                continue;
            }
            let r = exec_line(&l);
            out.push(l, r);
        }
        return;
    }
    let mut rng = Rng::new(seed ^ 0xC09);
    for l in fixed_lines() {
        let r = exec_line(&l);
        out.count("fixed");
        out.push(l, r);
    }
    for i in 0..n {
        let l = if i % 4 == 3 { gen_tx(&mut rng, out) } else { gen_pipe(&mut rng, out) };
        let r = exec_line(&l);
        let key = r.split(' ').next().unwrap_or("").to_string();
        out.count(&format!("reply_{}", key));
        out.push(l, r);
    }
}
