//! C01 (`evm`): whole transactions on the real `Evm` against `Revm.Model.Evm.transact`.
//!
//! requests (see lean/Driver/Evm.lean for the grammar):
//!   begin evm <spec> <hs> <chainid> <number> <coinbase> <timestamp> <gaslimit> <basefee> <difficulty> <prevrandao|-> <blobgasprice|-> <limit|->
//!   evm acct <addr> <balance> <nonce> <code|-> <k=v,..|->
//!   evm pc <addr> <gaslimit> <input|-> <class> <gasused> <output|->      (recorded precompile answers; input of the model only)
//!   evm tx <caller> <gaslimit> <gasprice> <to|-> <value> <data|-> <nonce|-> <chainid|-> <prio|-> <blobhashes|-> <maxblobfee|-> <accesslist|-> <authlist>
//! reply of `tx`: `reject` | `<class> gas= refund= out= created= logs= ;; <touched accounts>` | `panic` | `oracle-miss`
//!
//! The executor is a pure function of the request lines. Two sources of cases: (a) generated multi-contract worlds
//! and transactions (c01gen.rs), (b) the shipped execution-spec state tests (c01vec.rs) restricted to the cases that
//! revm itself passes (post-state root and logs hash equal the vector's).
use crate::*;
use revm::interpreter::{CallInputs, CallOutcome};
use revm::precompile::{PrecompileErrors, PrecompileSpecId, Precompiles};
use revm::primitives::{
    keccak256, AccessListItem, AccountInfo, Address, Authorization, AuthorizationList, BlobExcessGasAndPrice, Bytecode,
    Bytes, EVMError, Env, ExecutionResult, Log, Output, RecoveredAuthority, RecoveredAuthorization, ResultAndState,
    SpecId, TxKind, B256, KECCAK_EMPTY, U256,
};
use revm::{inspector_handle_register, Database, Evm, EvmContext, Inspector};
use std::collections::{BTreeMap, BTreeSet};
use std::convert::Infallible;

// ---------------------------------------------------------------------------------------------- case data

#[derive(Clone, Debug, Default)]
pub struct Acct {
    pub addr: Address,
    pub balance: U256,
    pub nonce: u64,
    pub code: Vec<u8>,
    pub storage: Vec<(U256, U256)>,
}

#[derive(Clone, Debug)]
pub struct AuthItem {
    pub chain_id: U256,
    pub address: Address,
    pub nonce: u64,
    pub authority: Option<Address>,
}

#[derive(Clone, Debug, Default)]
pub struct TxSpec {
    pub caller: Address,
    pub gas_limit: u64,
    pub gas_price: U256,
    pub to: Option<Address>,
    pub value: U256,
    pub data: Vec<u8>,
    pub nonce: Option<u64>,
    pub chain_id: Option<u64>,
    pub prio: Option<U256>,
    pub blobs: Vec<B256>,
    pub max_blob_fee: Option<U256>,
    pub access_list: Vec<(Address, Vec<U256>)>,
    pub auth: Option<Vec<AuthItem>>,
}

#[derive(Clone, Debug)]
pub struct PcAnswer {
    pub addr: Address,
    pub gas_limit: u64,
    pub input: Vec<u8>,
    pub class: u8,
    pub gas_used: u64,
    pub out: Vec<u8>,
}

#[derive(Clone, Debug)]
pub struct Case {
    pub spec: SpecId,
    pub hs: bool,
    pub chain_id: u64,
    pub number: U256,
    pub coinbase: Address,
    pub timestamp: U256,
    pub gas_limit: U256,
    pub basefee: U256,
    pub difficulty: U256,
    pub prevrandao: Option<B256>,
    pub blob_gasprice: Option<u128>,
    pub limit_code_size: Option<usize>,
    pub accts: Vec<Acct>,
    pub pcs: Vec<PcAnswer>,
    pub txs: Vec<TxSpec>,
}

pub fn au(a: Address) -> U256 {
    U256::from_be_slice(a.as_slice())
}
pub fn ua(u: U256) -> Address {
    Address::from_word(B256::from(u))
}
fn opt<T>(o: &Option<T>, f: impl Fn(&T) -> String) -> String {
    match o {
        Some(x) => f(x),
        None => "-".into(),
    }
}

impl Case {
    pub fn begin_line(&self) -> String {
        format!(
            "begin evm {} {} {:x} {} {} {} {} {} {} {} {} {}",
            self.spec as u8,
            b01(self.hs),
            self.chain_id,
            hx(self.number),
            hx(au(self.coinbase)),
            hx(self.timestamp),
            hx(self.gas_limit),
            hx(self.basefee),
            hx(self.difficulty),
            opt(&self.prevrandao, |h| hx(U256::from_be_bytes(h.0))),
            opt(&self.blob_gasprice, |p| format!("{:x}", p)),
            opt(&self.limit_code_size, |l| format!("{:x}", l)),
        )
    }
    pub fn lines(&self) -> Vec<String> {
        self.lines_with(None)
    }
    /// `extra`: a line placed right after `begin` (the `evm vector …` line of a reference-vector case)
    pub fn lines_with(&self, extra: Option<&str>) -> Vec<String> {
        let mut v = vec![self.begin_line()];
        if let Some(x) = extra {
            v.push(x.to_string());
        }
        for a in &self.accts {
            let st = if a.storage.is_empty() {
                "-".to_string()
            } else {
                a.storage.iter().map(|(k, v)| format!("{}={}", hx(*k), hx(*v))).collect::<Vec<_>>().join(",")
            };
            v.push(format!("evm acct {} {} {:x} {} {}", hx(au(a.addr)), hx(a.balance), a.nonce, hxb(&a.code), st));
        }
        for p in &self.pcs {
            v.push(format!(
                "evm pc {} {:x} {} {} {:x} {}",
                hx(au(p.addr)),
                p.gas_limit,
                hxb(&p.input),
                p.class,
                p.gas_used,
                hxb(&p.out)
            ));
        }
        for t in &self.txs {
            v.push(tx_line(t));
        }
        v
    }
}

pub fn tx_line(t: &TxSpec) -> String {
    let blobs = if t.blobs.is_empty() {
        "-".to_string()
    } else {
        t.blobs.iter().map(|h| hx(U256::from_be_bytes(h.0))).collect::<Vec<_>>().join(",")
    };
    let al = if t.access_list.is_empty() {
        "-".to_string()
    } else {
        t.access_list
            .iter()
            .map(|(a, ks)| format!("{}:{}", hx(au(*a)), ks.iter().map(|k| hx(*k)).collect::<Vec<_>>().join(",")))
            .collect::<Vec<_>>()
            .join(";")
    };
    let auth = match &t.auth {
        None => "-".to_string(),
        Some(l) if l.is_empty() => "e".to_string(),
        Some(l) => l
            .iter()
            .map(|a| {
                format!(
                    "{}:{}:{:x}:{}",
                    hx(a.chain_id),
                    hx(au(a.address)),
                    a.nonce,
                    opt(&a.authority, |x| hx(au(*x))).replace('-', "x")
                )
            })
            .collect::<Vec<_>>()
            .join(";"),
    };
    format!(
        "evm tx {} {:x} {} {} {} {} {} {} {} {} {} {} {}",
        hx(au(t.caller)),
        t.gas_limit,
        hx(t.gas_price),
        opt(&t.to, |a| hx(au(*a))),
        hx(t.value),
        hxb(&t.data),
        opt(&t.nonce, |n| format!("{:x}", n)),
        opt(&t.chain_id, |n| format!("{:x}", n)),
        opt(&t.prio, |p| hx(*p)),
        blobs,
        opt(&t.max_blob_fee, |p| hx(*p)),
        al,
        auth
    )
}

// ---------------------------------------------------------------------------------------------- parsing

fn pw(s: &str) -> Option<U256> {
    U256::from_str_radix(s, 16).ok()
}
fn pu64(s: &str) -> Option<u64> {
    u64::from_str_radix(s, 16).ok()
}
fn paddr(s: &str) -> Option<Address> {
    let w = pw(s)?;
    if w >= (U256::from(1) << 160) {
        return None;
    }
    Some(ua(w))
}
fn pbytes(s: &str) -> Option<Vec<u8>> {
    if s == "-" {
        return Some(vec![]);
    }
    if s.len() % 2 != 0 {
        return None;
    }
    (0..s.len() / 2).map(|i| u8::from_str_radix(&s[2 * i..2 * i + 2], 16).ok()).collect()
}
fn popt<T>(s: &str, f: impl Fn(&str) -> Option<T>) -> Option<Option<T>> {
    if s == "-" {
        Some(None)
    } else {
        f(s).map(Some)
    }
}
fn plist<T>(s: &str, sep: char, f: impl Fn(&str) -> Option<T>) -> Option<Vec<T>> {
    if s == "-" {
        return Some(vec![]);
    }
    s.split(sep).map(|t| f(t)).collect()
}

pub fn parse_begin(t: &[&str]) -> Option<Case> {
    if t.len() != 14 || t[0] != "begin" || t[1] != "evm" {
        return None;
    }
    let spec = SpecId::try_from_u8(t[2].parse::<u8>().ok()?)?;
    Some(Case {
        spec,
        hs: match t[3] {
            "1" => true,
            "0" => false,
            _ => return None,
        },
        chain_id: pu64(t[4])?,
        number: pw(t[5])?,
        coinbase: paddr(t[6])?,
        timestamp: pw(t[7])?,
        gas_limit: pw(t[8])?,
        basefee: pw(t[9])?,
        difficulty: pw(t[10])?,
        prevrandao: popt(t[11], |s| pw(s).map(B256::from))?,
        blob_gasprice: popt(t[12], |s| u128::from_str_radix(s, 16).ok())?,
        limit_code_size: popt(t[13], |s| pu64(s).map(|x| x as usize))?,
        accts: vec![],
        pcs: vec![],
        txs: vec![],
    })
}

pub fn parse_acct(t: &[&str]) -> Option<Acct> {
    if t.len() != 7 {
        return None;
    }
    Some(Acct {
        addr: paddr(t[2])?,
        balance: pw(t[3])?,
        nonce: pu64(t[4])?,
        code: pbytes(t[5])?,
        storage: plist(t[6], ',', |kv| {
            let (k, v) = kv.split_once('=')?;
            Some((pw(k)?, pw(v)?))
        })?,
    })
}

pub fn parse_pc(t: &[&str]) -> Option<PcAnswer> {
    if t.len() != 8 {
        return None;
    }
    Some(PcAnswer {
        addr: paddr(t[2])?,
        gas_limit: pu64(t[3])?,
        input: pbytes(t[4])?,
        class: t[5].parse().ok()?,
        gas_used: pu64(t[6])?,
        out: pbytes(t[7])?,
    })
}

pub fn parse_tx(t: &[&str]) -> Option<TxSpec> {
    if t.len() != 15 {
        return None;
    }
    let auth = match t[14] {
        "-" => None,
        "e" => Some(vec![]),
        s => Some(plist(s, ';', |it| {
            let p: Vec<&str> = it.split(':').collect();
            if p.len() != 4 {
                return None;
            }
            Some(AuthItem {
                chain_id: pw(p[0])?,
                address: paddr(p[1])?,
                nonce: pu64(p[2])?,
                authority: if p[3] == "x" { None } else { Some(paddr(p[3])?) },
            })
        })?),
    };
    Some(TxSpec {
        caller: paddr(t[2])?,
        gas_limit: pu64(t[3])?,
        gas_price: pw(t[4])?,
        to: popt(t[5], paddr)?,
        value: pw(t[6])?,
        data: pbytes(t[7])?,
        nonce: popt(t[8], pu64)?,
        chain_id: popt(t[9], pu64)?,
        prio: popt(t[10], pw)?,
        blobs: plist(t[11], ',', |s| pw(s).map(B256::from))?,
        max_blob_fee: popt(t[12], pw)?,
        access_list: plist(t[13], ';', |it| {
            let (a, ks) = it.split_once(':')?;
            let keys = if ks.is_empty() { vec![] } else { plist(ks, ',', pw)? };
            Some((paddr(a)?, keys))
        })?,
        auth,
    })
}

// ---------------------------------------------------------------------------------------------- database

/// The database of a case: `Some(info)` exactly for the listed accounts (code always present), absent storage is zero,
/// `block_hash(n) = keccak256(n.to_string())` like `EmptyDB`; `has_storage` implemented iff `hs`.
#[derive(Clone, Default)]
pub struct MemDb {
    pub accts: BTreeMap<Address, (AccountInfo, BTreeMap<U256, U256>)>,
    pub codes: BTreeMap<B256, Bytecode>,
    pub hs: bool,
}

/// how the harness turns database bytes into a `Bytecode`: `new_raw_checked` when that succeeds and is not EOF
/// (legacy or a valid EIP-7702 designator), else plain legacy bytes
pub fn db_bytecode(code: &[u8]) -> Bytecode {
    match Bytecode::new_raw_checked(Bytes::copy_from_slice(code)) {
        Ok(b) if !b.is_eof() => b,
        _ => Bytecode::new_legacy(Bytes::copy_from_slice(code)),
    }
}

impl MemDb {
    pub fn of(accts: &[Acct], hs: bool) -> Self {
        let mut db = MemDb { hs, ..Default::default() };
        for a in accts {
            let hash = if a.code.is_empty() { KECCAK_EMPTY } else { keccak256(&a.code) };
            let bc = db_bytecode(&a.code);
            db.codes.insert(hash, bc.clone());
            let info = AccountInfo { balance: a.balance, nonce: a.nonce, code_hash: hash, code: Some(bc) };
            db.accts.insert(a.addr, (info, a.storage.iter().cloned().collect()));
        }
        db
    }
}

impl Database for MemDb {
    type Error = Infallible;
    fn basic(&mut self, a: Address) -> Result<Option<AccountInfo>, Infallible> {
        Ok(self.accts.get(&a).map(|x| x.0.clone()))
    }
    fn code_by_hash(&mut self, h: B256) -> Result<Bytecode, Infallible> {
        Ok(self.codes.get(&h).cloned().expect("code_by_hash of an unknown hash"))
    }
    fn has_storage(&mut self, a: Address) -> Result<bool, Infallible> {
        Ok(self.hs && self.accts.get(&a).map(|x| x.1.values().any(|v| !v.is_zero())).unwrap_or(false))
    }
    fn storage(&mut self, a: Address, k: U256) -> Result<U256, Infallible> {
        Ok(self.accts.get(&a).and_then(|x| x.1.get(&k).copied()).unwrap_or_default())
    }
    fn block_hash(&mut self, n: u64) -> Result<B256, Infallible> {
        Ok(keccak256(n.to_string().as_bytes()))
    }
}

// ---------------------------------------------------------------------------------------------- environment

pub fn build_env(c: &Case, t: &TxSpec) -> Box<Env> {
    let mut env = Box::<Env>::default();
    env.cfg.chain_id = c.chain_id;
    env.cfg.limit_contract_code_size = c.limit_code_size;
    env.block.number = c.number;
    env.block.coinbase = c.coinbase;
    env.block.timestamp = c.timestamp;
    env.block.gas_limit = c.gas_limit;
    env.block.basefee = c.basefee;
    env.block.difficulty = c.difficulty;
    env.block.prevrandao = c.prevrandao;
    env.block.blob_excess_gas_and_price =
        c.blob_gasprice.map(|p| BlobExcessGasAndPrice { excess_blob_gas: 0, blob_gasprice: p });
    env.tx.caller = t.caller;
    env.tx.gas_limit = t.gas_limit;
    env.tx.gas_price = t.gas_price;
    env.tx.transact_to = match t.to {
        Some(a) => TxKind::Call(a),
        None => TxKind::Create,
    };
    env.tx.value = t.value;
    env.tx.data = Bytes::copy_from_slice(&t.data);
    env.tx.nonce = t.nonce;
    env.tx.chain_id = t.chain_id;
    env.tx.gas_priority_fee = t.prio;
    env.tx.blob_hashes = t.blobs.clone();
    env.tx.max_fee_per_blob_gas = t.max_blob_fee;
    env.tx.access_list = t
        .access_list
        .iter()
        .map(|(a, ks)| AccessListItem { address: *a, storage_keys: ks.iter().map(|k| B256::from(*k)).collect() })
        .collect();
    env.tx.authorization_list = t.auth.as_ref().map(|l| {
        AuthorizationList::Recovered(
            l.iter()
                .map(|a| {
                    RecoveredAuthorization::new_unchecked(
                        Authorization { chain_id: a.chain_id, address: a.address, nonce: a.nonce },
                        match a.authority {
                            Some(x) => RecoveredAuthority::Valid(x),
                            None => RecoveredAuthority::Invalid,
                        },
                    )
                })
                .collect(),
        )
    });
    env
}

// ---------------------------------------------------------------------------------------------- canonical reply

fn out_str(b: &[u8]) -> String {
    if b.len() <= 300 {
        hxb(b)
    } else {
        format!("{}#{}", b.len(), hx(U256::from_be_bytes(keccak256(b).0)))
    }
}

fn logs_str(logs: &[Log]) -> String {
    let mut full = String::new();
    for l in logs {
        let ts = if l.topics().is_empty() {
            "-".to_string()
        } else {
            l.topics().iter().map(|t| hx(U256::from_be_bytes(t.0))).collect::<Vec<_>>().join(",")
        };
        full.push_str(&format!("[{}:{}:{}]", hx(au(l.address)), ts, hxb(&l.data.data)));
    }
    if full.len() <= 600 {
        format!("{}{}", logs.len(), full)
    } else {
        let mut enc = vec![];
        for l in logs {
            enc.extend_from_slice(l.address.as_slice());
            enc.push(l.topics().len() as u8);
            for t in l.topics() {
                enc.extend_from_slice(&t.0);
            }
            enc.extend_from_slice(&(l.data.data.len() as u64).to_be_bytes());
            enc.extend_from_slice(&l.data.data);
        }
        format!("{}#{}", logs.len(), hx(U256::from_be_bytes(keccak256(&enc).0)))
    }
}

pub fn canon(rs: &ResultAndState) -> String {
    let head = match &rs.result {
        ExecutionResult::Success { gas_used, gas_refunded, logs, output, .. } => {
            let (out, created) = match output {
                Output::Call(b) => (out_str(b), "-".to_string()),
                Output::Create(b, a) => (out_str(b), opt(a, |x| hx(au(*x)))),
            };
            format!("success gas={} refund={} out={} created={} logs={}", gas_used, gas_refunded, out, created, logs_str(logs))
        }
        ExecutionResult::Revert { gas_used, output } => {
            format!("revert gas={} refund=0 out={} created=- logs=0", gas_used, out_str(output))
        }
        ExecutionResult::Halt { gas_used, .. } => format!("halt gas={} refund=0 out=- created=- logs=0", gas_used),
    };
    let mut accts: Vec<(U256, String)> = vec![];
    for (a, acc) in rs.state.iter() {
        if !acc.is_touched() {
            continue;
        }
        let mut slots: Vec<(U256, U256)> =
            acc.storage.iter().filter(|(_, s)| s.is_changed()).map(|(k, s)| (*k, s.present_value)).collect();
        slots.sort();
        let ss = if slots.is_empty() {
            "-".to_string()
        } else {
            slots.iter().map(|(k, v)| format!("{}={}", hx(*k), hx(*v))).collect::<Vec<_>>().join(",")
        };
        let flags = format!("{}{}", if acc.is_created() { "c" } else { "" }, if acc.is_selfdestructed() { "s" } else { "" });
        accts.push((
            au(*a),
            format!(
                "{}:{}:{}:{:x}:{}:{}",
                hx(au(*a)),
                flags,
                hx(acc.info.balance),
                acc.info.nonce,
                hx(U256::from_be_bytes(acc.info.code_hash.0)),
                ss
            ),
        ));
    }
    accts.sort();
    format!("{} ;; {}", head, accts.into_iter().map(|x| x.1).collect::<Vec<_>>().join(" "))
}

// ---------------------------------------------------------------------------------------------- precompile oracle

/// precompiles whose cryptographic core the Lean model does not execute
pub fn is_oracle_pc(a: &Address) -> bool {
    let b = a.as_slice();
    if b[..19].iter().any(|x| *x != 0) {
        return false;
    }
    let n = b[19];
    n == 1 || n == 8 || (10..=17).contains(&n)
}

/// records the `(address, gas limit, input)` of every call whose code address is an oracle precompile
#[derive(Default)]
pub struct PcRec {
    pub calls: BTreeSet<(Address, u64, Vec<u8>)>,
    pub steps: u64,
    pub max_depth: u64,
    pub ncalls: u64,
    pub ncreates: u64,
}
impl<DB: Database> Inspector<DB> for PcRec {
    fn step(&mut self, _i: &mut revm::interpreter::Interpreter, _c: &mut EvmContext<DB>) {
        self.steps += 1;
    }
    fn call(&mut self, c: &mut EvmContext<DB>, i: &mut CallInputs) -> Option<CallOutcome> {
        self.ncalls += 1;
        self.max_depth = self.max_depth.max(c.journaled_state.depth() as u64);
        if is_oracle_pc(&i.bytecode_address) {
            self.calls.insert((i.bytecode_address, i.gas_limit, i.input.to_vec()));
        }
        None
    }
    fn create(
        &mut self,
        _c: &mut EvmContext<DB>,
        _i: &mut revm::interpreter::CreateInputs,
    ) -> Option<revm::interpreter::CreateOutcome> {
        self.ncreates += 1;
        None
    }
}

pub fn pc_answer(spec: SpecId, env: &Env, addr: Address, gas_limit: u64, input: &[u8]) -> Option<PcAnswer> {
    let pcs = Precompiles::new(PrecompileSpecId::from_spec_id(spec));
    let p = pcs.get(&addr)?;
    let r = p.call_ref(&Bytes::copy_from_slice(input), gas_limit, env);
    let (class, gas_used, out) = match r {
        Ok(o) => (0u8, o.gas_used, o.bytes.to_vec()),
        Err(PrecompileErrors::Error(e)) => (if e.is_oog() { 1 } else { 2 }, 0, vec![]),
        Err(PrecompileErrors::Fatal { .. }) => (3, 0, vec![]),
    };
    Some(PcAnswer { addr, gas_limit, input: input.to_vec(), class, gas_used, out })
}

/// run the transaction with the recording inspector: the precompile calls it makes and a few statistics
pub fn record(c: &Case, t: &TxSpec) -> PcRec {
    let db = MemDb::of(&c.accts, c.hs);
    let env = build_env(c, t);
    let mut evm = Evm::builder()
        .with_db(db)
        .with_external_context(PcRec::default())
        .with_env(env)
        .with_spec_id(c.spec)
        .append_handler_register(inspector_handle_register)
        .build();
    let _ = evm.transact();
    std::mem::take(&mut evm.context.external)
}

// ---------------------------------------------------------------------------------------------- executor

/// `Evm::transact` on a fresh `Evm` over the case's database; the canonical reply
pub fn run_tx(c: &Case, t: &TxSpec) -> String {
    // the oracle lines must cover what the transaction asks of the oracle precompiles
    let rec = record(c, t);
    for (a, g, i) in &rec.calls {
        if Precompiles::new(PrecompileSpecId::from_spec_id(c.spec)).get(a).is_some()
            && !c.pcs.iter().any(|p| p.addr == *a && p.gas_limit == *g && p.input == *i)
        {
            return "oracle-miss".into();
        }
    }
    let db = MemDb::of(&c.accts, c.hs);
    let env = build_env(c, t);
    let mut evm = Evm::builder().with_db(db).with_env(env).with_spec_id(c.spec).build();
    match evm.transact() {
        Ok(rs) => canon(&rs),
        Err(EVMError::Transaction(_)) | Err(EVMError::Header(_)) => "reject".into(),
        Err(EVMError::Precompile(_)) => "fatal:precompile".into(),
        Err(EVMError::Database(_)) => "fatal:database".into(),
        Err(EVMError::Custom(_)) => "fatal:custom".into(),
    }
}

/// replies for the lines of one case (`begin evm …` first)
pub fn exec_case(lines: &[String]) -> Vec<String> {
    let mut out = vec![];
    let mut case: Option<Case> = None;
    for l in lines {
        let t: Vec<&str> = l.split(' ').collect();
        if t.first() == Some(&"begin") {
            case = parse_begin(&t);
            out.push(if case.is_some() { "ok".into() } else { "bad-op".to_string() });
            continue;
        }
        let Some(c) = case.as_mut() else {
            out.push("bad-op".into());
            continue;
        };
        let r = match (t.first(), t.get(1)) {
            (Some(&"evm"), Some(&"acct")) => match parse_acct(&t) {
                Some(a) => {
                    c.accts.push(a);
                    "ok".to_string()
                }
                None => "bad-op".into(),
            },
            (Some(&"evm"), Some(&"pc")) => match parse_pc(&t) {
                Some(p) => {
                    c.pcs.push(p);
                    "ok".to_string()
                }
                None => "bad-op".into(),
            },
            (Some(&"evm"), Some(&"vector")) if t.len() == 6 => match (t[3].parse::<usize>(), t[5].parse::<usize>()) {
                (Ok(ui), Ok(idx)) => {
                    let (rel, fork) = (t[2].to_string(), t[4].to_string());
                    guarded(move || crate::c01vec::exec_vector(&rel, ui, &fork, idx))
                }
                _ => "bad-op".into(),
            },
            (Some(&"evm"), Some(&"tx")) => match parse_tx(&t) {
                Some(tx) => {
                    let cc = c.clone();
                    guarded(move || run_tx(&cc, &tx))
                }
                None => "bad-op".into(),
            },
            _ => "bad-op".into(),
        };
        out.push(r);
    }
    out
}

/// complete the case with the oracle lines its transactions need
pub fn add_oracle(c: &mut Case) {
    let txs = c.txs.clone();
    for t in &txs {
        let cc = c.clone();
        let tt = t.clone();
        let rec = std::panic::catch_unwind(move || record(&cc, &tt)).unwrap_or_default();
        let env = build_env(c, t);
        for (a, g, i) in rec.calls {
            if c.pcs.iter().any(|p| p.addr == a && p.gas_limit == g && p.input == i) {
                continue;
            }
            if let Some(p) = pc_answer(c.spec, &env, a, g, &i) {
                c.pcs.push(p);
            }
        }
    }
}

pub fn run(seed: u64, n: usize, replay: Option<Vec<String>>, out: &mut Out) {
    if let Some(lines) = replay {
        // split into cases at `begin`
        let mut cur: Vec<String> = vec![];
        let mut flush = |cur: &mut Vec<String>, out: &mut Out| {
            if cur.is_empty() {
                return;
            }
            let rs = exec_case(cur);
            for (l, r) in cur.iter().zip(rs) {
                out.push(l.clone(), r);
            }
            cur.clear();
        };
        for l in lines {
            if l.starts_with("begin ") {
                flush(&mut cur, out);
            }
            cur.push(l);
        }
        flush(&mut cur, out);
        return;
    }
    let mut cases: Vec<(Option<String>, Case)> = vec![];
    for c in crate::c01bnd::boundary(out, n >= 2000) {
        cases.push((None, c));
    }
    crate::c01gen::generate(seed, n, &mut cases, out);
    crate::c01vec::vectors(seed, n, &mut cases, out);
    for (extra, c) in cases {
        let lines = c.lines_with(extra.as_deref());
        let rs = exec_case(&lines);
        for (l, r) in lines.iter().zip(rs) {
            if l.starts_with("evm tx") {
                let k = r.split(' ').next().unwrap_or("").split(':').next().unwrap_or("").to_string();
                out.count(&format!("result-{}", k));
            }
            out.push(l.clone(), r);
        }
    }
}
