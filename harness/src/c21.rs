//! C21: REAL create transactions / CREATE / CREATE2 against a target that has code / nonce /
//! storage, with the target's state held in each of the crate's database layers.
//! request: `collision <kind> <spec_u8> <layer> <code 0|1> <nonce hex> <storage 0|1> <balance hex>`
//!   kind  = tx | create | create2
//!   layer = direct (generated map db, has_storage implemented) | wrapref | box | mutref | components
//!           | cache (CacheDB over the map db) | state (State over it) | statecache (State over CacheDB over it)
//!           | inserted (InMemoryDB with insert_account_info / insert_account_storage)
//! reply:   `<class> allgas=<0|1> changed=<0|1>`
//!   class   = collision | created | other:<InstructionResult>   (the result seen by `create_end`)
//!   allgas  = the gas passed to the creation was consumed: tx: gas_used == gas_limit; opcodes:
//!             gas_used == gas_used of the same transaction with a clean target and init code `INVALID`
//!   changed = the target's info / probed slot / created, selfdestructed, touched flags differ from before
use crate::c20::MapDb;
use crate::*;
use revm::db::{CacheDB, InMemoryDB, WrapDatabaseRef};
use revm::interpreter::{CreateInputs, CreateOutcome, InstructionResult};
use revm::primitives::db::DatabaseComponents;
use revm::primitives::{
    keccak256, AccountInfo, Address, Bytecode, Bytes, ExecutionResult, SpecId, TxKind, B256, KECCAK_EMPTY, U256,
};
use revm::{inspector_handle_register, Database, Evm, EvmContext, Inspector};

#[derive(Default)]
struct Rec {
    results: Vec<InstructionResult>,
}
impl<DB: Database> Inspector<DB> for Rec {
    fn create_end(&mut self, _c: &mut EvmContext<DB>, _i: &CreateInputs, outcome: CreateOutcome) -> CreateOutcome {
        self.results.push(outcome.result.result);
        outcome
    }
}

const GAS_LIMIT: u64 = 1_000_000;
fn caller() -> Address {
    Address::with_last_byte(0x99)
}
fn creator() -> Address {
    Address::with_last_byte(0xC0)
}
const SALT: u8 = 0x2a;
const SLOT: u64 = 1;

fn creator_code(kind: &str, init: u8) -> Vec<u8> {
    let mut c = vec![0x60, init, 0x60, 0x00, 0x53];
    if kind == "create2" {
        c.extend([0x60, SALT]);
    }
    c.extend([0x60, 0x01, 0x60, 0x00, 0x60, 0x01]);
    c.push(if kind == "create2" { 0xf5 } else { 0xf0 });
    c.extend([0x60, 0x00, 0x55, 0x00]);
    c
}

fn target_addr(kind: &str, init: u8) -> Address {
    match kind {
        "tx" => caller().create(0),
        "create" => creator().create(1),
        _ => creator().create2(B256::from(U256::from(SALT)).0, keccak256([init])),
    }
}

#[derive(Clone, Copy)]
struct Pre {
    code: bool,
    nonce: u64,
    storage: bool,
    balance: U256,
}
impl Pre {
    fn info(&self) -> Option<AccountInfo> {
        if !self.code && self.nonce == 0 && !self.storage && self.balance.is_zero() {
            return None;
        }
        let (code_hash, code) = if self.code {
            (keccak256([0x00u8]), Some(Bytecode::new_legacy(Bytes::from(vec![0x00u8]))))
        } else {
            (KECCAK_EMPTY, None)
        };
        Some(AccountInfo { balance: self.balance, nonce: self.nonce, code_hash, code })
    }
}

fn base_accounts(kind: &str, init: u8) -> Vec<(Address, AccountInfo)> {
    let mut v = vec![(caller(), AccountInfo { balance: U256::from(1u64 << 60), ..Default::default() })];
    if kind != "tx" {
        let code = creator_code(kind, init);
        v.push((
            creator(),
            AccountInfo {
                balance: U256::from(10),
                nonce: 1,
                code_hash: keccak256(&code),
                code: Some(Bytecode::new_legacy(Bytes::from(code))),
            },
        ));
    }
    v
}

fn map_db(kind: &str, init: u8, target: Address, pre: Option<Pre>) -> MapDb {
    let mut m = MapDb::default();
    for (a, i) in base_accounts(kind, init) {
        if let Some(c) = &i.code {
            m.codes.insert(i.code_hash, c.clone());
        }
        m.accts.insert(a, i);
    }
    if let Some(p) = pre {
        if let Some(i) = p.info() {
            if let Some(c) = &i.code {
                m.codes.insert(i.code_hash, c.clone());
            }
            m.accts.insert(target, i);
        }
        if p.storage {
            m.slots.insert((target, U256::from(SLOT)), U256::from(1));
        }
    }
    m
}

struct RunOut {
    class: String,
    gas_used: u64,
    changed: bool,
}

fn run_evm<DB: Database>(db: DB, kind: &str, init: u8, spec: SpecId, target: Address, pre: Pre) -> Result<RunOut, String> {
    let mut evm = Evm::builder()
        .with_db(db)
        .with_external_context(Rec::default())
        .with_spec_id(spec)
        .append_handler_register(inspector_handle_register)
        .modify_tx_env(|tx| {
            tx.caller = caller();
            tx.gas_limit = GAS_LIMIT;
            if kind == "tx" {
                tx.transact_to = TxKind::Create;
                tx.data = Bytes::from(vec![init]);
                tx.value = U256::from(1);
            } else {
                tx.transact_to = TxKind::Call(creator());
            }
        })
        .build();
    let rs = match evm.transact() {
        Ok(rs) => rs,
        Err(_) => return Err("evm-error".into()),
    };
    let gas_used = match &rs.result {
        ExecutionResult::Success { gas_used, .. } => *gas_used,
        ExecutionResult::Revert { gas_used, .. } => *gas_used,
        ExecutionResult::Halt { gas_used, .. } => *gas_used,
    };
    let recs = &evm.context.external.results;
    let class = match recs.as_slice() {
        [InstructionResult::CreateCollision] => "collision".to_string(),
        [InstructionResult::Return] | [InstructionResult::Stop] => "created".to_string(),
        [r] => format!("other:{:?}", r),
        l => format!("other:{}-create-ends", l.len()),
    };
    let pre_info = pre.info().unwrap_or(AccountInfo { code: None, ..Default::default() });
    let changed = match rs.state.get(&target) {
        None => false,
        Some(acc) => {
            acc.info.balance != pre_info.balance
                || acc.info.nonce != pre_info.nonce
                || acc.info.code_hash != pre_info.code_hash
                || acc.is_created()
                || acc.is_selfdestructed()
                || acc.is_touched()
                || acc
                    .storage
                    .get(&U256::from(SLOT))
                    .map(|s| s.present_value != if pre.storage { U256::from(1) } else { U256::ZERO })
                    .unwrap_or(false)
        }
    };
    Ok(RunOut { class, gas_used, changed })
}

fn run_layer(layer: &str, kind: &str, init: u8, spec: SpecId, pre: Pre, clean: bool) -> Result<RunOut, String> {
    let target = target_addr(kind, init);
    let p = if clean { None } else { Some(pre) };
    let eff = if clean { Pre { code: false, nonce: 0, storage: false, balance: U256::ZERO } } else { pre };
    let m = map_db(kind, init, target, p);
    match layer {
        "direct" => run_evm(m, kind, init, spec, target, eff),
        "wrapref" => run_evm(WrapDatabaseRef(m), kind, init, spec, target, eff),
        "box" => run_evm(Box::new(m), kind, init, spec, target, eff),
        "mutref" => {
            let mut m = m;
            run_evm(&mut m, kind, init, spec, target, eff)
        }
        "components" => run_evm(DatabaseComponents { state: m.clone(), block_hash: m }, kind, init, spec, target, eff),
        "cache" => run_evm(CacheDB::new(m), kind, init, spec, target, eff),
        "state" => run_evm(revm::db::State::builder().with_database(m).build(), kind, init, spec, target, eff),
        "statecache" => {
            run_evm(revm::db::State::builder().with_database(CacheDB::new(m)).build(), kind, init, spec, target, eff)
        }
        "inserted" => {
            let mut db = InMemoryDB::default();
            for (a, i) in base_accounts(kind, init) {
                db.insert_account_info(a, i);
            }
            if let Some(p) = p {
                if let Some(i) = p.info() {
                    db.insert_account_info(target, i);
                }
                if p.storage {
                    db.insert_account_storage(target, U256::from(SLOT), U256::from(1)).unwrap();
                }
            }
            run_evm(db, kind, init, spec, target, eff)
        }
        _ => Err("bad-op".into()),
    }
}

pub const LAYERS: &[&str] =
    &["direct", "wrapref", "box", "mutref", "components", "cache", "state", "statecache", "inserted"];
pub const KINDS: &[&str] = &["tx", "create", "create2"];

pub fn exec_line(line: &str) -> String {
    let t: Vec<&str> = line.split(' ').collect();
    if t.len() != 8 || t[0] != "collision" {
        return "bad-op".into();
    }
    let kind = t[1].to_string();
    if !KINDS.contains(&kind.as_str()) || !LAYERS.contains(&t[3]) {
        return "bad-op".into();
    }
    let Some(spec) = t[2].parse::<u8>().ok().and_then(SpecId::try_from_u8) else { return "bad-op".into() };
    if kind == "create2" && (spec as u8) < (SpecId::CONSTANTINOPLE as u8) {
        return "bad-op".into();
    }
    let layer = t[3].to_string();
    let (code, storage) = match (t[4], t[6]) {
        ("0" | "1", "0" | "1") => (t[4] == "1", t[6] == "1"),
        _ => return "bad-op".into(),
    };
    let Ok(nonce) = u64::from_str_radix(t[5], 16) else { return "bad-op".into() };
    let Ok(balance) = U256::from_str_radix(t[7], 16) else { return "bad-op".into() };
    let pre = Pre { code, nonce, storage, balance };
    guarded(move || {
        let r = match run_layer(&layer, &kind, 0x00, spec, pre, false) {
            Ok(r) => r,
            Err(e) => return e,
        };
        let allgas = if kind == "tx" {
            r.gas_used == GAS_LIMIT
        } else {
            match run_layer(&layer, &kind, 0xfe, spec, pre, true) {
                Ok(reference) => reference.class == "other:InvalidFEOpcode" && r.gas_used == reference.gas_used,
                Err(e) => return e,
            }
        };
        format!("{} allgas={} changed={}", r.class, b01(allgas), b01(r.changed))
    })
}

pub fn gen(seed: u64, n: usize) -> Vec<String> {
    let mut rng = Rng::new(seed ^ 0xC21);
    let specs = crate::act::all_specs();
    let mut v = vec![];
    // complete: kinds x layers x 2x2x2 pre-states (balance 0), on a rotating spec
    let mut i = 0usize;
    for kind in KINDS {
        for layer in LAYERS {
            for bits in 0..8u8 {
                loop {
                    let s = specs[i % specs.len()] as u8;
                    i += 1;
                    if *kind != "create2" || s >= SpecId::CONSTANTINOPLE as u8 {
                        v.push(format!("collision {kind} {s} {layer} {} {} {} 0", bits & 1, (bits >> 1) & 1, (bits >> 2) & 1));
                        break;
                    }
                }
            }
        }
    }
    // storage-only target: every kind x layer x every spec
    for kind in KINDS {
        for layer in LAYERS {
            for s in &specs {
                let s = *s as u8;
                if *kind != "create2" || s >= SpecId::CONSTANTINOPLE as u8 {
                    v.push(format!("collision {kind} {s} {layer} 0 0 1 0"));
                }
            }
        }
    }
    // random
    for _ in 0..n {
        let kind = *rng.pick(KINDS);
        let layer = *rng.pick(LAYERS);
        let s = *rng.pick(&specs) as u8;
        let nonce = match rng.below(4) { 0 | 1 => 0, 2 => 1, _ => u64::MAX };
        let bal = match rng.below(3) { 0 => U256::ZERO, 1 => U256::from(rng.below(100)), _ => U256::MAX - U256::from(rng.below(3)) };
        v.push(format!("collision {kind} {s} {layer} {} {:x} {} {}", rng.below(2), nonce, rng.below(2), hx(bal)));
    }
    // malformed
    v.push("collision tx 0 nowhere 0 0 0 0".into());
    v.push("collision create2 2 direct 0 0 1 0".into());
    v.push("collision eof 19 direct 0 0 1 0".into());
    v
}

pub fn run(seed: u64, n: usize, replay: Option<Vec<String>>, out: &mut Out) {
    let lines = replay.unwrap_or_else(|| gen(seed, n));
    for l in lines {
        let r = exec_line(&l);
        let t: Vec<&str> = l.split(' ').collect();
        if t.len() == 8 {
            out.count(&format!("kind:{}", t[1]));
            out.count(&format!("layer:{}", t[3]));
            out.count(&format!("pre:code{}nonce{}storage{}", t[4], if t[5] == "0" { "0" } else { "+" }, t[6]));
        }
        out.count(&format!("reply:{}", r.split(' ').next().unwrap_or("?")));
        out.push(l, r);
    }
}
