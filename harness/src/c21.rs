//! C21: REAL create transactions / CREATE / CREATE2 against a target that has code / nonce /
//! storage, with the target's state held in each of the crate's database layers.
//! request: `collision <kind> <spec_u8> <layer> <code 0|1> <nonce hex> <storage 0|1> <balance hex> [<warmth>]`
//!   kind  = tx | create | create2
//!   warmth = how the target entered the journal before the creation reaches it (default `cold`):
//!            cold (first touch) | al (tx access list, no keys) | alkey (access list with the key of the
//!            stored slot) | alkey0 (access list with a key whose slot is zero) | balance | extcodesize
//!            (the creator executes the opcode on the target first) | call (a CALL to it, no SLOAD) |
//!            subrevert (a sub-call BALANCEs it and halts: stays in the journal's map, cold again) |
//!            retry (create2 only: the same CREATE2 twice in one transaction, init code INVALID; the
//!            reply is about the second attempt and requires the first to have ended the same way).
//!            tx takes cold / al / alkey / alkey0 only; an access list before Berlin is `evm-error`.
//!   layer = direct (generated map db, has_storage implemented) | wrapref | box | mutref | components
//!           | cache (CacheDB over the map db) | state (State over it) | statecache (State over CacheDB over it)
//!           | inserted (InMemoryDB with insert_account_info / insert_account_storage)
//! reply:   `<class> allgas=<0|1> changed=<0|1>`
//!   class   = collision | created | other:<InstructionResult>   (the result seen by `create_end`)
//!   allgas  = the gas passed to the creation was consumed: tx: gas_used == gas_limit; opcodes:
//!             gas_used == gas_used of the same transaction with a clean target and init code `INVALID`
//!   changed = the target's info / probed slot / created, selfdestructed, touched flags differ from before
use crate::c20::MapDb;
use crate::*;
use revm::db::{CacheDB, InMemoryDB, WrapDatabaseRef};
use revm::interpreter::{CreateInputs, CreateOutcome, InstructionResult};
use revm::primitives::db::DatabaseComponents;
use revm::primitives::{
    keccak256, AccessListItem, AccountInfo, Address, Bytecode, Bytes, ExecutionResult, SpecId, TxKind, B256, KECCAK_EMPTY,
    U256,
};
use revm::{inspector_handle_register, Database, Evm, EvmContext, Inspector};

#[derive(Default)]
struct Rec {
    results: Vec<InstructionResult>,
}
impl<DB: Database> Inspector<DB> for Rec {
    fn create_end(&mut self, _c: &mut EvmContext<DB>, _i: &CreateInputs, outcome: CreateOutcome) -> CreateOutcome {
        self.results.push(outcome.result.result);
        outcome
    }
}

const GAS_LIMIT: u64 = 1_000_000;
/// the second CREATE2 of `retry` needs 32000 gas out of the 1/64 the first one leaves
const GAS_LIMIT_RETRY: u64 = 10_000_000;
fn gas_limit(warmth: &str) -> u64 {
    if warmth == "retry" { GAS_LIMIT_RETRY } else { GAS_LIMIT }
}
/// the contract of `subrevert`: BALANCE(target), then INVALID
fn helper() -> Address {
    Address::with_last_byte(0xC1)
}
pub const WARMTHS: &[&str] = &["cold", "al", "alkey", "alkey0", "balance", "extcodesize", "call", "subrevert", "retry"];
fn warmth_applies(kind: &str, warmth: &str) -> bool {
    match warmth {
        "cold" | "al" | "alkey" | "alkey0" => true,
        "retry" => kind == "create2",
        _ => kind != "tx",
    }
}
fn caller() -> Address {
    Address::with_last_byte(0x99)
}
fn creator() -> Address {
    Address::with_last_byte(0xC0)
}
const SALT: u8 = 0x2a;
const SLOT: u64 = 1;

/// CALL(gas 10000, to, value 0, no data); POP
fn call_seq(to: Address) -> Vec<u8> {
    let mut c = vec![0x60, 0x00, 0x60, 0x00, 0x60, 0x00, 0x60, 0x00, 0x60, 0x00, 0x73];
    c.extend(to.as_slice());
    c.extend([0x61, 0x27, 0x10, 0xf1, 0x50]);
    c
}
fn helper_code(target: Address) -> Vec<u8> {
    let mut c = vec![0x73];
    c.extend(target.as_slice());
    c.extend([0x31, 0x50, 0xfe]);
    c
}

fn creator_code(kind: &str, init: u8, warmth: &str, target: Address) -> Vec<u8> {
    let mut c = vec![0x60, init, 0x60, 0x00, 0x53];
    match warmth {
        "balance" | "extcodesize" => {
            c.push(0x73);
            c.extend(target.as_slice());
            c.extend([if warmth == "balance" { 0x31 } else { 0x3b }, 0x50]);
        }
        "call" => c.extend(call_seq(target)),
        "subrevert" => c.extend(call_seq(helper())),
        _ => {}
    }
    let attempts = if warmth == "retry" { 2 } else { 1 };
    for i in 0..attempts {
        if kind == "create2" {
            c.extend([0x60, SALT]);
        }
        c.extend([0x60, 0x01, 0x60, 0x00, 0x60, 0x01]);
        c.push(if kind == "create2" { 0xf5 } else { 0xf0 });
        if i + 1 < attempts {
            c.push(0x50);
        }
    }
    c.extend([0x60, 0x00, 0x55, 0x00]);
    c
}

fn target_addr(kind: &str, init: u8) -> Address {
    match kind {
        "tx" => caller().create(0),
        "create" => creator().create(1),
        _ => creator().create2(B256::from(U256::from(SALT)).0, keccak256([init])),
    }
}

#[derive(Clone, Copy)]
struct Pre {
    code: bool,
    nonce: u64,
    storage: bool,
    balance: U256,
}
impl Pre {
    fn info(&self) -> Option<AccountInfo> {
        if !self.code && self.nonce == 0 && !self.storage && self.balance.is_zero() {
            return None;
        }
        let (code_hash, code) = if self.code {
            (keccak256([0x00u8]), Some(Bytecode::new_legacy(Bytes::from(vec![0x00u8]))))
        } else {
            (KECCAK_EMPTY, None)
        };
        Some(AccountInfo { balance: self.balance, nonce: self.nonce, code_hash, code })
    }
}

fn base_accounts(kind: &str, init: u8, warmth: &str) -> Vec<(Address, AccountInfo)> {
    let mut v = vec![(caller(), AccountInfo { balance: U256::from(1u64 << 60), ..Default::default() })];
    if warmth == "subrevert" {
        let code = helper_code(target_addr(kind, init));
        v.push((
            helper(),
            AccountInfo {
                balance: U256::ZERO,
                nonce: 1,
                code_hash: keccak256(&code),
                code: Some(Bytecode::new_legacy(Bytes::from(code))),
            },
        ));
    }
    if kind != "tx" {
        let code = creator_code(kind, init, warmth, target_addr(kind, init));
        v.push((
            creator(),
            AccountInfo {
                balance: U256::from(10),
                nonce: 1,
                code_hash: keccak256(&code),
                code: Some(Bytecode::new_legacy(Bytes::from(code))),
            },
        ));
    }
    v
}

fn map_db(kind: &str, init: u8, warmth: &str, target: Address, pre: Option<Pre>) -> MapDb {
    let mut m = MapDb::default();
    for (a, i) in base_accounts(kind, init, warmth) {
        if let Some(c) = &i.code {
            m.codes.insert(i.code_hash, c.clone());
        }
        m.accts.insert(a, i);
    }
    if let Some(p) = pre {
        if let Some(i) = p.info() {
            if let Some(c) = &i.code {
                m.codes.insert(i.code_hash, c.clone());
            }
            m.accts.insert(target, i);
        }
        if p.storage {
            m.slots.insert((target, U256::from(SLOT)), U256::from(1));
        }
    }
    m
}

struct RunOut {
    class: String,
    gas_used: u64,
    changed: bool,
}

fn run_evm<DB: Database>(
    db: DB,
    kind: &str,
    init: u8,
    warmth: &str,
    spec: SpecId,
    target: Address,
    pre: Pre,
) -> Result<RunOut, String> {
    let mut evm = Evm::builder()
        .with_db(db)
        .with_external_context(Rec::default())
        .with_spec_id(spec)
        .append_handler_register(inspector_handle_register)
        .modify_tx_env(|tx| {
            tx.caller = caller();
            tx.gas_limit = gas_limit(warmth);
            let key = |k: u64| B256::from(U256::from(k));
            match warmth {
                "al" => tx.access_list = vec![AccessListItem { address: target, storage_keys: vec![] }],
                "alkey" => tx.access_list = vec![AccessListItem { address: target, storage_keys: vec![key(SLOT)] }],
                "alkey0" => tx.access_list = vec![AccessListItem { address: target, storage_keys: vec![key(SLOT + 1)] }],
                _ => {}
            }
            if kind == "tx" {
                tx.transact_to = TxKind::Create;
                tx.data = Bytes::from(vec![init]);
                tx.value = U256::from(1);
            } else {
                tx.transact_to = TxKind::Call(creator());
            }
        })
        .build();
    let rs = match evm.transact() {
        Ok(rs) => rs,
        Err(_) => return Err("evm-error".into()),
    };
    let gas_used = match &rs.result {
        ExecutionResult::Success { gas_used, .. } => *gas_used,
        ExecutionResult::Revert { gas_used, .. } => *gas_used,
        ExecutionResult::Halt { gas_used, .. } => *gas_used,
    };
    let recs = &evm.context.external.results;
    let class_of = |r: &InstructionResult| match r {
        InstructionResult::CreateCollision => "collision".to_string(),
        InstructionResult::Return | InstructionResult::Stop => "created".to_string(),
        r => format!("other:{:?}", r),
    };
    let class = match (warmth, recs.as_slice()) {
        ("retry", [first, second]) => {
            if class_of(first) == class_of(second) {
                class_of(second)
            } else {
                format!("other:retry-differs-{:?}-then-{:?}", first, second)
            }
        }
        ("retry", l) => format!("other:{}-create-ends", l.len()),
        (_, [r]) => class_of(r),
        (_, l) => format!("other:{}-create-ends", l.len()),
    };
    // a CALL to the target touches it (nothing else before the creation does); before Tangerine a
    // collision takes ALL gas of the creator, whose frame then fails and takes the touch back
    let expect_touched = warmth == "call" && matches!(rs.result, ExecutionResult::Success { .. });
    let pre_info = pre.info().unwrap_or(AccountInfo { code: None, ..Default::default() });
    let changed = match rs.state.get(&target) {
        None => false,
        Some(acc) => {
            acc.info.balance != pre_info.balance
                || acc.info.nonce != pre_info.nonce
                || acc.info.code_hash != pre_info.code_hash
                || acc.is_created()
                || acc.is_selfdestructed()
                || acc.is_touched() != expect_touched
                || acc
                    .storage
                    .get(&U256::from(SLOT))
                    .map(|s| s.present_value != if pre.storage { U256::from(1) } else { U256::ZERO })
                    .unwrap_or(false)
        }
    };
    Ok(RunOut { class, gas_used, changed })
}

fn run_layer(layer: &str, kind: &str, init: u8, warmth: &str, spec: SpecId, pre: Pre, clean: bool) -> Result<RunOut, String> {
    let target = target_addr(kind, init);
    // the reference target: nothing there — except for `call`, whose gas before Spurious Dragon depends on
    // whether the callee exists: there the reference keeps the existence of the real target (balance 1 only)
    let clean_pre = if warmth == "call" && pre.info().is_some() {
        Some(Pre { code: false, nonce: 0, storage: false, balance: U256::from(1) })
    } else {
        None
    };
    let p = if clean { clean_pre } else { Some(pre) };
    let eff = if clean {
        clean_pre.unwrap_or(Pre { code: false, nonce: 0, storage: false, balance: U256::ZERO })
    } else {
        pre
    };
    let m = map_db(kind, init, warmth, target, p);
    let w = warmth;
    match layer {
        "direct" => run_evm(m, kind, init, w, spec, target, eff),
        "wrapref" => run_evm(WrapDatabaseRef(m), kind, init, w, spec, target, eff),
        "box" => run_evm(Box::new(m), kind, init, w, spec, target, eff),
        "mutref" => {
            let mut m = m;
            run_evm(&mut m, kind, init, w, spec, target, eff)
        }
        "components" => run_evm(DatabaseComponents { state: m.clone(), block_hash: m }, kind, init, w, spec, target, eff),
        "cache" => run_evm(CacheDB::new(m), kind, init, w, spec, target, eff),
        "state" => run_evm(revm::db::State::builder().with_database(m).build(), kind, init, w, spec, target, eff),
        "statecache" => {
            run_evm(revm::db::State::builder().with_database(CacheDB::new(m)).build(), kind, init, w, spec, target, eff)
        }
        "inserted" => {
            let mut db = InMemoryDB::default();
            for (a, i) in base_accounts(kind, init, warmth) {
                db.insert_account_info(a, i);
            }
            if let Some(p) = p {
                if let Some(i) = p.info() {
                    db.insert_account_info(target, i);
                }
                if p.storage {
                    db.insert_account_storage(target, U256::from(SLOT), U256::from(1)).unwrap();
                }
            }
            run_evm(db, kind, init, w, spec, target, eff)
        }
        _ => Err("bad-op".into()),
    }
}

pub const LAYERS: &[&str] =
    &["direct", "wrapref", "box", "mutref", "components", "cache", "state", "statecache", "inserted"];
pub const KINDS: &[&str] = &["tx", "create", "create2"];

pub fn exec_line(line: &str) -> String {
    let t: Vec<&str> = line.split(' ').collect();
    if !(t.len() == 8 || t.len() == 9) || t[0] != "collision" {
        return "bad-op".into();
    }
    let warmth = if t.len() == 9 { t[8].to_string() } else { "cold".to_string() };
    let kind = t[1].to_string();
    if !KINDS.contains(&kind.as_str()) || !LAYERS.contains(&t[3]) {
        return "bad-op".into();
    }
    if !WARMTHS.contains(&warmth.as_str()) || !warmth_applies(&kind, &warmth) {
        return "bad-op".into();
    }
    let Some(spec) = t[2].parse::<u8>().ok().and_then(SpecId::try_from_u8) else { return "bad-op".into() };
    if kind == "create2" && (spec as u8) < (SpecId::CONSTANTINOPLE as u8) {
        return "bad-op".into();
    }
    let layer = t[3].to_string();
    let (code, storage) = match (t[4], t[6]) {
        ("0" | "1", "0" | "1") => (t[4] == "1", t[6] == "1"),
        _ => return "bad-op".into(),
    };
    let Ok(nonce) = u64::from_str_radix(t[5], 16) else { return "bad-op".into() };
    let Ok(balance) = U256::from_str_radix(t[7], 16) else { return "bad-op".into() };
    let pre = Pre { code, nonce, storage, balance };
    guarded(move || {
        // `retry` runs the same CREATE2 twice: the init code must fail so that the address stays free
        let init = if warmth == "retry" { 0xfe } else { 0x00 };
        let r = match run_layer(&layer, &kind, init, &warmth, spec, pre, false) {
            Ok(r) => r,
            Err(e) => return e,
        };
        let allgas = if kind == "tx" {
            r.gas_used == gas_limit(&warmth)
        } else {
            match run_layer(&layer, &kind, 0xfe, &warmth, spec, pre, true) {
                Ok(reference) => reference.class == "other:InvalidFEOpcode" && r.gas_used == reference.gas_used,
                Err(e) => return e,
            }
        };
        format!("{} allgas={} changed={}", r.class, b01(allgas), b01(r.changed))
    })
}

pub fn gen(seed: u64, n: usize) -> Vec<String> {
    let mut rng = Rng::new(seed ^ 0xC21);
    let specs = crate::act::all_specs();
    let mut v = vec![];
    // complete: kinds x layers x 2x2x2 pre-states (balance 0), on a rotating spec
    let mut i = 0usize;
    for kind in KINDS {
        for layer in LAYERS {
            for bits in 0..8u8 {
                loop {
                    let s = specs[i % specs.len()] as u8;
                    i += 1;
                    if *kind != "create2" || s >= SpecId::CONSTANTINOPLE as u8 {
                        v.push(format!("collision {kind} {s} {layer} {} {} {} 0", bits & 1, (bits >> 1) & 1, (bits >> 2) & 1));
                        break;
                    }
                }
            }
        }
    }
    // storage-only target: every kind x layer x every spec
    for kind in KINDS {
        for layer in LAYERS {
            for s in &specs {
                let s = *s as u8;
                if *kind != "create2" || s >= SpecId::CONSTANTINOPLE as u8 {
                    v.push(format!("collision {kind} {s} {layer} 0 0 1 0"));
                }
            }
        }
    }
    // the warmth dimension. complete: kinds x layers x 2x2x2 pre-states x every way of becoming warm
    // (rotating forks; access lists on Berlin and later, with every 5th one earlier = evm-error)
    let spec_ok = |kind: &str, warmth: &str, s: u8, j: usize| {
        (kind != "create2" || s >= SpecId::CONSTANTINOPLE as u8)
            && (!warmth.starts_with("al") || s >= SpecId::BERLIN as u8 || j % 5 == 0)
    };
    let mut j = 0usize;
    for kind in KINDS {
        for layer in LAYERS {
            for warmth in WARMTHS.iter().filter(|w| **w != "cold" && warmth_applies(kind, w)) {
                for bits in 0..8u8 {
                    j += 1;
                    loop {
                        let s = specs[i % specs.len()] as u8;
                        i += 1;
                        if spec_ok(kind, warmth, s, j) {
                            v.push(format!(
                                "collision {kind} {s} {layer} {} {} {} 0 {warmth}",
                                bits & 1,
                                (bits >> 1) & 1,
                                (bits >> 2) & 1
                            ));
                            break;
                        }
                    }
                }
            }
        }
    }
    // storage-only target, already warm: every kind x layer x way of becoming warm x every fork
    for kind in KINDS {
        for layer in LAYERS {
            for warmth in WARMTHS.iter().filter(|w| **w != "cold" && warmth_applies(kind, w)) {
                for s in &specs {
                    let s = *s as u8;
                    if spec_ok(kind, warmth, s, 1) {
                        v.push(format!("collision {kind} {s} {layer} 0 0 1 0 {warmth}"));
                    }
                }
            }
        }
    }
    // random
    for _ in 0..n {
        let kind = *rng.pick(KINDS);
        let layer = *rng.pick(LAYERS);
        let s = *rng.pick(&specs) as u8;
        let nonce = match rng.below(4) { 0 | 1 => 0, 2 => 1, _ => u64::MAX };
        let bal = match rng.below(3) { 0 => U256::ZERO, 1 => U256::from(rng.below(100)), _ => U256::MAX - U256::from(rng.below(3)) };
        let line = format!("collision {kind} {s} {layer} {} {:x} {} {}", rng.below(2), nonce, rng.below(2), hx(bal));
        if rng.chance(1, 3) {
            v.push(line);
        } else {
            let ws: Vec<&&str> = WARMTHS.iter().filter(|w| warmth_applies(kind, w)).collect();
            v.push(format!("{line} {}", rng.pick(&ws)));
        }
    }
    // malformed
    v.push("collision tx 0 nowhere 0 0 0 0".into());
    v.push("collision create2 2 direct 0 0 1 0".into());
    v.push("collision eof 19 direct 0 0 1 0".into());
    v.push("collision tx 17 direct 0 0 1 0 balance".into());
    v.push("collision create 17 direct 0 0 1 0 retry".into());
    v.push("collision create2 17 direct 0 0 1 0 lukewarm".into());
    v.push("collision create2 17 direct 0 0 1 0 cold extra".into());
    v
}

pub fn run(seed: u64, n: usize, replay: Option<Vec<String>>, out: &mut Out) {
    let lines = replay.unwrap_or_else(|| gen(seed, n));
    for l in lines {
        let r = exec_line(&l);
        let t: Vec<&str> = l.split(' ').collect();
        if t.len() == 8 || t.len() == 9 {
            out.count(&format!("warmth:{}", t.get(8).unwrap_or(&"cold")));
            out.count(&format!("kind:{}", t[1]));
            out.count(&format!("layer:{}", t[3]));
            out.count(&format!("pre:code{}nonce{}storage{}", t[4], if t[5] == "0" { "0" } else { "+" }, t[6]));
        }
        out.count(&format!("reply:{}", r.split(' ').next().unwrap_or("?")));
        out.push(l, r);
    }
}
