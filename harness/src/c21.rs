//! C21: REAL create transactions / CREATE / CREATE2 against a target that has code / nonce /
//! storage, with the target's state held in each of the crate's database layers.
//! request: `collision <kind> <spec_u8> <layer> <code 0|1> <nonce hex> <storage 0|1> <balance hex> [<warmth>]`
//!   kind  = tx | create | create2
//!   warmth = how the target entered the journal before the creation reaches it (default `cold`):
//!            cold (first touch) | al (tx access list, no keys) | alkey (access list with the key of the
//!            stored slot) | alkey0 (access list with a key whose slot is zero) | balance | extcodesize
//!            (the creator executes the opcode on the target first) | call (a CALL to it, no SLOAD) |
//!            subrevert (a sub-call BALANCEs it and halts: stays in the journal's map, cold again) |
//!            retry (create2 only: the same CREATE2 twice in one transaction, init code INVALID; the
//!            reply is about the second attempt and requires the first to have ended the same way).
//!            tx takes cold / al / alkey / alkey0 only; an access list before Berlin is `evm-error`.
//!   a 10th token (after warmth `cold`) = history of the target WITHIN this transaction:
//!            untouched | created (create2: the same CREATE2 ran before in this transaction, succeeded and deployed
//!            code `00`; still alive) | destroyed (create2: … deployed `CALLER SELFDESTRUCT` and was then called) |
//!            funded (create / create2: BALANCE of the target, then a CALL sending it 1 wei) | hsonly (the database
//!            answers basic = None but has_storage = true for the target; tokens must be `0 0 1 0`).
//!            created / destroyed reply `other:first-<class>` when the earlier creation did not succeed. For these
//!            lines `allgas` is measured by the inspector: the creator frame got no gas back from the create.
//!   layer = direct (generated map db, has_storage implemented) | wrapref | box | mutref | components
//!           | cache (CacheDB over the map db) | state (State over it) | statecache (State over CacheDB over it)
//!           | inserted (InMemoryDB with insert_account_info / insert_account_storage)
//! reply:   `<class> allgas=<0|1> changed=<0|1>`
//!   class   = collision | created | other:<InstructionResult>   (the result seen by `create_end`)
//!   allgas  = the gas passed to the creation was consumed: tx: gas_used == gas_limit; opcodes:
//!             gas_used == gas_used of the same transaction with a clean target and init code `INVALID`
//!   changed = the target's info / probed slot / created, selfdestructed, touched flags differ from before
use crate::c20::MapDb;
use crate::*;
use revm::db::{CacheDB, InMemoryDB, WrapDatabaseRef};
use revm::interpreter::{CreateInputs, CreateOutcome, InstructionResult, Interpreter};
use revm::primitives::db::DatabaseComponents;
use revm::primitives::{
    keccak256, AccessListItem, AccountInfo, Address, Bytecode, Bytes, ExecutionResult, SpecId, TxKind, B256, KECCAK_EMPTY,
    U256,
};
use revm::{inspector_handle_register, Database, Evm, EvmContext, Inspector};

#[derive(Default)]
struct Rec {
    results: Vec<InstructionResult>,
}
impl<DB: Database> Inspector<DB> for Rec {
    fn create_end(&mut self, _c: &mut EvmContext<DB>, _i: &CreateInputs, outcome: CreateOutcome) -> CreateOutcome {
        self.results.push(outcome.result.result);
        outcome
    }
}

const GAS_LIMIT: u64 = 1_000_000;
/// the second CREATE2 of `retry` needs 32000 gas out of the 1/64 the first one leaves
const GAS_LIMIT_RETRY: u64 = 10_000_000;
fn gas_limit(warmth: &str) -> u64 {
    if warmth == "retry" { GAS_LIMIT_RETRY } else { GAS_LIMIT }
}
/// the contract of `subrevert`: BALANCE(target), then INVALID
fn helper() -> Address {
    Address::with_last_byte(0xC1)
}
pub const WARMTHS: &[&str] = &["cold", "al", "alkey", "alkey0", "balance", "extcodesize", "call", "subrevert", "retry"];
fn warmth_applies(kind: &str, warmth: &str) -> bool {
    match warmth {
        "cold" | "al" | "alkey" | "alkey0" => true,
        "retry" => kind == "create2",
        _ => kind != "tx",
    }
}
fn caller() -> Address {
    Address::with_last_byte(0x99)
}
fn creator() -> Address {
    Address::with_last_byte(0xC0)
}
const SALT: u8 = 0x2a;
const SLOT: u64 = 1;

/// CALL(gas 10000, to, value 0, no data); POP
fn call_seq(to: Address) -> Vec<u8> {
    let mut c = vec![0x60, 0x00, 0x60, 0x00, 0x60, 0x00, 0x60, 0x00, 0x60, 0x00, 0x73];
    c.extend(to.as_slice());
    c.extend([0x61, 0x27, 0x10, 0xf1, 0x50]);
    c
}
fn helper_code(target: Address) -> Vec<u8> {
    let mut c = vec![0x73];
    c.extend(target.as_slice());
    c.extend([0x31, 0x50, 0xfe]);
    c
}

fn creator_code(kind: &str, init: u8, warmth: &str, target: Address) -> Vec<u8> {
    let mut c = vec![0x60, init, 0x60, 0x00, 0x53];
    match warmth {
        "balance" | "extcodesize" => {
            c.push(0x73);
            c.extend(target.as_slice());
            c.extend([if warmth == "balance" { 0x31 } else { 0x3b }, 0x50]);
        }
        "call" => c.extend(call_seq(target)),
        "subrevert" => c.extend(call_seq(helper())),
        _ => {}
    }
    let attempts = if warmth == "retry" { 2 } else { 1 };
    for i in 0..attempts {
        if kind == "create2" {
            c.extend([0x60, SALT]);
        }
        c.extend([0x60, 0x01, 0x60, 0x00, 0x60, 0x01]);
        c.push(if kind == "create2" { 0xf5 } else { 0xf0 });
        if i + 1 < attempts {
            c.push(0x50);
        }
    }
    c.extend([0x60, 0x00, 0x55, 0x00]);
    c
}

fn target_addr(kind: &str, init: u8) -> Address {
    match kind {
        "tx" => caller().create(0),
        "create" => creator().create(1),
        _ => creator().create2(B256::from(U256::from(SALT)).0, keccak256([init])),
    }
}

#[derive(Clone, Copy)]
struct Pre {
    code: bool,
    nonce: u64,
    storage: bool,
    balance: U256,
}
impl Pre {
    fn info(&self) -> Option<AccountInfo> {
        if !self.code && self.nonce == 0 && !self.storage && self.balance.is_zero() {
            return None;
        }
        let (code_hash, code) = if self.code {
            (keccak256([0x00u8]), Some(Bytecode::new_legacy(Bytes::from(vec![0x00u8]))))
        } else {
            (KECCAK_EMPTY, None)
        };
        Some(AccountInfo { balance: self.balance, nonce: self.nonce, code_hash, code })
    }
}

fn base_accounts(kind: &str, init: u8, warmth: &str) -> Vec<(Address, AccountInfo)> {
    let mut v = vec![(caller(), AccountInfo { balance: U256::from(1u64 << 60), ..Default::default() })];
    if warmth == "subrevert" {
        let code = helper_code(target_addr(kind, init));
        v.push((
            helper(),
            AccountInfo {
                balance: U256::ZERO,
                nonce: 1,
                code_hash: keccak256(&code),
                code: Some(Bytecode::new_legacy(Bytes::from(code))),
            },
        ));
    }
    if kind != "tx" {
        let code = creator_code(kind, init, warmth, target_addr(kind, init));
        v.push((
            creator(),
            AccountInfo {
                balance: U256::from(10),
                nonce: 1,
                code_hash: keccak256(&code),
                code: Some(Bytecode::new_legacy(Bytes::from(code))),
            },
        ));
    }
    v
}

fn map_db(kind: &str, init: u8, warmth: &str, target: Address, pre: Option<Pre>) -> MapDb {
    let mut m = MapDb::default();
    for (a, i) in base_accounts(kind, init, warmth) {
        if let Some(c) = &i.code {
            m.codes.insert(i.code_hash, c.clone());
        }
        m.accts.insert(a, i);
    }
    if let Some(p) = pre {
        if let Some(i) = p.info() {
            if let Some(c) = &i.code {
                m.codes.insert(i.code_hash, c.clone());
            }
            m.accts.insert(target, i);
        }
        if p.storage {
            m.slots.insert((target, U256::from(SLOT)), U256::from(1));
        }
    }
    m
}

struct RunOut {
    class: String,
    gas_used: u64,
    changed: bool,
}

fn run_evm<DB: Database>(
    db: DB,
    kind: &str,
    init: u8,
    warmth: &str,
    spec: SpecId,
    target: Address,
    pre: Pre,
) -> Result<RunOut, String> {
    let mut evm = Evm::builder()
        .with_db(db)
        .with_external_context(Rec::default())
        .with_spec_id(spec)
        .append_handler_register(inspector_handle_register)
        .modify_tx_env(|tx| {
            tx.caller = caller();
            tx.gas_limit = gas_limit(warmth);
            let key = |k: u64| B256::from(U256::from(k));
            match warmth {
                "al" => tx.access_list = vec![AccessListItem { address: target, storage_keys: vec![] }],
                "alkey" => tx.access_list = vec![AccessListItem { address: target, storage_keys: vec![key(SLOT)] }],
                "alkey0" => tx.access_list = vec![AccessListItem { address: target, storage_keys: vec![key(SLOT + 1)] }],
                _ => {}
            }
            if kind == "tx" {
                tx.transact_to = TxKind::Create;
                tx.data = Bytes::from(vec![init]);
                tx.value = U256::from(1);
            } else {
                tx.transact_to = TxKind::Call(creator());
            }
        })
        .build();
    let rs = match evm.transact() {
        Ok(rs) => rs,
        Err(_) => return Err("evm-error".into()),
    };
    let gas_used = match &rs.result {
        ExecutionResult::Success { gas_used, .. } => *gas_used,
        ExecutionResult::Revert { gas_used, .. } => *gas_used,
        ExecutionResult::Halt { gas_used, .. } => *gas_used,
    };
    let recs = &evm.context.external.results;
    let class_of = |r: &InstructionResult| match r {
        InstructionResult::CreateCollision => "collision".to_string(),
        InstructionResult::Return | InstructionResult::Stop => "created".to_string(),
        r => format!("other:{:?}", r),
    };
    let class = match (warmth, recs.as_slice()) {
        ("retry", [first, second]) => {
            if class_of(first) == class_of(second) {
                class_of(second)
            } else {
                format!("other:retry-differs-{:?}-then-{:?}", first, second)
            }
        }
        ("retry", l) => format!("other:{}-create-ends", l.len()),
        (_, [r]) => class_of(r),
        (_, l) => format!("other:{}-create-ends", l.len()),
    };
    // a CALL to the target touches it (nothing else before the creation does); before Tangerine a
    // collision takes ALL gas of the creator, whose frame then fails and takes the touch back
    let expect_touched = warmth == "call" && matches!(rs.result, ExecutionResult::Success { .. });
    let pre_info = pre.info().unwrap_or(AccountInfo { code: None, ..Default::default() });
    let changed = match rs.state.get(&target) {
        None => false,
        Some(acc) => {
            acc.info.balance != pre_info.balance
                || acc.info.nonce != pre_info.nonce
                || acc.info.code_hash != pre_info.code_hash
                || acc.is_created()
                || acc.is_selfdestructed()
                || acc.is_touched() != expect_touched
                || acc
                    .storage
                    .get(&U256::from(SLOT))
                    .map(|s| s.present_value != if pre.storage { U256::from(1) } else { U256::ZERO })
                    .unwrap_or(false)
        }
    };
    Ok(RunOut { class, gas_used, changed })
}

fn run_layer(layer: &str, kind: &str, init: u8, warmth: &str, spec: SpecId, pre: Pre, clean: bool) -> Result<RunOut, String> {
    let target = target_addr(kind, init);
    // the reference target: nothing there — except for `call`, whose gas before Spurious Dragon depends on
    // whether the callee exists: there the reference keeps the existence of the real target (balance 1 only)
    let clean_pre = if warmth == "call" && pre.info().is_some() {
        Some(Pre { code: false, nonce: 0, storage: false, balance: U256::from(1) })
    } else {
        None
    };
    let p = if clean { clean_pre } else { Some(pre) };
    let eff = if clean {
        clean_pre.unwrap_or(Pre { code: false, nonce: 0, storage: false, balance: U256::ZERO })
    } else {
        pre
    };
    let m = map_db(kind, init, warmth, target, p);
    let w = warmth;
    match layer {
        "direct" => run_evm(m, kind, init, w, spec, target, eff),
        "wrapref" => run_evm(WrapDatabaseRef(m), kind, init, w, spec, target, eff),
        "box" => run_evm(Box::new(m), kind, init, w, spec, target, eff),
        "mutref" => {
            let mut m = m;
            run_evm(&mut m, kind, init, w, spec, target, eff)
        }
        "components" => run_evm(DatabaseComponents { state: m.clone(), block_hash: m }, kind, init, w, spec, target, eff),
        "cache" => run_evm(CacheDB::new(m), kind, init, w, spec, target, eff),
        "state" => run_evm(revm::db::State::builder().with_database(m).build(), kind, init, w, spec, target, eff),
        "statecache" => {
            run_evm(revm::db::State::builder().with_database(CacheDB::new(m)).build(), kind, init, w, spec, target, eff)
        }
        "inserted" => {
            let mut db = InMemoryDB::default();
            for (a, i) in base_accounts(kind, init, warmth) {
                db.insert_account_info(a, i);
            }
            if let Some(p) = p {
                if let Some(i) = p.info() {
                    db.insert_account_info(target, i);
                }
                if p.storage {
                    db.insert_account_storage(target, U256::from(SLOT), U256::from(1)).unwrap();
                }
            }
            run_evm(db, kind, init, w, spec, target, eff)
        }
        _ => Err("bad-op".into()),
    }
}


// ------------------------------------------------------------------ history of the target within the transaction

pub const HISTORIES: &[&str] = &["untouched", "created", "destroyed", "funded", "hsonly"];
const GAS_LIMIT_HIST: u64 = 10_000_000;

/// records every create_end and, for each CREATE / CREATE2 executed, how much gas came back to the
/// frame that executed it (remaining at its next step minus remaining right after the opcode)
#[derive(Default)]
struct RecH {
    results: Vec<InstructionResult>,
    returned: Vec<u64>,
    cur_op: u8,
    pending: Vec<(u64, u64)>,
}
impl<DB: Database> Inspector<DB> for RecH {
    fn step(&mut self, interp: &mut Interpreter, c: &mut EvmContext<DB>) {
        let d = c.journaled_state.depth() as u64;
        if let Some((pd, rem)) = self.pending.last().copied() {
            if pd == d {
                self.pending.pop();
                self.returned.push(interp.gas.remaining().saturating_sub(rem));
            }
        }
        self.cur_op = interp.current_opcode();
    }
    fn step_end(&mut self, interp: &mut Interpreter, c: &mut EvmContext<DB>) {
        if (self.cur_op == 0xf0 || self.cur_op == 0xf5) && interp.instruction_result == InstructionResult::CallOrCreate {
            self.pending.push((c.journaled_state.depth() as u64, interp.gas.remaining()));
        }
    }
    fn create_end(&mut self, _c: &mut EvmContext<DB>, _i: &CreateInputs, outcome: CreateOutcome) -> CreateOutcome {
        self.results.push(outcome.result.result);
        outcome
    }
}

/// (init code, runtime code it deploys)
fn hist_init(hist: &str) -> (Vec<u8>, Vec<u8>) {
    match hist {
        // MSTORE8(0, 0x00); RETURN(0, 1)
        "created" => (vec![0x60, 0x00, 0x60, 0x00, 0x53, 0x60, 0x01, 0x60, 0x00, 0xf3], vec![0x00]),
        // MSTORE(0, 0x33ff); RETURN(30, 2)      runtime: CALLER SELFDESTRUCT
        "destroyed" => (vec![0x61, 0x33, 0xff, 0x60, 0x00, 0x52, 0x60, 0x02, 0x60, 0x1e, 0xf3], vec![0x33, 0xff]),
        _ => (vec![0x00], vec![]),
    }
}
fn hist_target(kind: &str, hist: &str) -> Address {
    match kind {
        "tx" => caller().create(0),
        "create" => creator().create(1),
        _ => creator().create2(B256::from(U256::from(SALT)).0, keccak256(hist_init(hist).0)),
    }
}
/// CALL(gas, to, value, no data); POP
fn call_seq_gv(to: Address, gas: u16, value: u8) -> Vec<u8> {
    let mut c = vec![0x60, 0x00, 0x60, 0x00, 0x60, 0x00, 0x60, 0x00, 0x60, value, 0x73];
    c.extend(to.as_slice());
    c.extend([0x61, (gas >> 8) as u8, gas as u8, 0xf1, 0x50]);
    c
}
fn hist_creator_code(kind: &str, hist: &str) -> Vec<u8> {
    let (init, _) = hist_init(hist);
    let target = hist_target(kind, hist);
    let n = init.len() as u8;
    // the init code right-aligned in memory word 0
    let mut c = vec![0x5f + n];
    c.extend(&init);
    c.extend([0x60, 0x00, 0x52]);
    let create = |c: &mut Vec<u8>| {
        if kind == "create2" {
            c.extend([0x60, SALT]);
        }
        c.extend([0x60, n, 0x60, 32 - n, 0x60, 0x01]);
        c.push(if kind == "create2" { 0xf5 } else { 0xf0 });
    };
    match hist {
        "funded" => {
            c.push(0x73);
            c.extend(target.as_slice());
            c.extend([0x31, 0x50]);
            c.extend(call_seq_gv(target, 10000, 1));
        }
        "created" => {
            create(&mut c);
            c.push(0x50);
        }
        "destroyed" => {
            create(&mut c);
            c.push(0x50);
            c.extend(call_seq_gv(target, 50000, 0));
        }
        _ => {}
    }
    create(&mut c);
    c.extend([0x60, 0x00, 0x55, 0x00]);
    c
}
fn hist_accounts(kind: &str, hist: &str) -> Vec<(Address, AccountInfo)> {
    let mut v = vec![(caller(), AccountInfo { balance: U256::from(1u64 << 60), ..Default::default() })];
    if kind != "tx" {
        let code = hist_creator_code(kind, hist);
        v.push((
            creator(),
            AccountInfo {
                balance: U256::from(10),
                nonce: 1,
                code_hash: keccak256(&code),
                code: Some(Bytecode::new_legacy(Bytes::from(code))),
            },
        ));
    }
    v
}

fn run_hist<DB: Database>(db: DB, kind: &str, hist: &str, spec: SpecId, pre: Pre) -> String {
    let target = hist_target(kind, hist);
    let (init, runtime) = hist_init(hist);
    let mut evm = Evm::builder()
        .with_db(db)
        .with_external_context(RecH::default())
        .with_spec_id(spec)
        .append_handler_register(inspector_handle_register)
        .modify_tx_env(|tx| {
            tx.caller = caller();
            tx.gas_limit = GAS_LIMIT_HIST;
            if kind == "tx" {
                tx.transact_to = TxKind::Create;
                tx.data = Bytes::from(init.clone());
                tx.value = U256::from(1);
            } else {
                tx.transact_to = TxKind::Call(creator());
            }
        })
        .build();
    let rs = match evm.transact() {
        Ok(rs) => rs,
        Err(_) => return "evm-error".into(),
    };
    let (gas_used, success) = match &rs.result {
        ExecutionResult::Success { gas_used, .. } => (*gas_used, true),
        ExecutionResult::Revert { gas_used, .. } => (*gas_used, false),
        ExecutionResult::Halt { gas_used, .. } => (*gas_used, false),
    };
    let rec = &evm.context.external;
    let class_of = |r: &InstructionResult| match r {
        InstructionResult::CreateCollision => "collision".to_string(),
        InstructionResult::Return | InstructionResult::Stop => "created".to_string(),
        r => format!("other:{:?}", r),
    };
    let two = hist == "created" || hist == "destroyed";
    let class = match (two, rec.results.as_slice()) {
        (true, [first, second]) => {
            if class_of(first) != "created" {
                return format!("other:first-{}", class_of(first));
            }
            class_of(second)
        }
        (false, [r]) => class_of(r),
        (_, l) => return format!("other:{}-create-ends", l.len()),
    };
    let allgas = if kind == "tx" {
        gas_used == GAS_LIMIT_HIST
    } else {
        match (rec.returned.len() == rec.results.len(), rec.returned.last()) {
            (true, Some(back)) => *back == 0,
            _ => return format!("other:{}-creates-measured", rec.returned.len()),
        }
    };
    // the target as the journal had it when the creation in question reached it
    let db_info = if hist == "hsonly" { None } else { pre.info() };
    let base = db_info.unwrap_or(AccountInfo { code: None, ..Default::default() });
    // (balance, nonce, code hash, created, selfdestructed, touched)
    let expect = if !success {
        (base.balance, base.nonce, base.code_hash, false, false, false)
    } else {
        match hist {
            "funded" => (base.balance + U256::from(1), base.nonce, base.code_hash, false, false, true),
            "created" => (base.balance + U256::from(1), 1, keccak256(&runtime), true, false, true),
            "destroyed" => (U256::ZERO, 1, keccak256(&runtime), true, true, true),
            _ => (base.balance, base.nonce, base.code_hash, false, false, false),
        }
    };
    let changed = match rs.state.get(&target) {
        None => false,
        Some(acc) => {
            (acc.info.balance, acc.info.nonce, acc.info.code_hash, acc.is_created(), acc.is_selfdestructed(), acc.is_touched())
                != expect
                || acc
                    .storage
                    .get(&U256::from(SLOT))
                    .map(|s| s.present_value != if pre.storage { U256::from(1) } else { U256::ZERO })
                    .unwrap_or(false)
        }
    };
    format!("{} allgas={} changed={}", class, b01(allgas), b01(changed))
}

fn run_hist_layer(layer: &str, kind: &str, hist: &str, spec: SpecId, pre: Pre) -> String {
    let target = hist_target(kind, hist);
    let info = if hist == "hsonly" { None } else { pre.info() };
    let mut m = MapDb::default();
    for (a, i) in hist_accounts(kind, hist) {
        if let Some(c) = &i.code {
            m.codes.insert(i.code_hash, c.clone());
        }
        m.accts.insert(a, i);
    }
    if let Some(i) = &info {
        if let Some(c) = &i.code {
            m.codes.insert(i.code_hash, c.clone());
        }
        m.accts.insert(target, i.clone());
    }
    if pre.storage {
        m.slots.insert((target, U256::from(SLOT)), U256::from(1));
    }
    match layer {
        "direct" => run_hist(m, kind, hist, spec, pre),
        "wrapref" => run_hist(WrapDatabaseRef(m), kind, hist, spec, pre),
        "box" => run_hist(Box::new(m), kind, hist, spec, pre),
        "mutref" => {
            let mut m = m;
            run_hist(&mut m, kind, hist, spec, pre)
        }
        "components" => run_hist(DatabaseComponents { state: m.clone(), block_hash: m }, kind, hist, spec, pre),
        "cache" => run_hist(CacheDB::new(m), kind, hist, spec, pre),
        "state" => run_hist(revm::db::State::builder().with_database(m).build(), kind, hist, spec, pre),
        "statecache" => run_hist(revm::db::State::builder().with_database(CacheDB::new(m)).build(), kind, hist, spec, pre),
        "inserted" => {
            let mut db = InMemoryDB::default();
            for (a, i) in hist_accounts(kind, hist) {
                db.insert_account_info(a, i);
            }
            if let Some(i) = info {
                db.insert_account_info(target, i);
            }
            if pre.storage {
                db.insert_account_storage(target, U256::from(SLOT), U256::from(1)).unwrap();
            }
            run_hist(db, kind, hist, spec, pre)
        }
        _ => "bad-op".into(),
    }
}

fn hist_applies(kind: &str, hist: &str, pre: &Pre) -> bool {
    match hist {
        "created" | "destroyed" => kind == "create2",
        "funded" => kind != "tx" && pre.balance < (U256::from(1) << 255),
        "hsonly" => !pre.code && pre.nonce == 0 && pre.storage && pre.balance.is_zero(),
        _ => false,
    }
}

pub const LAYERS: &[&str] =
    &["direct", "wrapref", "box", "mutref", "components", "cache", "state", "statecache", "inserted"];
pub const KINDS: &[&str] = &["tx", "create", "create2"];

pub fn exec_line(line: &str) -> String {
    let t: Vec<&str> = line.split(' ').collect();
    if t.len() == 10 && t[0] == "collision" && t[8] == "cold" {
        if t[9] == "untouched" {
            return exec_line(&t[..9].join(" "));
        }
        return exec_history(&t);
    }
    if !(t.len() == 8 || t.len() == 9) || t[0] != "collision" {
        return "bad-op".into();
    }
    let warmth = if t.len() == 9 { t[8].to_string() } else { "cold".to_string() };
    let kind = t[1].to_string();
    if !KINDS.contains(&kind.as_str()) || !LAYERS.contains(&t[3]) {
        return "bad-op".into();
    }
    if !WARMTHS.contains(&warmth.as_str()) || !warmth_applies(&kind, &warmth) {
        return "bad-op".into();
    }
    let Some(spec) = t[2].parse::<u8>().ok().and_then(SpecId::try_from_u8) else { return "bad-op".into() };
    if kind == "create2" && (spec as u8) < (SpecId::CONSTANTINOPLE as u8) {
        return "bad-op".into();
    }
    let layer = t[3].to_string();
    let (code, storage) = match (t[4], t[6]) {
        ("0" | "1", "0" | "1") => (t[4] == "1", t[6] == "1"),
        _ => return "bad-op".into(),
    };
    let Ok(nonce) = u64::from_str_radix(t[5], 16) else { return "bad-op".into() };
    let Ok(balance) = U256::from_str_radix(t[7], 16) else { return "bad-op".into() };
    let pre = Pre { code, nonce, storage, balance };
    guarded(move || {
        // `retry` runs the same CREATE2 twice: the init code must fail so that the address stays free
        let init = if warmth == "retry" { 0xfe } else { 0x00 };
        let r = match run_layer(&layer, &kind, init, &warmth, spec, pre, false) {
            Ok(r) => r,
            Err(e) => return e,
        };
        let allgas = if kind == "tx" {
            r.gas_used == gas_limit(&warmth)
        } else {
            match run_layer(&layer, &kind, 0xfe, &warmth, spec, pre, true) {
                Ok(reference) => reference.class == "other:InvalidFEOpcode" && r.gas_used == reference.gas_used,
                Err(e) => return e,
            }
        };
        format!("{} allgas={} changed={}", r.class, b01(allgas), b01(r.changed))
    })
}

fn exec_history(t: &[&str]) -> String {
    let kind = t[1].to_string();
    let hist = t[9].to_string();
    if !KINDS.contains(&kind.as_str()) || !LAYERS.contains(&t[3]) || !HISTORIES.contains(&hist.as_str()) {
        return "bad-op".into();
    }
    let Some(spec) = t[2].parse::<u8>().ok().and_then(SpecId::try_from_u8) else { return "bad-op".into() };
    if kind == "create2" && (spec as u8) < (SpecId::CONSTANTINOPLE as u8) {
        return "bad-op".into();
    }
    let layer = t[3].to_string();
    let (code, storage) = match (t[4], t[6]) {
        ("0" | "1", "0" | "1") => (t[4] == "1", t[6] == "1"),
        _ => return "bad-op".into(),
    };
    let Ok(nonce) = u64::from_str_radix(t[5], 16) else { return "bad-op".into() };
    let Ok(balance) = U256::from_str_radix(t[7], 16) else { return "bad-op".into() };
    let pre = Pre { code, nonce, storage, balance };
    if !hist_applies(&kind, &hist, &pre) {
        return "bad-op".into();
    }
    guarded(move || run_hist_layer(&layer, &kind, &hist, spec, pre))
}

pub fn gen(seed: u64, n: usize) -> Vec<String> {
    let mut rng = Rng::new(seed ^ 0xC21);
    let specs = crate::act::all_specs();
    let mut v = vec![];
    // complete: kinds x layers x 2x2x2 pre-states (balance 0), on a rotating spec
    let mut i = 0usize;
    for kind in KINDS {
        for layer in LAYERS {
            for bits in 0..8u8 {
                loop {
                    let s = specs[i % specs.len()] as u8;
                    i += 1;
                    if *kind != "create2" || s >= SpecId::CONSTANTINOPLE as u8 {
                        v.push(format!("collision {kind} {s} {layer} {} {} {} 0", bits & 1, (bits >> 1) & 1, (bits >> 2) & 1));
                        break;
                    }
                }
            }
        }
    }
    // storage-only target: every kind x layer x every spec
    for kind in KINDS {
        for layer in LAYERS {
            for s in &specs {
                let s = *s as u8;
                if *kind != "create2" || s >= SpecId::CONSTANTINOPLE as u8 {
                    v.push(format!("collision {kind} {s} {layer} 0 0 1 0"));
                }
            }
        }
    }
    // the warmth dimension. complete: kinds x layers x 2x2x2 pre-states x every way of becoming warm
    // (rotating forks; access lists on Berlin and later, with every 5th one earlier = evm-error)
    let spec_ok = |kind: &str, warmth: &str, s: u8, j: usize| {
        (kind != "create2" || s >= SpecId::CONSTANTINOPLE as u8)
            && (!warmth.starts_with("al") || s >= SpecId::BERLIN as u8 || j % 5 == 0)
    };
    let mut j = 0usize;
    for kind in KINDS {
        for layer in LAYERS {
            for warmth in WARMTHS.iter().filter(|w| **w != "cold" && warmth_applies(kind, w)) {
                for bits in 0..8u8 {
                    j += 1;
                    loop {
                        let s = specs[i % specs.len()] as u8;
                        i += 1;
                        if spec_ok(kind, warmth, s, j) {
                            v.push(format!(
                                "collision {kind} {s} {layer} {} {} {} 0 {warmth}",
                                bits & 1,
                                (bits >> 1) & 1,
                                (bits >> 2) & 1
                            ));
                            break;
                        }
                    }
                }
            }
        }
    }
    // storage-only target, already warm: every kind x layer x way of becoming warm x every fork
    for kind in KINDS {
        for layer in LAYERS {
            for warmth in WARMTHS.iter().filter(|w| **w != "cold" && warmth_applies(kind, w)) {
                for s in &specs {
                    let s = *s as u8;
                    if spec_ok(kind, warmth, s, 1) {
                        v.push(format!("collision {kind} {s} {layer} 0 0 1 0 {warmth}"));
                    }
                }
            }
        }
    }
    // the history dimension: what happened to the target earlier in the same transaction.
    // created / destroyed (create2) and funded (create, create2): stacks x {absent, balance only, storage only} x every
    // fork, and stacks x the 2x2x2 pre-states on rotating forks;
    // hsonly: kinds x stacks x every fork
    for hist in ["created", "destroyed", "funded"] {
        for kind in ["create", "create2"] {
            if hist != "funded" && kind != "create2" {
                continue;
            }
            for layer in LAYERS {
                for s in &specs {
                    let s = *s as u8;
                    if kind == "create2" && s < SpecId::CONSTANTINOPLE as u8 {
                        continue;
                    }
                    // absent from the database (loaded as not existing), and present with a balance only
                    v.push(format!("collision {kind} {s} {layer} 0 0 0 0 cold {hist}"));
                    v.push(format!("collision {kind} {s} {layer} 0 0 0 5 cold {hist}"));
                    // storage only: the earlier creation succeeds behind the layers that drop has_storage
                    v.push(format!("collision {kind} {s} {layer} 0 0 1 0 cold {hist}"));
                }
                for bits in 0..8u8 {
                    loop {
                        let s = specs[i % specs.len()] as u8;
                        i += 1;
                        if kind != "create2" || s >= SpecId::CONSTANTINOPLE as u8 {
                            v.push(format!(
                                "collision {kind} {s} {layer} {} {} {} 0 cold {hist}",
                                bits & 1,
                                (bits >> 1) & 1,
                                (bits >> 2) & 1
                            ));
                            break;
                        }
                    }
                }
            }
        }
    }
    for kind in KINDS {
        for layer in LAYERS {
            for s in &specs {
                let s = *s as u8;
                if *kind != "create2" || s >= SpecId::CONSTANTINOPLE as u8 {
                    v.push(format!("collision {kind} {s} {layer} 0 0 1 0 cold hsonly"));
                }
            }
        }
    }
    for _ in 0..n / 2 {
        let hist = *rng.pick(&["created", "destroyed", "funded", "funded", "untouched"]);
        let kind = if hist == "created" || hist == "destroyed" { "create2" } else { *rng.pick(&["create", "create2"]) };
        let layer = *rng.pick(LAYERS);
        let s = *rng.pick(&specs) as u8;
        let nonce = match rng.below(4) { 0 | 1 => 0, 2 => 1, _ => u64::MAX };
        let bal = match rng.below(3) { 0 => U256::ZERO, 1 => U256::from(rng.below(100)), _ => U256::MAX - U256::from(rng.below(3)) };
        v.push(format!("collision {kind} {s} {layer} {} {:x} {} {} cold {hist}", rng.below(2), nonce, rng.below(2), hx(bal)));
    }
    // random
    for _ in 0..n {
        let kind = *rng.pick(KINDS);
        let layer = *rng.pick(LAYERS);
        let s = *rng.pick(&specs) as u8;
        let nonce = match rng.below(4) { 0 | 1 => 0, 2 => 1, _ => u64::MAX };
        let bal = match rng.below(3) { 0 => U256::ZERO, 1 => U256::from(rng.below(100)), _ => U256::MAX - U256::from(rng.below(3)) };
        let line = format!("collision {kind} {s} {layer} {} {:x} {} {}", rng.below(2), nonce, rng.below(2), hx(bal));
        if rng.chance(1, 3) {
            v.push(line);
        } else {
            let ws: Vec<&&str> = WARMTHS.iter().filter(|w| warmth_applies(kind, w)).collect();
            v.push(format!("{line} {}", rng.pick(&ws)));
        }
    }
    // malformed
    v.push("collision tx 0 nowhere 0 0 0 0".into());
    v.push("collision create2 2 direct 0 0 1 0".into());
    v.push("collision eof 19 direct 0 0 1 0".into());
    v.push("collision tx 17 direct 0 0 1 0 balance".into());
    v.push("collision create 17 direct 0 0 1 0 retry".into());
    v.push("collision create2 17 direct 0 0 1 0 lukewarm".into());
    v.push("collision create2 17 direct 0 0 1 0 cold extra".into());
    v.push("collision create 17 direct 0 0 0 0 cold created".into());
    v.push("collision tx 17 direct 0 0 0 0 cold funded".into());
    v.push("collision create2 17 direct 0 1 1 0 cold hsonly".into());
    v.push("collision create2 17 direct 0 0 0 0 balance created".into());
    v
}

pub fn run(seed: u64, n: usize, replay: Option<Vec<String>>, out: &mut Out) {
    let lines = replay.unwrap_or_else(|| gen(seed, n));
    for l in lines {
        let r = exec_line(&l);
        let t: Vec<&str> = l.split(' ').collect();
        if (8..=10).contains(&t.len()) {
            out.count(&format!("history:{}", t.get(9).unwrap_or(&"untouched")));
            out.count(&format!("warmth:{}", t.get(8).unwrap_or(&"cold")));
            out.count(&format!("kind:{}", t[1]));
            out.count(&format!("layer:{}", t[3]));
            out.count(&format!("pre:code{}nonce{}storage{}", t[4], if t[5] == "0" { "0" } else { "+" }, t[6]));
        }
        out.count(&format!("reply:{}", r.split(' ').next().unwrap_or("?")));
        out.push(l, r);
    }
}
