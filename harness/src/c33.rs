//! C33: Optimism fee distribution — the REAL `L1BlockInfo` methods and REAL transactions through an `Evm`
//! built with the Optimism handler (`HandlerCfg::new_with_optimism(spec, true)`), feature `optimism` only.
//!
//! Words are lowercase hex, byte strings hex (`-` = empty), `n` = `None`, gas numbers / nonces / spec decimal.
//!
//! pure-function stream (component `opfee`):
//!   opfee fetch  <spec> <s1> <s5> <s6> <s7> <s3> <s8>
//!        -> <l1_base_fee> <overhead|n> <base_scalar> <blob_fee|n> <blob_scalar|n> <op_scalar|n> <op_const|n>
//!        (`L1BlockInfo::try_fetch` over a CacheDB whose L1Block contract has storage slots 1,5,6,7,3,8)
//!   opfee l1     <spec> <s1> <s5> <s6> <s7> <s3> <s8> <input>
//!        -> <calculate_tx_l1_cost(input)> <data_gas(input)> <calculate_tx_l1_cost(40 x 0xff) on the same value (cache)>
//!   opfee direct <spec> <base_fee> <overhead|n> <base_scalar> <blob_fee|n> <blob_scalar|n> <input>
//!        -> <calculate_tx_l1_cost(input)> <data_gas(input)>         (value built from its pub fields)
//!   opfee charge <spec> <scalar|n> <const|n> <gas word>          -> <operator_fee_charge> | panic
//!   opfee refund <spec> <scalar|n> <const|n> <limit> <remaining> <refunded i64>
//!        -> <operator_fee_refund(Gas{limit,remaining,refunded})> | panic        (remaining <= limit)
//!
//! transaction stream (component `optx`), one whole transaction per line:
//!   optx <spec> <deposit 0|1> <system n|0|1> <mint n|u128> <call|create> <prog> <gas_limit> <gas_price> <prio n|word>
//!        <value> <basefee> <data> <enveloped n|bytes> <tx_nonce n|dec> <sender_nonce>
//!        <bal sender> <bal coinbase> <bal basefee-vault> <bal l1-vault> <bal operator-vault> <bal target>
//!        <s1> <s5> <s6> <s7> <s3> <s8> <class ok|revert|halt> <remaining> <refunded>
//!   prog (code of the call target): stop | revert | invalid | sclear (SSTORE 0 over 1: refund) | loop (out of gas)
//!   for `create`, <data> is the init code and the target is the address that gets created.
//!   <class> <remaining> <refunded> is the result of the first frame (gas left, raw refund counter). The
//!   generator obtains it from a probe run of the very same transaction; the executor runs the transaction
//!   for real and a handler register placed after the Optimism register sets the frame's Gas to these numbers
//!   right before `last_frame_return` (a no-op for generated lines, it makes the executor a pure function of
//!   the line and lets a boundary stream cover every gas result). The class is never injected.
//!   reply: err:<class> | <success|revert|halt|faileddeposit> <gas_used> <gas_refunded> <sender nonce>
//!          <bal sender> <coinbase> <basefee-vault> <l1-vault> <operator-vault> <target> cons=<1|0|na>
//!   cons = the conservation oracle on the measured deltas: non-deposit: sender debit = target credit + the
//!   four fee credits; deposit: the six balances grew by exactly the mint in total.
#![cfg(feature = "optimism")]
use crate::*;
use revm::db::{CacheDB, EmptyDB};
use revm::handler::register::EvmHandler;
use revm::interpreter::{Gas, InstructionResult, SuccessOrHalt};
use revm::optimism::OPERATOR_FEE_RECIPIENT;
use revm::primitives::{
    keccak256, AccountInfo, Address, Bytecode, Bytes, EVMError, ExecutionResult, HaltReason, HandlerCfg,
    InvalidTransaction, OptimismInvalidTransaction, SpecId, TxKind, B256, U256,
};
use revm::{Database, DatabaseCommit, Evm, L1BlockInfo, BASE_FEE_RECIPIENT, L1_BLOCK_CONTRACT, L1_FEE_RECIPIENT};
use std::sync::Arc;

pub const OP_SPECS: [u8; 8] = [16, 17, 19, 21, 22, 23, 24, 27];

fn sender() -> Address {
    Address::with_last_byte(0x51)
}
fn coinbase() -> Address {
    Address::with_last_byte(0xCB)
}
fn callee() -> Address {
    Address::with_last_byte(0x70)
}

// ------------------------------------------------------------------ parsing helpers
fn pw(s: &str) -> Option<U256> {
    if s.is_empty() || s.len() > 64 || !s.bytes().all(|c| c.is_ascii_hexdigit()) || s.bytes().any(|c| c.is_ascii_uppercase()) {
        return None;
    }
    U256::from_str_radix(s, 16).ok()
}
fn pow(s: &str) -> Option<Option<U256>> {
    if s == "n" { Some(None) } else { pw(s).map(Some) }
}
fn pd(s: &str) -> Option<u64> {
    if s.is_empty() || !s.bytes().all(|c| c.is_ascii_digit()) { return None; }
    s.parse().ok()
}
fn pi(s: &str) -> Option<i64> {
    let body = s.strip_prefix('-').unwrap_or(s);
    if body.is_empty() || !body.bytes().all(|c| c.is_ascii_digit()) { return None; }
    s.parse().ok()
}
fn pb(s: &str) -> Option<Vec<u8>> {
    if s == "-" { return Some(vec![]); }
    if s.is_empty() || s.len() % 2 != 0 { return None; }
    let b = s.as_bytes();
    let h = |c: u8| -> Option<u8> {
        match c { b'0'..=b'9' => Some(c - b'0'), b'a'..=b'f' => Some(c - b'a' + 10), _ => None }
    };
    let mut v = Vec::with_capacity(b.len() / 2);
    for i in (0..b.len()).step_by(2) {
        v.push(h(b[i])? * 16 + h(b[i + 1])?);
    }
    Some(v)
}
fn pspec(s: &str) -> Option<SpecId> {
    let n = pd(s)?;
    if n > 255 { return None; }
    let sp = SpecId::try_from_u8(n as u8)?;
    // the Optimism forks and LATEST; other ids are out of protocol for this component
    if OP_SPECS.contains(&(n as u8)) || n == 255 { Some(sp) } else { None }
}
fn ow(o: Option<U256>) -> String {
    o.map(hx).unwrap_or("n".into())
}

fn l1_db(slots: &[U256; 6]) -> CacheDB<EmptyDB> {
    let mut db = CacheDB::new(EmptyDB::default());
    db.insert_account_info(L1_BLOCK_CONTRACT, AccountInfo { nonce: 1, ..Default::default() });
    for (k, v) in [1u64, 5, 6, 7, 3, 8].iter().zip(slots.iter()) {
        db.insert_account_storage(L1_BLOCK_CONTRACT, U256::from(*k), *v).unwrap();
    }
    db
}

// ------------------------------------------------------------------ pure functions
fn exec_opfee(t: &[&str]) -> String {
    let bad = || "bad-op".to_string();
    if t.len() < 2 { return bad(); }
    match t[1] {
        "fetch" | "l1" => {
            let want = if t[1] == "fetch" { 9 } else { 10 };
            if t.len() != want { return bad(); }
            let Some(spec) = pspec(t[2]) else { return bad() };
            let mut s = [U256::ZERO; 6];
            for i in 0..6 {
                let Some(w) = pw(t[3 + i]) else { return bad() };
                s[i] = w;
            }
            let input = if t[1] == "l1" { let Some(b) = pb(t[9]) else { return bad() }; b } else { vec![] };
            let fetch = t[1] == "fetch";
            guarded(move || {
                let mut db = l1_db(&s);
                let mut info = L1BlockInfo::try_fetch(&mut db, spec).unwrap();
                if fetch {
                    format!("{} {} {} {} {} {} {}", hx(info.l1_base_fee), ow(info.l1_fee_overhead), hx(info.l1_base_fee_scalar),
                        ow(info.l1_blob_base_fee), ow(info.l1_blob_base_fee_scalar), ow(info.operator_fee_scalar), ow(info.operator_fee_constant))
                } else {
                    let c = info.calculate_tx_l1_cost(&input, spec);
                    let g = info.data_gas(&input, spec);
                    let c2 = info.calculate_tx_l1_cost(&[0xffu8; 40], spec);
                    format!("{} {} {}", hx(c), hx(g), hx(c2))
                }
            })
        }
        "direct" => {
            if t.len() != 9 { return bad(); }
            let Some(spec) = pspec(t[2]) else { return bad() };
            let (Some(bf), Some(ov), Some(bs), Some(bbf), Some(bbs), Some(input)) = (pw(t[3]), pow(t[4]), pw(t[5]), pow(t[6]), pow(t[7]), pb(t[8])) else { return bad() };
            guarded(move || {
                let mut info = L1BlockInfo::default();
                info.l1_base_fee = bf;
                info.l1_fee_overhead = ov;
                info.l1_base_fee_scalar = bs;
                info.l1_blob_base_fee = bbf;
                info.l1_blob_base_fee_scalar = bbs;
                let c = info.calculate_tx_l1_cost(&input, spec);
                let g = info.data_gas(&input, spec);
                format!("{} {}", hx(c), hx(g))
            })
        }
        "charge" => {
            if t.len() != 6 { return bad(); }
            let Some(spec) = pspec(t[2]) else { return bad() };
            let (Some(sc), Some(co), Some(g)) = (pow(t[3]), pow(t[4]), pw(t[5])) else { return bad() };
            guarded(move || {
                let mut info = L1BlockInfo::default();
                info.operator_fee_scalar = sc;
                info.operator_fee_constant = co;
                hx(info.operator_fee_charge(g, spec))
            })
        }
        "refund" => {
            if t.len() != 8 { return bad(); }
            let Some(spec) = pspec(t[2]) else { return bad() };
            let (Some(sc), Some(co), Some(limit), Some(rem), Some(refd)) = (pow(t[3]), pow(t[4]), pd(t[5]), pd(t[6]), pi(t[7])) else { return bad() };
            if rem > limit { return bad(); }
            guarded(move || {
                let mut info = L1BlockInfo::default();
                info.operator_fee_scalar = sc;
                info.operator_fee_constant = co;
                let mut gas = Gas::new(limit);
                let _ = gas.record_cost(limit - rem);
                gas.record_refund(refd);
                hx(info.operator_fee_refund(&gas, spec))
            })
        }
        _ => bad(),
    }
}

// ------------------------------------------------------------------ transactions
#[derive(Clone, Debug)]
pub struct TxLine {
    pub spec: SpecId,
    pub deposit: bool,
    pub system: Option<bool>,
    pub mint: Option<u128>,
    pub create: bool,
    pub prog: String,
    pub gas_limit: u64,
    pub gas_price: U256,
    pub prio: Option<U256>,
    pub value: U256,
    pub basefee: U256,
    pub data: Vec<u8>,
    pub env: Option<Vec<u8>>,
    pub tx_nonce: Option<u64>,
    pub s_nonce: u64,
    pub bal: [U256; 6],
    pub slots: [U256; 6],
    pub cls: String,
    pub rem: u64,
    pub refd: i64,
}

const PROGS: [&str; 5] = ["stop", "revert", "invalid", "sclear", "loop"];

fn prog_code(p: &str) -> Vec<u8> {
    match p {
        "stop" => vec![0x00],
        "revert" => vec![0x60, 0x00, 0x60, 0x00, 0xfd],
        "invalid" => vec![0xfe],
        "sclear" => vec![0x60, 0x00, 0x60, 0x00, 0x55, 0x00],
        _ => vec![0x5b, 0x60, 0x00, 0x56],
    }
}

impl TxLine {
    pub fn parse(t: &[&str]) -> Option<TxLine> {
        if t.len() != 31 || t[0] != "optx" { return None; }
        let spec = pspec(t[1])?;
        let deposit = match t[2] { "0" => false, "1" => true, _ => return None };
        let system = match t[3] { "n" => None, "0" => Some(false), "1" => Some(true), _ => return None };
        let mint = match pow(t[4])? { None => None, Some(w) => Some(u128::try_from(w).ok()?) };
        let create = match t[5] { "call" => false, "create" => true, _ => return None };
        if !PROGS.contains(&t[6]) { return None; }
        let mut bal = [U256::ZERO; 6];
        for i in 0..6 { bal[i] = pw(t[16 + i])?; }
        let mut slots = [U256::ZERO; 6];
        for i in 0..6 { slots[i] = pw(t[22 + i])?; }
        if !["ok", "revert", "halt"].contains(&t[28]) { return None; }
        Some(TxLine {
            spec, deposit, system, mint, create, prog: t[6].to_string(),
            gas_limit: pd(t[7])?, gas_price: pw(t[8])?, prio: pow(t[9])?, value: pw(t[10])?, basefee: pw(t[11])?,
            data: pb(t[12])?, env: if t[13] == "n" { None } else { Some(pb(t[13])?) },
            tx_nonce: if t[14] == "n" { None } else { Some(pd(t[14])?) }, s_nonce: pd(t[15])?,
            bal, slots, cls: t[28].to_string(), rem: pd(t[29])?, refd: pi(t[30])?,
        })
    }
    pub fn line(&self) -> String {
        let mut s = format!(
            "optx {} {} {} {} {} {} {} {} {} {} {} {} {} {} {}",
            self.spec as u8, b01(self.deposit),
            match self.system { None => "n", Some(false) => "0", Some(true) => "1" },
            self.mint.map(|m| format!("{:x}", m)).unwrap_or("n".into()),
            if self.create { "create" } else { "call" }, self.prog, self.gas_limit, hx(self.gas_price), ow(self.prio),
            hx(self.value), hx(self.basefee), hxb(&self.data), self.env.as_ref().map(|e| hxb(e)).unwrap_or("n".into()),
            self.tx_nonce.map(|n| n.to_string()).unwrap_or("n".into()), self.s_nonce
        );
        for b in self.bal.iter().chain(self.slots.iter()) {
            s.push(' ');
            s.push_str(&hx(*b));
        }
        s.push_str(&format!(" {} {} {}", self.cls, self.rem, self.refd));
        s
    }
    fn target(&self) -> Address {
        if self.create { sender().create(self.s_nonce) } else { callee() }
    }
    fn accounts(&self) -> [Address; 6] {
        [sender(), coinbase(), BASE_FEE_RECIPIENT, L1_FEE_RECIPIENT, OPERATOR_FEE_RECIPIENT, self.target()]
    }
}

#[derive(Default)]
pub struct Ext {
    inject: Option<(u64, i64)>,
    seen: Option<(InstructionResult, u64, i64)>,
}

fn frame_register<DB: Database>(h: &mut EvmHandler<'_, Ext, DB>) {
    let old = h.execution.last_frame_return.clone();
    h.execution.last_frame_return = Arc::new(move |ctx, fr| {
        let g = *fr.gas();
        ctx.external.seen = Some((fr.interpreter_result().result, g.remaining(), g.refunded()));
        if let Some((rem, refd)) = ctx.external.inject {
            let mut ng = Gas::new(rem);
            ng.record_refund(refd);
            *fr.gas_mut() = ng;
        }
        old(ctx, fr)
    });
}

fn err_class(e: &InvalidTransaction) -> &'static str {
    use InvalidTransaction::*;
    match e {
        CallGasCostMoreThanGasLimit => "intrinsic",
        GasFloorMoreThanGasLimit => "floor",
        LackOfFundForMaxFee { .. } => "funds",
        OverflowPaymentInTransaction => "overflow",
        GasPriceLessThanBasefee => "basefee",
        PriorityFeeGreaterThanMaxFee => "prio",
        NonceTooHigh { .. } | NonceTooLow { .. } => "nonce",
        NonceOverflowInTransaction => "nonceoverflow",
        OptimismError(OptimismInvalidTransaction::DepositSystemTxPostRegolith) => "systx",
        OptimismError(OptimismInvalidTransaction::HaltedDepositPostRegolith) => "halteddeposit",
        _ => "other",
    }
}

pub struct TxOut {
    pub reply: String,
    pub seen: Option<(InstructionResult, u64, i64)>,
}

/// runs the transaction of the line; `inject = false` is the generator's probe run
pub fn run_tx(l: &TxLine, inject: bool) -> TxOut {
    let mut db = l1_db(&l.slots);
    let acc = l.accounts();
    for i in 0..6 {
        let a = acc[i];
        let mut info = AccountInfo { balance: l.bal[i], ..Default::default() };
        if i == 0 { info.nonce = l.s_nonce; }
        if i == 5 && !l.create {
            let code = prog_code(&l.prog);
            info.code_hash = keccak256(&code);
            info.code = Some(Bytecode::new_legacy(Bytes::from(code)));
            info.nonce = 1;
        }
        db.insert_account_info(a, info);
    }
    if !l.create {
        db.insert_account_storage(callee(), U256::ZERO, U256::from(1)).unwrap();
    }
    let ext = Ext { inject: if inject { Some((l.rem, l.refd)) } else { None }, seen: None };
    let mut evm = Evm::builder()
        .with_db(db)
        .with_external_context(ext)
        .with_handler_cfg(HandlerCfg::new_with_optimism(l.spec, true))
        .append_handler_register(frame_register)
        .modify_block_env(|b| {
            b.coinbase = coinbase();
            b.basefee = l.basefee;
        })
        .modify_tx_env(|tx| {
            tx.caller = sender();
            tx.transact_to = if l.create { TxKind::Create } else { TxKind::Call(callee()) };
            tx.value = l.value;
            tx.gas_limit = l.gas_limit;
            tx.gas_price = l.gas_price;
            tx.gas_priority_fee = l.prio;
            tx.data = Bytes::from(l.data.clone());
            tx.nonce = l.tx_nonce;
            tx.optimism.source_hash = if l.deposit { Some(B256::with_last_byte(7)) } else { None };
            tx.optimism.mint = l.mint;
            tx.optimism.is_system_transaction = l.system;
            tx.optimism.enveloped_tx = l.env.clone().map(Bytes::from);
        })
        .build();
    let res = evm.transact();
    let seen = evm.context.external.seen;
    let reply = match res {
        Err(EVMError::Transaction(e)) => format!("err:{}", err_class(&e)),
        Err(EVMError::Custom(_)) => "err:custom".to_string(),
        Err(EVMError::Header(_)) => "err:header".to_string(),
        Err(_) => "err:db".to_string(),
        Ok(rs) => {
            let (kind, used, refunded) = match &rs.result {
                ExecutionResult::Success { gas_used, gas_refunded, .. } => ("success", *gas_used, *gas_refunded),
                ExecutionResult::Revert { gas_used, .. } => ("revert", *gas_used, 0),
                ExecutionResult::Halt { reason: HaltReason::FailedDeposit, gas_used } => ("faileddeposit", *gas_used, 0),
                ExecutionResult::Halt { gas_used, .. } => ("halt", *gas_used, 0),
            };
            let mut post = [U256::ZERO; 6];
            for i in 0..6 {
                post[i] = rs.state.get(&acc[i]).map(|a| a.info.balance).unwrap_or(l.bal[i]);
            }
            let nonce = rs.state.get(&acc[0]).map(|a| a.info.nonce).unwrap_or(l.s_nonce);
            let cons = oracle(l, &post);
            format!("{} {} {} {} {} {} {} {} {} {} cons={}", kind, used, refunded, nonce, hx(post[0]), hx(post[1]), hx(post[2]), hx(post[3]), hx(post[4]), hx(post[5]), cons)
        }
    };
    TxOut { reply, seen }
}

/// the property's oracle on measured balances (checked arithmetic, `na` when a sum does not fit)
fn oracle(l: &TxLine, post: &[U256; 6]) -> &'static str {
    if l.deposit {
        let mut a = U256::ZERO;
        let mut b = U256::from(l.mint.unwrap_or(0));
        for i in 0..6 {
            let (Some(x), Some(y)) = (a.checked_add(post[i]), b.checked_add(l.bal[i])) else { return "na" };
            a = x;
            b = y;
        }
        if a == b { "1" } else { "0" }
    } else {
        if post[0] > l.bal[0] { return "0"; }
        let debit = l.bal[0] - post[0];
        let mut credits = U256::ZERO;
        for i in 1..6 {
            if post[i] < l.bal[i] { return "0"; }
            let Some(c) = credits.checked_add(post[i] - l.bal[i]) else { return "na" };
            credits = c;
        }
        if debit == credits { "1" } else { "0" }
    }
}

fn class_of(r: InstructionResult) -> &'static str {
    match SuccessOrHalt::from(r) {
        SuccessOrHalt::Success(_) => "ok",
        SuccessOrHalt::Revert => "revert",
        _ => "halt",
    }
}

pub fn exec_line(line: &str) -> String {
    let t: Vec<&str> = line.split(' ').collect();
    match t.first().copied() {
        Some("opfee") => exec_opfee(&t),
        Some("optx") => {
            let Some(l) = TxLine::parse(&t) else { return "bad-op".into() };
            guarded(move || run_tx(&l, true).reply)
        }
        _ => "bad-op".into(),
    }
}


// ------------------------------------------------------------------ histories on one Evm (component `ophist`)
//   begin ophist <spec> <sender balance> <sender nonce>                      -> ok
//   oh slots <s1> <s5> <s6> <s7> <s3> <s8>                                   -> ok   (L1Block storage from now on)
//   oh tx <deposit> <mint|n> <gas_limit> <gas_price> <value> <basefee> <enveloped|n> <remaining> <refunded>
//        -> the `optx` reply; ONE Evm runs all transactions of the case, each result is committed to its CacheDB.
//   The target is a STOP contract (frame class ok), the frame's gas numbers are injected as in `optx`.
//   The property: every transaction is charged / credited the L1 cost of ITS OWN envelope under the slots that
//   are in the database when it runs (the model's Spec column is the single-transaction function).
pub struct Hist {
    evm: Evm<'static, Ext, CacheDB<EmptyDB>>,
}

impl Hist {
    pub fn begin(t: &[&str]) -> Option<Hist> {
        if t.len() != 5 { return None; }
        let spec = pspec(t[2])?;
        let bal = pw(t[3])?;
        let nonce = pd(t[4])?;
        let mut db = l1_db(&[U256::ZERO; 6]);
        db.insert_account_info(sender(), AccountInfo { balance: bal, nonce, ..Default::default() });
        let code = prog_code("stop");
        db.insert_account_info(callee(), AccountInfo { nonce: 1, code_hash: keccak256(&code), code: Some(Bytecode::new_legacy(Bytes::from(code))), ..Default::default() });
        let evm = Evm::builder()
            .with_db(db)
            .with_external_context(Ext::default())
            .with_handler_cfg(HandlerCfg::new_with_optimism(spec, true))
            .append_handler_register(frame_register)
            .modify_block_env(|b| b.coinbase = coinbase())
            .build();
        Some(Hist { evm })
    }
    fn bal(&mut self, a: Address) -> U256 {
        self.evm.context.evm.db.basic(a).ok().flatten().map(|i| i.balance).unwrap_or_default()
    }
    fn nonce(&mut self, a: Address) -> u64 {
        self.evm.context.evm.db.basic(a).ok().flatten().map(|i| i.nonce).unwrap_or_default()
    }
    pub fn exec(&mut self, t: &[&str]) -> Option<String> {
        match *t.get(1)? {
            "slots" => {
                if t.len() != 8 { return None; }
                let mut s = [U256::ZERO; 6];
                for i in 0..6 { s[i] = pw(t[2 + i])?; }
                for (k, v) in [1u64, 5, 6, 7, 3, 8].iter().zip(s.iter()) {
                    self.evm.context.evm.db.insert_account_storage(L1_BLOCK_CONTRACT, U256::from(*k), *v).ok()?;
                }
                Some("ok".into())
            }
            "tx" => {
                if t.len() != 11 { return None; }
                let deposit = match t[2] { "0" => false, "1" => true, _ => return None };
                let mint = match pow(t[3])? { None => None, Some(w) => Some(u128::try_from(w).ok()?) };
                let (gas_limit, gas_price, value, basefee) = (pd(t[4])?, pw(t[5])?, pw(t[6])?, pw(t[7])?);
                let env = if t[8] == "n" { None } else { Some(pb(t[8])?) };
                let (rem, refd) = (pd(t[9])?, pi(t[10])?);
                let acc = [sender(), coinbase(), BASE_FEE_RECIPIENT, L1_FEE_RECIPIENT, OPERATOR_FEE_RECIPIENT, callee()];
                let mut pre = [U256::ZERO; 6];
                for i in 0..6 { pre[i] = self.bal(acc[i]); }
                let pre_nonce = self.nonce(sender());
                // the oracle only needs these fields
                let l = TxLine { spec: SpecId::LATEST, deposit, system: None, mint, create: false, prog: "stop".into(), gas_limit, gas_price, prio: None, value, basefee,
                    data: vec![], env: env.clone(), tx_nonce: None, s_nonce: pre_nonce, bal: pre, slots: [U256::ZERO; 6], cls: "ok".into(), rem, refd };
                self.evm.context.external.inject = Some((rem, refd));
                self.evm.context.external.seen = None;
                self.evm.context.evm.env.block.basefee = basefee;
                {
                    let tx = &mut self.evm.context.evm.env.tx;
                    tx.caller = sender();
                    tx.transact_to = TxKind::Call(callee());
                    tx.value = value;
                    tx.gas_limit = gas_limit;
                    tx.gas_price = gas_price;
                    tx.gas_priority_fee = None;
                    tx.data = Bytes::new();
                    tx.nonce = None;
                    tx.optimism.source_hash = if deposit { Some(B256::with_last_byte(7)) } else { None };
                    tx.optimism.mint = mint;
                    tx.optimism.is_system_transaction = None;
                    tx.optimism.enveloped_tx = env.map(Bytes::from);
                }
                let res = self.evm.transact();
                Some(match res {
                    Err(EVMError::Transaction(e)) => format!("err:{}", err_class(&e)),
                    Err(EVMError::Custom(_)) => "err:custom".to_string(),
                    Err(EVMError::Header(_)) => "err:header".to_string(),
                    Err(_) => "err:db".to_string(),
                    Ok(rs) => {
                        let (kind, used, refunded) = match &rs.result {
                            ExecutionResult::Success { gas_used, gas_refunded, .. } => ("success", *gas_used, *gas_refunded),
                            ExecutionResult::Revert { gas_used, .. } => ("revert", *gas_used, 0),
                            ExecutionResult::Halt { reason: HaltReason::FailedDeposit, gas_used } => ("faileddeposit", *gas_used, 0),
                            ExecutionResult::Halt { gas_used, .. } => ("halt", *gas_used, 0),
                        };
                        self.evm.context.evm.db.commit(rs.state);
                        let mut post = [U256::ZERO; 6];
                        for i in 0..6 { post[i] = self.bal(acc[i]); }
                        let nonce = self.nonce(sender());
                        let cons = oracle(&l, &post);
                        format!("{} {} {} {} {} {} {} {} {} {} cons={}", kind, used, refunded, nonce, hx(post[0]), hx(post[1]), hx(post[2]), hx(post[3]), hx(post[4]), hx(post[5]), cons)
                    }
                })
            }
            _ => None,
        }
    }
}

pub fn gen_ophist(seed: u64, n: usize) -> Vec<String> {
    let mut rng = Rng::new(seed ^ 0x0C33_4157);
    let mut lines = Vec::new();
    let join = |s: &[U256; 6]| s.iter().map(|w| hx(*w)).collect::<Vec<_>>().join(" ");
    for case in 0..n {
        let spec = spec_of(&mut rng);
        // ample balance: every transaction of the case is valid unless an invalid one is generated on purpose
        let bal = U256::from(10u64).pow(U256::from(33)) + U256::from(rng.below(1000));
        lines.push(format!("begin ophist {spec} {} {}", hx(bal), rng.below(1000)));
        lines.push(format!("oh slots {}", join(&rnd_slots(&mut rng, false))));
        let steps = rng.range(2, 5);
        // shapes: regular/regular(/..), regular/deposit/regular, with or without a slot change in between
        let shape = case % 4;
        for k in 0..steps {
            if k > 0 && (shape == 1 || (shape == 3 && rng.chance(1, 2))) {
                lines.push(format!("oh slots {}", join(&rnd_slots(&mut rng, false))));
            }
            let deposit = (shape == 2 && k == 1) || (shape == 3 && rng.chance(1, 4));
            let gas_limit = 21_000 + rng.below(200_000);
            let basefee = match rng.below(3) { 0 => U256::ZERO, 1 => U256::from(7), _ => U256::from(rng.below(10_000_000_000)) };
            let gas_price = if deposit { U256::ZERO } else { basefee + U256::from(rng.below(3_000_000_000)) };
            let value = match rng.below(3) { 0 => U256::ZERO, 1 => U256::from(1), _ => U256::from(rng.below(1_000_000_000_000)) };
            let mint = if deposit { match rng.below(3) { 0 => "n".to_string(), 1 => "0".to_string(), _ => format!("{:x}", rng.below(1_000_000_000_000_000_000)) } } else { "n".to_string() };
            // envelopes of different length and compressibility; a few empty / 0x7f ones (cost 0, nothing cached)
            let env = if !deposit && rng.chance(1, 60) { "n".to_string() } else {
                let mut e = rnd_input(&mut rng, 1200);
                if e.is_empty() && rng.chance(3, 4) { let len = 1 + rng.below(300) as usize; e = rng.bytes(len); }
                hxb(&e)
            };
            let room = gas_limit - 21_000;
            let rem = match rng.below(3) { 0 => 0, 1 => room, _ => rng.below(room + 1) };
            let refd = match rng.below(3) { 0 => 0, 1 => 4800, _ => rng.below(30_000) as i64 };
            lines.push(format!("oh tx {} {} {} {} {} {} {} {} {}", b01(deposit), mint, gas_limit, hx(gas_price), hx(value), hx(basefee), env, rem, refd));
        }
    }
    lines
}

pub fn run_ophist(seed: u64, n: usize, replay: Option<Vec<String>>, out: &mut Out) {
    let lines = replay.unwrap_or_else(|| gen_ophist(seed, n));
    let mut cur: Option<Hist> = None;
    let mut regular_in_case = 0u32;
    for l in lines {
        let t: Vec<&str> = l.split(' ').collect();
        let r = if t.first() == Some(&"begin") && t.get(1) == Some(&"ophist") {
            let tv = t.clone();
            let h = std::panic::catch_unwind(move || Hist::begin(&tv)).unwrap_or(None);
            regular_in_case = 0;
            match h {
                Some(h) => { cur = Some(h); out.count("ophist:case"); "ok".to_string() }
                None => { cur = None; "bad-op".to_string() }
            }
        } else if t.first() == Some(&"oh") {
            match cur.as_mut() {
                None => "bad-op".to_string(),
                Some(h) => {
                    let tv = t.clone();
                    let res = std::panic::catch_unwind(std::panic::AssertUnwindSafe(|| h.exec(&tv)));
                    match res {
                        Ok(Some(s)) => s,
                        Ok(None) => "bad-op".to_string(),
                        Err(_) => { cur = None; "panic".to_string() }
                    }
                }
            }
        } else {
            "bad-op".to_string()
        };
        if t.get(1) == Some(&"tx") {
            out.count(&format!("ophist-tx:{}", r.split(' ').next().unwrap_or("?")));
            if t.get(2) == Some(&"0") && !r.starts_with("err") && r != "bad-op" {
                regular_in_case += 1;
                if regular_in_case >= 2 { out.count("ophist:regular-after-regular-on-same-evm"); }
            } else if t.get(2) == Some(&"1") { regular_in_case = 0; }
        }
        if t.get(1) == Some(&"slots") { out.count("ophist:slots-change"); }
        out.push(l, r);
    }
}

// ------------------------------------------------------------------ generators
fn fee_words() -> Vec<U256> {
    vec![
        U256::ZERO, U256::from(1), U256::from(2), U256::from(7), U256::from(1000), U256::from(999_999), U256::from(1_000_000),
        U256::from(1_000_001), U256::from(5227), U256::from(1014213), U256::from(1055991687u64), U256::from(u32::MAX),
        U256::from(30_000_000_000u64), U256::from(u64::MAX), U256::from(u128::MAX), U256::MAX >> 1, U256::MAX - U256::from(1), U256::MAX,
    ]
}
fn rnd_fee(rng: &mut Rng) -> U256 {
    match rng.below(10) {
        0..=2 => *rng.pick(&fee_words()),
        3..=6 => U256::from(rng.below(100_000_000_000)),
        7 => U256::from(rng.below(2_000_000)),
        8 => rng.word(),
        _ => U256::from(rng.next()),
    }
}
/// a realistic fee value (fits comfortably)
fn small_fee(rng: &mut Rng) -> U256 {
    match rng.below(6) {
        0 => U256::ZERO,
        1 => U256::from(1),
        2 => U256::from(rng.below(1000)),
        3 => U256::from(1_000_000),
        _ => U256::from(rng.below(50_000_000_000)),
    }
}
fn scalars_slot(rng: &mut Rng) -> U256 {
    // [16..20] base fee scalar, [20..24] blob base fee scalar, rest: sequence number etc.
    let pick32 = |rng: &mut Rng| -> u64 {
        match rng.below(6) { 0 => 0, 1 => 1, 2 => 1_000_000, 3 => u32::MAX as u64, 4 => rng.below(2_000_000), _ => rng.next() & 0xffff_ffff }
    };
    let a = pick32(rng);
    let b = pick32(rng);
    let mut w = (U256::from(a) << 96) | (U256::from(b) << 64);
    if rng.chance(1, 2) { w |= U256::from(rng.next()); }
    if rng.chance(1, 4) { w |= rng.u256() << 128; }
    w
}
fn op_slot(rng: &mut Rng) -> U256 {
    let s: u64 = match rng.below(7) { 0 => 0, 1 => 1, 2 => 1_000_000, 3 => 999_999, 4 => u32::MAX as u64, 5 => rng.below(3_000_000), _ => rng.next() & 0xffff_ffff };
    let c: u64 = match rng.below(6) { 0 => 0, 1 => 1, 2 => 5, 3 => u64::MAX, 4 => rng.below(1_000_000_000), _ => rng.next() };
    let mut w = (U256::from(s) << 64) | U256::from(c);
    if rng.chance(1, 4) { w |= rng.u256() << 96; }
    w
}
fn rnd_slots(rng: &mut Rng, extreme: bool) -> [U256; 6] {
    let f = |rng: &mut Rng| if extreme { rnd_fee(rng) } else { small_fee(rng) };
    let mut s3 = scalars_slot(rng);
    let mut s7 = f(rng);
    if rng.chance(1, 6) {
        // "empty ecotone scalars": blob base fee 0 and bytes 16..24 zero
        s7 = U256::ZERO;
        let mask: U256 = U256::from(u64::MAX) << 64;
        s3 &= !mask;
    }
    [f(rng), f(rng), f(rng), s7, s3, op_slot(rng)]
}
/// enveloped transactions: empty, 0x7f-prefixed, zeros, one repeated byte, random, periodic (compressible), mixed
pub fn rnd_input(rng: &mut Rng, max: usize) -> Vec<u8> {
    let len = match rng.below(10) {
        0 => rng.below(20) as usize,
        1 => *rng.pick(&[0usize, 1, 2, 3, 12, 13, 14, 15, 16, 31, 32, 33, 261, 262, 263, 264, 270, 300]),
        2..=6 => rng.below(400) as usize,
        _ => rng.below(max as u64 + 1) as usize,
    };
    let mut v: Vec<u8> = match rng.below(8) {
        0 => vec![0u8; len],
        1 => vec![rng.next() as u8; len],
        2 | 3 => rng.bytes(len),
        4 => {
            let p = rng.range(1, 40) as usize;
            let pat = rng.bytes(p);
            (0..len).map(|i| pat[i % p]).collect()
        }
        5 => {
            // abi-like: 32-byte words, mostly zero
            (0..len).map(|i| if i % 32 >= 28 || rng.chance(1, 30) { rng.next() as u8 } else { 0 }).collect()
        }
        6 => {
            // random prefix repeated with mutations (long matches at distances below and above 8192)
            let p = rng.range(3, 300) as usize;
            let pat = rng.bytes(p);
            (0..len).map(|i| if rng.chance(1, 50) { rng.next() as u8 } else { pat[i % p] }).collect()
        }
        _ => {
            let alphabet = rng.range(1, 4);
            (0..len).map(|_| rng.below(alphabet) as u8).collect()
        }
    };
    if !v.is_empty() && rng.chance(1, 25) { v[0] = 0x7f; }
    if !v.is_empty() && rng.chance(1, 10) { v[0] = 0x02; }
    v
}

fn spec_of(rng: &mut Rng) -> u8 {
    if rng.chance(1, 20) { 255 } else { *rng.pick(&OP_SPECS) }
}

pub fn gen_opfee(seed: u64, n: usize) -> Vec<String> {
    let mut rng = Rng::new(seed ^ 0xC33);
    let mut lines = Vec::new();
    let join = |s: &[U256; 6]| s.iter().map(|w| hx(*w)).collect::<Vec<_>>().join(" ");
    // boundary: operator fee, complete cross product of scalars x constants x gas amounts per fork class
    let sc = [U256::ZERO, U256::from(1), U256::from(999_999), U256::from(1_000_000), U256::from(1_000_001), U256::from(u32::MAX), U256::from(u64::MAX), U256::MAX];
    let co = [U256::ZERO, U256::from(5), U256::from(u64::MAX), U256::MAX];
    let gs = [0u64, 1, 20_999, 21_000, 21_001, 100_000, 999_999, 1_000_000, 30_000_000, u64::MAX];
    for spec in [24u8, 27, 255] {
        for s in &sc {
            for c in &co {
                for g in &gs {
                    lines.push(format!("opfee charge {spec} {} {} {:x}", hx(*s), hx(*c), g));
                }
                lines.push(format!("opfee charge {spec} {} {} {}", hx(*s), hx(*c), hx(U256::MAX)));
            }
        }
        lines.push(format!("opfee charge {spec} n n 5208"));
        lines.push(format!("opfee charge {spec} 1 n 5208"));
        lines.push(format!("opfee charge {spec} n 1 5208"));
        lines.push(format!("opfee refund {spec} n 1 100000 79000 0"));
        // the witness of the repaired refund formula and its rounding neighbours
        lines.push(format!("opfee refund {spec} f4240 5 100000 79000 0"));
        for s in [1u64, 3, 7, 999_999, 1_000_000, 1_000_001, 1_500_000, u32::MAX as u64] {
            for (lim, rem, rf) in [(100_000u64, 79_000u64, 0i64), (100_000, 79_000, 4200), (100_000, 0, 0), (100_000, 100_000, 0), (21_000, 0, 0), (1_000_001, 333_333, 1), (30_000_000, 29_979_000, 0), (3, 1, 0), (u64::MAX, 1, 0)] {
                lines.push(format!("opfee refund {spec} {:x} 5 {lim} {rem} {rf}", s));
            }
        }
    }
    // boundary: L1 cost on fixed inputs for every fork x scalar boundary
    let mut inputs: Vec<Vec<u8>> = vec![vec![], vec![0x7f, 1, 2], vec![0xfa, 0xca, 0xde], vec![0xfa, 0, 0xca, 0, 0xde], vec![0u8; 1000], vec![42u8; 1000], (0..=255u8).collect(), vec![0x7f]];
    // FastLZ back-reference distance boundaries (level 1 encodes distances below 8192 only): an incompressible filler
    // (a 16-bit LCG stream, no 3-byte repeat within the window) with one marker sequence recurring at exactly
    // distance d, for d around 8192, and around the 264-byte maximal match length
    {
        let filler = |n: usize, seed: u32| -> Vec<u8> {
            let mut x = seed; let mut v = Vec::with_capacity(n);
            for _ in 0..n { x = x.wrapping_mul(1664525).wrapping_add(1013904223); v.push((x >> 24) as u8); }
            v
        };
        for d in [8190usize, 8191, 8192, 8193, 8194] {
            for mlen in [3usize, 8, 264] {
                let marker: Vec<u8> = (0..mlen).map(|i| 0xA0u8.wrapping_add((i * 7) as u8)).collect();
                let mut v = filler(40, 1);
                v.extend_from_slice(&marker);
                let gap = d.saturating_sub(mlen);
                v.extend(filler(gap, 7 + d as u32));
                v.extend_from_slice(&marker);
                v.extend(filler(40, 3));
                inputs.push(v);
            }
        }
    }
    for spec in OP_SPECS {
        for inp in &inputs {
            for f in [U256::ZERO, U256::from(1), U256::from(1000), U256::from(1_000_000), U256::MAX] {
                let s3 = (U256::from(1000u64) << 96) | (U256::from(1000u64) << 64);
                lines.push(format!("opfee l1 {spec} {} {} {} {} {} {} {}", hx(f), hx(f), hx(f), hx(f), hx(s3), "0", hxb(inp)));
                lines.push(format!("opfee l1 {spec} {} {} {} 0 0 0 {}", hx(f), hx(f), hx(f), hxb(inp)));
                lines.push(format!("opfee direct {spec} {} {} {} {} {} {}", hx(f), hx(f), hx(f), hx(f), hx(f), hxb(inp)));
                lines.push(format!("opfee direct {spec} {} n {} n n {}", hx(f), hx(f), hxb(inp)));
            }
        }
    }
    // structured random
    for _ in 0..n {
        let spec = spec_of(&mut rng);
        match rng.below(10) {
            0 => {
                let ex = rng.chance(1, 2);
                let s = rnd_slots(&mut rng, ex);
                lines.push(format!("opfee fetch {spec} {}", join(&s)));
            }
            1..=5 => {
                let ex = rng.chance(1, 4);
                let s = rnd_slots(&mut rng, ex);
                let inp = rnd_input(&mut rng, 3000);
                lines.push(format!("opfee l1 {spec} {} {}", join(&s), hxb(&inp)));
            }
            6 => {
                let o = |rng: &mut Rng| if rng.chance(1, 5) { "n".to_string() } else { hx(rnd_fee(rng)) };
                let inp = rnd_input(&mut rng, 1200);
                lines.push(format!("opfee direct {spec} {} {} {} {} {} {}", hx(rnd_fee(&mut rng)), o(&mut rng), hx(rnd_fee(&mut rng)), o(&mut rng), o(&mut rng), hxb(&inp)));
            }
            7 => {
                let o = |rng: &mut Rng| if rng.chance(1, 12) { "n".to_string() } else { hx(rnd_fee(rng)) };
                let g = if rng.chance(1, 5) { rng.word() } else { U256::from(rng.below(40_000_000)) };
                lines.push(format!("opfee charge {spec} {} {} {}", o(&mut rng), o(&mut rng), hx(g)));
            }
            _ => {
                let sc = if rng.chance(1, 8) { rnd_fee(&mut rng) } else { U256::from(rng.next() & 0xffff_ffff) >> (rng.below(32) as usize) };
                let co = if rng.chance(1, 8) { rnd_fee(&mut rng) } else { U256::from(rng.next() >> rng.below(64)) };
                let limit = match rng.below(5) { 0 => rng.next(), 1 => 21_000 + rng.below(100), _ => 21_000 + rng.below(30_000_000) };
                let rem = rng.below(limit.saturating_add(1).max(1));
                let spent = limit - rem;
                let refd: i64 = match rng.below(8) { 0 => 0, 1 => (spent / 5).min(i64::MAX as u64) as i64, 2 => -(rng.below(1000) as i64), 3 => rng.next() as i64, _ => rng.below(spent / 5 + 1).min(i64::MAX as u64) as i64 };
                lines.push(format!("opfee refund {spec} {} {} {limit} {rem} {refd}", hx(sc), hx(co)));
            }
        }
    }
    // malformed
    for _ in 0..(n / 50).max(3) {
        match rng.below(5) {
            0 => lines.push("opfee l1 27 1 2 3".to_string()),
            1 => lines.push(format!("opfee charge 12 1 1 {:x}", rng.below(1000))),
            2 => lines.push("opfee refund 27 1 1 10 11 0".to_string()),
            3 => lines.push("opfee direct 27 1 n 1 n n abc".to_string()),
            _ => lines.push("opfee nop".to_string()),
        }
    }
    lines
}

/// a transaction line with plausible (valid) parameters; the frame result is filled in by the probe
fn rnd_tx(rng: &mut Rng) -> TxLine {
    let spec = SpecId::try_from_u8(spec_of(rng)).unwrap();
    let regolith = spec as u8 >= 17;
    let deposit = rng.chance(2, 5);
    let create = rng.chance(1, 6);
    let prog = rng.pick(&PROGS).to_string();
    let data = if create {
        match rng.below(4) { 0 => vec![0x00], 1 => prog_code("revert"), 2 => vec![0xfe], _ => vec![0x60, 0x00, 0x60, 0x00, 0xf3] }
    } else {
        let len = match rng.below(4) { 0 => 0, 1 => rng.below(8) as usize, _ => rng.below(200) as usize };
        (0..len).map(|_| if rng.chance(1, 2) { 0 } else { 1 + (rng.next() % 255) as u8 }).collect()
    };
    let basefee = match rng.below(5) { 0 => U256::ZERO, 1 => U256::from(1), 2 => U256::from(7), _ => U256::from(rng.below(100_000_000_000)) };
    let (gas_price, prio) = if deposit {
        (if rng.chance(1, 8) { U256::from(rng.below(1000)) } else { U256::ZERO }, None)
    } else {
        let tip = match rng.below(4) { 0 => U256::ZERO, 1 => U256::from(1), _ => U256::from(rng.below(5_000_000_000)) };
        if rng.chance(1, 2) {
            // 1559: max fee >= basefee + something, priority fee separate
            let maxfee = basefee + tip + U256::from(if rng.chance(1, 2) { 0 } else { rng.below(1_000_000_000) });
            (maxfee, Some(if rng.chance(1, 4) { tip + U256::from(rng.below(1_000_000_000)) } else { tip }.min(maxfee)))
        } else {
            (basefee + tip, None)
        }
    };
    let gas_limit = match rng.below(6) {
        0 => 21_000 + rng.below(60_000),
        1 => 100_000,
        2 => 21_000 + rng.below(300),
        _ => 53_000 + rng.below(1_000_000),
    };
    let value = match rng.below(4) { 0 | 1 => U256::ZERO, 2 => U256::from(1), _ => U256::from(rng.below(1_000_000_000_000_000_000)) };
    let mint = if deposit { match rng.below(4) { 0 => None, 1 => Some(0u128), 2 => Some(rng.below(1_000_000_000_000_000_000) as u128), _ => Some(((rng.next() as u128) << 64) | rng.next() as u128) } } else if rng.chance(1, 30) { Some(rng.below(1000) as u128) } else { None };
    let system = if deposit { match rng.below(4) { 0 => Some(true), 1 => Some(false), _ => None } } else if !regolith && rng.chance(1, 10) { Some(true) } else if rng.chance(1, 10) { Some(false) } else { None };
    let slots = rnd_slots(rng, false);
    let env = if rng.chance(1, 40) && !deposit { None } else { Some(rnd_input(rng, 1500)) };
    let s_nonce = match rng.below(4) { 0 => 0, 1 => 1, _ => rng.below(100_000) };
    let tx_nonce = if deposit || rng.chance(1, 2) { None } else { Some(s_nonce) };
    // sender balance: enough for the maximal cost (a loose upper bound), sometimes with little headroom
    let need = U256::from(gas_limit) * gas_price + value + U256::from(10u64).pow(U256::from(24));
    let bs = if deposit {
        match rng.below(4) { 0 => U256::ZERO, 1 => value, _ => need }
    } else {
        need + U256::from(rng.below(1_000_000))
    };
    let other = |rng: &mut Rng| match rng.below(3) { 0 => U256::ZERO, 1 => U256::from(rng.below(1000)), _ => U256::from(rng.next()) };
    let bal = [bs, other(rng), other(rng), other(rng), other(rng), if create { U256::ZERO } else { other(rng) }];
    TxLine { spec, deposit, system, mint, create, prog, gas_limit, gas_price, prio, value, basefee, data, env, tx_nonce, s_nonce, bal, slots, cls: "ok".into(), rem: 0, refd: 0 }
}

/// fill in the first-frame result by running the transaction once without injection
fn probe(l: &mut TxLine) {
    let l2 = l.clone();
    let seen = std::panic::catch_unwind(move || run_tx(&l2, false).seen).unwrap_or(None);
    if let Some((r, rem, refd)) = seen {
        l.cls = class_of(r).to_string();
        l.rem = rem;
        l.refd = refd;
    }
}

pub fn gen_optx(seed: u64, n: usize) -> Vec<String> {
    let mut rng = Rng::new(seed ^ 0x0C33_7800);
    let mut lines = Vec::new();
    for i in 0..n {
        let mut l = rnd_tx(&mut rng);
        // stream 3 (invalid): break one validation condition
        if i % 10 == 9 {
            match rng.below(8) {
                0 => l.gas_limit = rng.below(21_000),
                1 => l.bal[0] = U256::from(rng.below(1000)),
                2 => l.gas_price = l.basefee.saturating_sub(U256::from(1)),
                3 => l.prio = Some(l.gas_price + U256::from(1)),
                4 => l.tx_nonce = Some(l.s_nonce + 1 - 2 * rng.below(2).min(l.s_nonce)),
                5 => l.env = None,
                6 if rng.chance(1, 2) => {
                    l.s_nonce = u64::MAX;
                    l.tx_nonce = if rng.chance(1, 2) { Some(u64::MAX) } else { None };
                }
                6 => l.gas_price = U256::MAX >> rng.below(70) as usize,
                _ => l.system = Some(true),
            }
        }
        probe(&mut l);
        // stream 2 (boundary gas results): keep the real class, replace the gas numbers
        if i % 10 >= 6 && i % 10 < 9 {
            let room = l.gas_limit.saturating_sub(21_000);
            l.rem = match rng.below(5) { 0 => 0, 1 => room, 2 => room.saturating_sub(1), _ => rng.below(room + 1) };
            let spent = l.gas_limit - l.rem;
            l.refd = match rng.below(6) { 0 => 0, 1 => (spent / 5) as i64, 2 => (spent / 5 + 1) as i64, 3 => spent as i64, 4 => rng.below(1_000_000) as i64, _ => rng.below(spent / 5 + 1) as i64 };
        }
        lines.push(l.line());
    }
    lines
}

pub fn run(seed: u64, n: usize, replay: Option<Vec<String>>, out: &mut Out) {
    let lines = replay.unwrap_or_else(|| {
        let mut v = gen_opfee(seed, n);
        v.extend(gen_optx(seed, n / 8));
        v
    });
    run_lines(lines, out)
}
pub fn run_opfee(seed: u64, n: usize, replay: Option<Vec<String>>, out: &mut Out) {
    run_lines(replay.unwrap_or_else(|| gen_opfee(seed, n)), out)
}
pub fn run_optx(seed: u64, n: usize, replay: Option<Vec<String>>, out: &mut Out) {
    run_lines(replay.unwrap_or_else(|| gen_optx(seed, n)), out)
}

fn run_lines(lines: Vec<String>, out: &mut Out) {
    for l in lines {
        let r = exec_line(&l);
        let t: Vec<&str> = l.split(' ').collect();
        match t.first().copied() {
            Some("opfee") => {
                out.count(&format!("opfee:{}", t.get(1).copied().unwrap_or("?")));
                if let Some(s) = t.get(2) { out.count(&format!("opfee-spec:{s}")); }
                if t.get(1) == Some(&"l1") {
                    if let Some(b) = t.get(9).and_then(|s| pb(s)) {
                        out.count(match b.len() { 0 => "input-len:0", 1..=12 => "input-len:1-12", 13..=99 => "input-len:13-99", 100..=999 => "input-len:100-999", _ => "input-len:1000+" });
                    }
                }
            }
            Some("optx") => {
                if let Some(x) = TxLine::parse(&t) {
                    out.count(&format!("optx-spec:{}", x.spec as u8));
                    out.count(if x.deposit { "optx:deposit" } else { "optx:regular" });
                    out.count(&format!("optx-{}:{}", if x.deposit { "deposit" } else { "regular" }, r.split(' ').next().unwrap_or("?")));
                    if x.deposit && x.mint.unwrap_or(0) > 0 { out.count("optx:deposit-with-mint"); }
                    if x.deposit && x.system == Some(true) { out.count("optx:deposit-system"); }
                    if x.create { out.count("optx:create"); }
                    if !x.value.is_zero() { out.count("optx:with-value"); }
                    if r.contains(" cons=0") { out.count("optx:oracle-broken"); }
                    if r.starts_with("success") && r.split(' ').nth(2) != Some("0") { out.count("optx:with-refund"); }
                } else {
                    out.count("optx:malformed");
                }
            }
            _ => out.count("other"),
        }
        if r == "panic" { out.count("reply:panic"); }
        out.push(l, r);
    }
}
