//! C22 (`hcfg`): reconfiguration sequences on a REAL `Evm` whose handler was built with an explicit
//! reward setting (`Handler::mainnet_with_spec(spec, b)` / `Handler::optimism_with_spec(spec, b)` installed
//! with `Evm::builder().with_handler(..)`), followed by transactions with basefee > 0 and tip > 0.
//! Every case keeps a TWIN `Evm` built the same way with rewards enabled; every operation is applied to
//! both, every transaction is run on both.
//!
//! requests:
//!   begin hcfg <build: default|optimism> <flavor: mainnet|optimism> <SPEC> <reward 0|1> <coinbase balance hex>
//!   hcfg-build <default|optimism>   first line of every request file: which binary answers (the optimism binary also
//!                           runs cases tagged `default`; the default binary answers `wrong-build` to an `optimism` case)
//!   hcfg spec <SPEC>        evm.modify_spec_id(s)
//!   hcfg hspec <SPEC>       evm.handler.modify_spec_id(s)
//!   hcfg bspec <SPEC>       evm = evm.modify().with_spec_id(s).build()
//!   hcfg app <reg>          evm.handler.append_handler_register{,_plain,_box}(reg)
//!   hcfg bapp <reg>         evm = evm.modify().append_handler_register{,_box}(reg).build()
//!   hcfg pop                evm.handler.pop_handle_register()
//!   hcfg generic <SPEC>     evm.handler = evm.handler.create_handle_generic::<SPEC>()
//!   hcfg gendrop <SPEC>     let _ = evm.handler.create_handle_generic::<SPEC>()
//!   hcfg rebuild            evm = evm.modify().modify_tx_env(..).build()
//!   hcfg reset | new | resetdb | boptimism     explicit resets (reset_handler, Handler::new(cfg),
//!                           reset_handler_with_db, reset_handler_with_db + .optimism())
//!   hcfg tx <xfer|tocb|self|call> <gas_limit> <gas_price> <prio|-> <basefee> <value> <used> <l1|->
//! registers: noop (plain fn), insp (inspector_handle_register, NoOpInspector), itab (boxed closure that
//!   installs a custom instruction), opt0 / opt1 (optimism_handle_register(false/true), optimism build),
//!   setm / clr / tgl (user registers that assign / clear / toggle post_execution.reward_beneficiary).
//! replies:
//!   state: `[popped=<b> ]spec=<SPEC> opt=<b> regs=<n> rw=<b> trw=<b>`   (rw = reward_beneficiary.is_some())
//!   tx:    `<fee part> caller=<bal:touched>,<nonce> to=<bal:touched> twin: <fee part of the twin> same=<b>`
//!          fee part = `<ok|revert|halt:R|err:E> gas=<used> cb=<bal:touched|-> v=<l1 vault>,<base fee vault>,<operator vault>`
//!          `-` = the account is absent from the returned state; same = result, gas, logs, output and every
//!          account other than the block's coinbase and the three vaults are identical on both EVMs.
use crate::*;
use revm::handler::register::{EvmHandler, HandleRegisters};
use revm::inspectors::NoOpInspector;
use revm::interpreter::Interpreter;
use revm::primitives::{
    address, spec_to_generic, AccountInfo, Address, Bytecode, Bytes, EVMError, EvmState, ExecutionResult, ResultAndState,
    SpecId, TxKind, U256,
};
use revm::{inspector_handle_register, Context, Evm, Handler, InMemoryDB};
use std::panic::AssertUnwindSafe;

type E = Evm<'static, NoOpInspector, InMemoryDB>;
type H<'a> = EvmHandler<'a, NoOpInspector, InMemoryDB>;

pub const OPT_BUILD: bool = cfg!(feature = "optimism");
pub fn build_name() -> &'static str {
    if OPT_BUILD { "optimism" } else { "default" }
}

const CALLER: Address = address!("00000000000000000000000000000000000000ca");
const RECIP: Address = address!("00000000000000000000000000000000000000bb");
const CONTRACT: Address = address!("00000000000000000000000000000000000000cc");
const COINBASE: Address = address!("00000000000000000000000000000000000000c0");
const L1_VAULT: Address = address!("420000000000000000000000000000000000001A");
const BASE_VAULT: Address = address!("4200000000000000000000000000000000000019");
const OP_VAULT: Address = address!("420000000000000000000000000000000000001B");
#[allow(dead_code)]
const L1_BLOCK: Address = address!("4200000000000000000000000000000000000015");
#[allow(dead_code)]
const ENVELOPE: &[u8] = &[0x02, 0xf8, 0x00, 0x11, 0x00, 0x00, 0x22, 0x33, 0x44, 0x00, 0x55, 0x01];

/// COINBASE BALANCE POP ; PUSH1 1 PUSH1 0 SSTORE ; PUSH1 0 PUSH1 0 LOG0 ; STOP
const CONTRACT_CODE: &[u8] = &[0x41, 0x31, 0x50, 0x60, 0x01, 0x60, 0x00, 0x55, 0x60, 0x00, 0x60, 0x00, 0xa0, 0x00];

pub fn spec_by_name(n: &str) -> Option<SpecId> {
    crate::act::all_specs().into_iter().find(|s| format!("{:?}", s) == n)
}
/// SpecIds that exist only in the optimism build
const OPT_ONLY_SPECS: &[&str] = &["BEDROCK", "REGOLITH", "CANYON", "ECOTONE", "FJORD", "GRANITE", "HOLOCENE", "ISTHMUS"];
/// a case tagged `default` may only name what exists in the default build (it runs unchanged on both binaries)
fn spec_in(opt_case: bool, n: &str) -> Option<SpecId> {
    if !opt_case && OPT_ONLY_SPECS.contains(&n) {
        return None;
    }
    spec_by_name(n)
}

fn make_db(cb0: U256) -> InMemoryDB {
    let mut db = InMemoryDB::default();
    db.insert_account_info(CALLER, AccountInfo { balance: U256::from(10u64).pow(U256::from(30)), ..Default::default() });
    db.insert_account_info(RECIP, AccountInfo { balance: U256::from(5), ..Default::default() });
    db.insert_account_info(
        CONTRACT,
        AccountInfo { balance: U256::from(3), nonce: 1, ..AccountInfo::from_bytecode(Bytecode::new_legacy(Bytes::from_static(CONTRACT_CODE))) },
    );
    db.insert_account_info(COINBASE, AccountInfo { balance: cb0, ..Default::default() });
    // L1 block contract (read by the optimism handles only): base fee, overhead, scalar, blob base fee,
    // ecotone scalars; operator fee parameters (slot 8) stay zero
    db.insert_account_info(L1_BLOCK, AccountInfo { nonce: 1, ..Default::default() });
    let mut sc = [0u8; 32];
    sc[16..20].copy_from_slice(&1368u32.to_be_bytes());
    sc[20..24].copy_from_slice(&810949u32.to_be_bytes());
    for (k, v) in [
        (1u64, U256::from(1_000_000_007u64)),
        (5, U256::from(188)),
        (6, U256::from(684_000)),
        (7, U256::from(3_000_000_011u64)),
        (3, U256::from_be_bytes(sc)),
    ] {
        db.insert_account_storage(L1_BLOCK, U256::from(k), v).unwrap();
    }
    db
}

// ---------------------------------------------------------------- registers
fn noop_reg(_h: &mut H<'_>) {}
fn clr_reg(h: &mut H<'_>) {
    h.post_execution.reward_beneficiary = None;
}
fn setm_reg(h: &mut H<'_>) {
    spec_to_generic!(h.cfg.spec_id, {
        h.post_execution.reward_beneficiary =
            Some(Box::new(revm::handler::mainnet::reward_beneficiary::<SPEC, NoOpInspector, InMemoryDB>));
    });
}
/// a user register whose effect depends on what it finds: fills an empty slot, empties a filled one
fn tgl_reg(h: &mut H<'_>) {
    if h.post_execution.reward_beneficiary.is_some() {
        clr_reg(h)
    } else {
        setm_reg(h)
    }
}
fn custom_instruction(_i: &mut Interpreter, _h: &mut Context<NoOpInspector, InMemoryDB>) {}

fn make_reg(name: &str) -> Option<HandleRegisters<'static, NoOpInspector, InMemoryDB>> {
    Some(match name {
        "noop" => HandleRegisters::Plain(noop_reg),
        "insp" => HandleRegisters::Plain(inspector_handle_register),
        "itab" => HandleRegisters::Box(Box::new(|h: &mut H<'_>| {
            h.instruction_table.insert(0xEE, custom_instruction);
        })),
        "setm" => HandleRegisters::Box(Box::new(|h: &mut H<'_>| setm_reg(h))),
        "clr" => HandleRegisters::Plain(clr_reg),
        "tgl" => HandleRegisters::Plain(tgl_reg),
        #[cfg(feature = "optimism")]
        "opt0" => HandleRegisters::Box(revm::optimism::optimism_handle_register::<InMemoryDB, NoOpInspector>(false)),
        #[cfg(feature = "optimism")]
        "opt1" => HandleRegisters::Box(revm::optimism::optimism_handle_register::<InMemoryDB, NoOpInspector>(true)),
        _ => return None,
    })
}

fn build_evm(flavor: &str, spec: SpecId, reward: bool, cb0: U256) -> Option<E> {
    let handler: H<'static> = match flavor {
        "mainnet" => Handler::mainnet_with_spec(spec, reward),
        #[cfg(feature = "optimism")]
        "optimism" => Handler::optimism_with_spec(spec, reward),
        _ => return None,
    };
    Some(Evm::builder().with_db(make_db(cb0)).with_external_context(NoOpInspector).with_handler(handler).build())
}

/// one reconfiguration on one EVM; `Err` = not an operation
fn apply(mut evm: E, t: &[&str], opt_case: bool) -> Result<(E, Option<bool>), E> {
    let spec_arg = |i: usize| t.get(i).and_then(|s| spec_in(opt_case, s));
    if !opt_case && (t[0] == "boptimism" || ((t[0] == "app" || t[0] == "bapp") && t.len() == 2 && t[1].starts_with("opt"))) {
        return Err(evm);
    }
    match (t[0], t.len()) {
        ("spec", 2) => {
            let Some(s) = spec_arg(1) else { return Err(evm) };
            evm.modify_spec_id(s);
            Ok((evm, None))
        }
        ("hspec", 2) => {
            let Some(s) = spec_arg(1) else { return Err(evm) };
            evm.handler.modify_spec_id(s);
            Ok((evm, None))
        }
        ("bspec", 2) => {
            let Some(s) = spec_arg(1) else { return Err(evm) };
            Ok((evm.modify().with_spec_id(s).build(), None))
        }
        ("app", 2) => {
            let Some(r) = make_reg(t[1]) else { return Err(evm) };
            match (t[1], r) {
                ("noop", _) => evm.handler.append_handler_register_plain(noop_reg),
                (_, HandleRegisters::Box(b)) if t[1] == "itab" => evm.handler.append_handler_register_box(b),
                (_, r) => evm.handler.append_handler_register(r),
            }
            Ok((evm, None))
        }
        ("bapp", 2) => {
            let Some(r) = make_reg(t[1]) else { return Err(evm) };
            let b = evm.modify();
            Ok((
                match r {
                    HandleRegisters::Plain(f) => b.append_handler_register(f).build(),
                    HandleRegisters::Box(f) => b.append_handler_register_box(f).build(),
                },
                None,
            ))
        }
        ("pop", 1) => {
            let p = evm.handler.pop_handle_register().is_some();
            Ok((evm, Some(p)))
        }
        ("generic", 2) => {
            let Some(s) = spec_arg(1) else { return Err(evm) };
            let h = spec_to_generic!(s, evm.handler.create_handle_generic::<SPEC>());
            evm.handler = h;
            Ok((evm, None))
        }
        ("gendrop", 2) => {
            let Some(s) = spec_arg(1) else { return Err(evm) };
            let _ = spec_to_generic!(s, evm.handler.create_handle_generic::<SPEC>());
            Ok((evm, None))
        }
        ("rebuild", 1) => Ok((evm.modify().modify_tx_env(|t| t.nonce = None).build(), None)),
        ("reset", 1) => Ok((evm.modify().reset_handler().build(), None)),
        ("new", 1) => {
            evm.handler = Handler::new(evm.handler.cfg);
            Ok((evm, None))
        }
        ("resetdb", 1) => {
            let db = evm.db().clone();
            Ok((evm.modify().reset_handler_with_db(db).build(), None))
        }
        #[cfg(feature = "optimism")]
        ("boptimism", 1) => {
            let db = evm.db().clone();
            Ok((evm.modify().reset_handler_with_db(db).optimism().build(), None))
        }
        _ => Err(evm),
    }
}

// ---------------------------------------------------------------- transactions
#[derive(Clone, Debug)]
pub struct TxReq {
    pub kind: String,
    pub gas_limit: u64,
    pub gas_price: u64,
    pub prio: Option<u64>,
    pub basefee: u64,
    pub value: u64,
}
impl TxReq {
    fn coinbase(&self) -> Address {
        if self.kind == "self" { CALLER } else { COINBASE }
    }
    fn target(&self) -> Address {
        match self.kind.as_str() {
            "tocb" => COINBASE,
            "call" => CONTRACT,
            _ => RECIP,
        }
    }
}

fn set_env(evm: &mut E, r: &TxReq, _opt_case: bool) {
    let env = evm.context.evm.env.as_mut();
    env.block.basefee = U256::from(r.basefee);
    env.block.coinbase = r.coinbase();
    env.tx.caller = CALLER;
    env.tx.transact_to = TxKind::Call(r.target());
    env.tx.gas_limit = r.gas_limit;
    env.tx.gas_price = U256::from(r.gas_price);
    env.tx.gas_priority_fee = r.prio.map(U256::from);
    env.tx.value = U256::from(r.value);
    env.tx.data = Bytes::new();
    env.tx.nonce = None;
    #[cfg(feature = "optimism")]
    {
        env.tx.optimism.enveloped_tx = if _opt_case { Some(Bytes::from_static(ENVELOPE)) } else { None };
        env.tx.optimism.source_hash = None;
        env.tx.optimism.mint = None;
    }
}

fn err_name<T: std::fmt::Debug>(e: &EVMError<T>) -> String {
    match e {
        EVMError::Transaction(t) => {
            let s = format!("{:?}", t);
            s.chars().take_while(|c| c.is_ascii_alphanumeric()).collect()
        }
        EVMError::Custom(_) => "Custom".into(),
        EVMError::Header(_) => "Header".into(),
        EVMError::Database(_) => "Database".into(),
        EVMError::Precompile(_) => "Precompile".into(),
    }
}

fn acct_str(st: &EvmState, a: Address) -> String {
    match st.get(&a) {
        None => "-".into(),
        Some(acc) => format!("{:x}:{}", acc.info.balance, b01(acc.is_touched())),
    }
}

struct Ran {
    fee: String,
    other: String,
    digest: String,
}

fn run_one(evm: &mut E, r: &TxReq, opt_case: bool) -> Ran {
    set_env(evm, r, opt_case);
    match evm.transact() {
        Err(e) => {
            let n = format!("err:{}", err_name(&e));
            Ran { fee: n.clone(), other: String::new(), digest: n }
        }
        Ok(ResultAndState { result, state }) => {
            let (res, gas) = match &result {
                ExecutionResult::Success { gas_used, .. } => ("ok".to_string(), *gas_used),
                ExecutionResult::Revert { gas_used, .. } => ("revert".to_string(), *gas_used),
                ExecutionResult::Halt { reason, gas_used } => (format!("halt:{:?}", reason), *gas_used),
            };
            let cb = r.coinbase();
            let fee = format!(
                "{res} gas={gas} cb={} v={},{},{}",
                acct_str(&state, cb),
                acct_str(&state, L1_VAULT),
                acct_str(&state, BASE_VAULT),
                acct_str(&state, OP_VAULT)
            );
            let nonce = state.get(&CALLER).map(|a| a.info.nonce).unwrap_or(0);
            let other = format!(" caller={},{} to={}", acct_str(&state, CALLER), nonce, acct_str(&state, r.target()));
            // every other effect: the whole ExecutionResult and all accounts but the fee recipients
            let mut accts: Vec<_> =
                state.iter().filter(|(a, _)| **a != cb && **a != L1_VAULT && **a != BASE_VAULT && **a != OP_VAULT).collect();
            accts.sort_by_key(|(a, _)| **a);
            let mut digest = format!("{:?}", result);
            for (a, acc) in accts {
                let mut slots: Vec<_> = acc.storage.iter().map(|(k, v)| (*k, v.original_value, v.present_value)).collect();
                slots.sort();
                digest += &format!(
                    "|{:?} {:x} {} {:?} {:?} {:?}",
                    a, acc.info.balance, acc.info.nonce, acc.info.code_hash, acc.status, slots
                );
            }
            Ran { fee, other, digest }
        }
    }
}

pub fn parse_tx(t: &[&str], opt_case: bool) -> Option<(TxReq, u64, Option<u128>)> {
    if t.len() != 8 || !["xfer", "tocb", "self", "call"].contains(&t[0]) {
        return None;
    }
    let h = |s: &str| u64::from_str_radix(s, 16).ok();
    let prio = if t[3] == "-" { None } else { Some(h(t[3])?) };
    let l1 = if t[7] == "-" { None } else { Some(u128::from_str_radix(t[7], 16).ok()?) };
    let r = TxReq { kind: t[0].to_string(), gas_limit: h(t[1])?, gas_price: h(t[2])?, prio, basefee: h(t[4])?, value: h(t[5])? };
    let used = h(t[6])?;
    if used > r.gas_limit || r.gas_limit < 21000 || l1.is_some() != opt_case {
        return None;
    }
    Some((r, used, l1))
}

// ---------------------------------------------------------------- a case
pub struct Case {
    evm: Option<E>,
    twin: Option<E>,
    dead: bool,
    /// the case is tagged `optimism` (may use what only the optimism build has)
    opt_case: bool,
}

fn state_line(e: &E, t: &E) -> String {
    format!(
        "spec={:?} opt={} regs={} rw={} trw={}",
        e.handler.cfg.spec_id,
        b01(e.handler.cfg.is_optimism()),
        e.handler.registers.len(),
        b01(e.handler.post_execution.reward_beneficiary.is_some()),
        b01(t.handler.post_execution.reward_beneficiary.is_some())
    )
}

impl Case {
    pub fn begin(t: &[&str]) -> (Option<Case>, String) {
        if t.len() != 5 || !(t[0] == "default" || t[0] == "optimism") {
            return (None, "bad-op".into());
        }
        let opt_case = t[0] == "optimism";
        if opt_case && !OPT_BUILD {
            // cannot be executed by this binary; ./check never sends such a line to the default build
            return (None, "wrong-build".into());
        }
        if !opt_case && t[1] != "mainnet" {
            return (None, "bad-op".into());
        }
        let (Some(spec), Ok(cb0)) = (spec_in(opt_case, t[2]), U256::from_str_radix(t[4], 16)) else {
            return (None, "bad-op".into());
        };
        let rw = match t[3] {
            "0" => false,
            "1" => true,
            _ => return (None, "bad-op".into()),
        };
        let (Some(e), Some(tw)) = (build_evm(t[1], spec, rw, cb0), build_evm(t[1], spec, true, cb0)) else {
            return (None, "bad-op".into());
        };
        let line = state_line(&e, &tw);
        (Some(Case { evm: Some(e), twin: Some(tw), dead: false, opt_case }), line)
    }

    pub fn exec(&mut self, t: &[&str]) -> String {
        if self.dead {
            return "dead".into();
        }
        if t.is_empty() {
            return "bad-op".into();
        }
        if t[0] == "tx" {
            let Some((r, _used, _l1)) = parse_tx(&t[1..], self.opt_case) else { return "bad-op".into() };
            let a = run_one(self.evm.as_mut().unwrap(), &r, self.opt_case);
            let b = run_one(self.twin.as_mut().unwrap(), &r, self.opt_case);
            return format!("{}{} twin: {} same={}", a.fee, a.other, b.fee, b01(a.digest == b.digest));
        }
        let evm = self.evm.take().unwrap();
        let (evm, popped) = match apply(evm, t, self.opt_case) {
            Ok(x) => x,
            Err(evm) => {
                self.evm = Some(evm);
                return "bad-op".into();
            }
        };
        let twin = self.twin.take().unwrap();
        let (twin, _) = match apply(twin, t, self.opt_case) {
            Ok(x) => x,
            Err(tw) => (tw, None),
        };
        let line = state_line(&evm, &twin);
        self.evm = Some(evm);
        self.twin = Some(twin);
        match popped {
            Some(p) => format!("popped={} {}", b01(p), line),
            None => line,
        }
    }
}

// ---------------------------------------------------------------- oracles used by the generator
/// gas used by the transaction on a freshly built default EVM of that spec (mainnet handles)
pub fn oracle_used(spec: SpecId, r: &TxReq, cb0: U256) -> u64 {
    let mut evm: E = Evm::builder().with_db(make_db(cb0)).with_external_context(NoOpInspector).with_spec_id(spec).build();
    set_env(&mut evm, r, false);
    match evm.transact() {
        Ok(rs) => rs.result.gas_used(),
        Err(_) => 21000,
    }
}
#[cfg(feature = "optimism")]
pub fn oracle_l1(spec: SpecId) -> Option<u128> {
    let mut db = make_db(U256::ZERO);
    let mut info = revm::optimism::L1BlockInfo::try_fetch(&mut db, spec).ok()?;
    // the handles pass SPEC::SPEC_ID, the canonical id; L1 cost only distinguishes optimism forks
    let c = info.calculate_tx_l1_cost(ENVELOPE, spec);
    Some(c.try_into().unwrap_or(u128::MAX))
}
#[cfg(not(feature = "optimism"))]
pub fn oracle_l1(_spec: SpecId) -> Option<u128> {
    None
}

// ---------------------------------------------------------------- generator
const NEUTRAL: &[&str] = &["noop", "insp", "itab"];

fn cb0_choice(rng: &mut Rng) -> U256 {
    match rng.below(8) {
        0 => U256::ZERO,
        1 => U256::from(7),
        2 => U256::MAX,
        3 => U256::MAX - U256::from(rng.below(50_000_000)),
        4 => U256::from(1u64) << 255,
        _ => U256::from(rng.next() >> 4),
    }
}

fn gen_tx(rng: &mut Rng, spec: SpecId, cb0: U256, malformed: bool, opt_case: bool) -> String {
    let kind = *rng.pick(&["xfer", "xfer", "tocb", "self", "call", "call"]);
    let basefee = match rng.below(6) { 0 => 1, 1 => 7, _ => rng.range(1, 5000) };
    let tip = match rng.below(6) { 0 => 1, _ => rng.range(1, 5000) };
    let (mut gas_price, mut prio) = match rng.below(3) {
        0 => (basefee + tip, None),
        1 => (basefee + tip + rng.below(100), Some(tip)),
        _ => (basefee + tip, Some(tip + rng.below(3))),
    };
    if let Some(p) = prio {
        if p > gas_price {
            prio = Some(gas_price);
        }
    }
    if malformed {
        match rng.below(2) {
            0 => prio = Some(gas_price + 1 + rng.below(5)),
            _ => gas_price = basefee.saturating_sub(1 + rng.below(2)),
        }
    }
    let gas_limit = if kind == "call" { *rng.pick(&[100_000u64, 250_000, 1_000_000]) } else { *rng.pick(&[21_000u64, 21_001, 100_000, 1_000_000]) };
    let value = *rng.pick(&[0u64, 1, 12345, 1_000_000_007]);
    let r = TxReq { kind: kind.to_string(), gas_limit, gas_price, prio, basefee, value };
    let used = oracle_used(spec, &r, cb0);
    let l1 = if opt_case { oracle_l1(spec) } else { None };
    format!(
        "hcfg tx {} {:x} {:x} {} {:x} {:x} {:x} {}",
        kind,
        gas_limit,
        gas_price,
        prio.map(|p| format!("{:x}", p)).unwrap_or("-".into()),
        basefee,
        value,
        used,
        l1.map(|p| format!("{:x}", p)).unwrap_or("-".into())
    )
}

/// stream: 0 = the theorem's alphabet (neutral registers, no reset), 1 = anything, 2 = malformed
fn gen_case(rng: &mut Rng, stream: u8, max_ops: u64, out: &mut Vec<String>) {
    // the optimism binary also runs cases tagged `default` (only what the default build has): the same
    // request lines give the same replies on both binaries
    let opt_case = OPT_BUILD && rng.chance(17, 20);
    let specs: Vec<SpecId> =
        crate::act::all_specs().into_iter().filter(|s| opt_case || !OPT_ONLY_SPECS.contains(&format!("{:?}", s).as_str())).collect();
    let mut spec = *rng.pick(&specs);
    let flavor = if opt_case && rng.chance(7, 10) { "optimism" } else { "mainnet" };
    let rw = rng.chance(1, 4);
    let cb0 = cb0_choice(rng);
    out.push(format!("begin hcfg {} {} {:?} {} {:x}", if opt_case { "optimism" } else { "default" }, flavor, spec, b01(rw), cb0));
    let nops = rng.range(1, max_ops);
    for i in 0..nops {
        let last = i + 1 == nops;
        let c = if last { 99 } else { rng.below(100) };
        let line = match c {
            0..=17 => {
                spec = if rng.chance(1, 8) { spec } else { *rng.pick(&specs) };
                format!("hcfg {} {:?}", if rng.chance(1, 3) { "hspec" } else { "spec" }, spec)
            }
            18..=27 => {
                spec = *rng.pick(&specs);
                format!("hcfg bspec {:?}", spec)
            }
            28..=47 => {
                let op = if rng.chance(2, 3) { "app" } else { "bapp" };
                let reg = if stream == 0 || rng.chance(7, 10) {
                    if opt_case && rng.chance(1, 5) { "opt0" } else { *rng.pick(NEUTRAL) }
                } else if opt_case {
                    *rng.pick(&["setm", "clr", "tgl", "opt1", "opt0"])
                } else {
                    *rng.pick(&["setm", "clr", "tgl"])
                };
                format!("hcfg {op} {reg}")
            }
            48..=59 => "hcfg pop".to_string(),
            60..=66 => {
                spec = *rng.pick(&specs);
                format!("hcfg generic {:?}", spec)
            }
            67..=69 => format!("hcfg gendrop {:?}", rng.pick(&specs)),
            70..=73 => "hcfg rebuild".to_string(),
            74..=79 if stream != 0 => {
                let ops: &[&str] = if opt_case { &["reset", "new", "resetdb", "boptimism"] } else { &["reset", "new", "resetdb"] };
                format!("hcfg {}", rng.pick(ops))
            }
            80..=84 if stream == 2 => match rng.below(5) {
                0 => "hcfg spec ATLANTIS".to_string(),
                1 => "hcfg app turbo".to_string(),
                2 => if opt_case { "hcfg tx xfer 5208 a 1 - 0 0 -".to_string() } else { "hcfg app opt1".to_string() },
                3 => "hcfg pop twice".to_string(),
                _ => gen_tx(rng, spec, cb0, true, opt_case),
            },
            _ => gen_tx(rng, spec, cb0, false, opt_case),
        };
        out.push(line);
    }
}

pub fn gen(seed: u64, n: usize) -> Vec<String> {
    let mut rng = Rng::new(seed ^ 0xC22);
    let mut v = vec![];
    let specs = crate::act::all_specs();
    // boundary: every spec x every single reconfiguration step on a handler built without rewards
    let singles: &[&[&str]] = &[
        &["hcfg spec CANCUN"],
        &["hcfg spec FRONTIER"],
        &["hcfg bspec LONDON"],
        &["hcfg app insp", "hcfg pop"],
        &["hcfg bapp itab", "hcfg pop"],
        &["hcfg pop"],
        &["hcfg generic BERLIN"],
        &["hcfg gendrop BERLIN", "hcfg spec SHANGHAI"],
        &["hcfg rebuild"],
        &["hcfg app noop", "hcfg spec MERGE", "hcfg pop", "hcfg pop"],
    ];
    let flavors: &[&str] = if OPT_BUILD { &["mainnet", "optimism"] } else { &["mainnet"] };
    let mut k = 0usize;
    for s in &specs {
        for fl in flavors {
            let ops = singles[k % singles.len()];
            k += 1;
            let cb0 = U256::from(7);
            v.push(format!("begin hcfg {} {} {:?} 0 7", build_name(), fl, s));
            let mut cur = *s;
            v.push(gen_tx(&mut rng, cur, cb0, false, OPT_BUILD));
            for o in ops.iter() {
                v.push(o.to_string());
                let t: Vec<&str> = o.split(' ').collect();
                if (t[1] == "spec" || t[1] == "bspec" || t[1] == "generic") && t.len() == 3 {
                    cur = spec_by_name(t[2]).unwrap();
                }
                v.push(gen_tx(&mut rng, cur, cb0, false, OPT_BUILD));
            }
        }
    }
    for i in 0..n {
        let stream = match i % 10 { 0..=6 => 0, 7 | 8 => 1, _ => 2 };
        gen_case(&mut rng, stream, if i % 25 == 24 { 60 } else { 14 }, &mut v);
    }
    v
}

pub fn run(seed: u64, n: usize, replay: Option<Vec<String>>, out: &mut Out) {
    let mut lines = replay.unwrap_or_else(|| gen(seed, n));
    // every request file starts by naming the binary that answers it
    let first = format!("hcfg-build {}", build_name());
    if lines.first() != Some(&first) {
        lines.insert(0, first.clone());
    }
    let mut case: Option<Case> = None;
    let mut disabled_case = false;
    let mut reconfigs = 0u32;
    for l in lines {
        let t: Vec<&str> = l.split(' ').collect();
        let reply = if t[0] == "hcfg-build" {
            // a file recorded by the other binary: say so, the model then expects `wrong-build` where it matters
            if t.len() == 2 && t[1] == build_name() { "ok".to_string() } else { "other-binary".to_string() }
        } else if t.len() >= 2 && t[0] == "begin" && t[1] == "hcfg" {
            let (c, r) = {
                let t2 = t.clone();
                std::panic::catch_unwind(AssertUnwindSafe(|| Case::begin(&t2[2..]))).unwrap_or((None, "panic".into()))
            };
            case = c;
            disabled_case = t.get(5) == Some(&"0");
            reconfigs = 0;
            if case.is_some() {
                out.count(&format!("begin:{}:rw{}", t[3], t[5]));
            }
            r
        } else if t[0] == "hcfg" && t.len() >= 2 {
            match case.as_mut() {
                None => "bad-op".into(),
                Some(c) => {
                    let r = std::panic::catch_unwind(AssertUnwindSafe(|| c.exec(&t[1..]))).unwrap_or_else(|_| "panic".into());
                    if r == "panic" {
                        c.dead = true;
                    }
                    if r != "bad-op" {
                        if t[1] == "tx" {
                            out.count(&format!("tx:{}", t[2]));
                            if disabled_case && reconfigs > 0 {
                                out.count("tx-after-reconfig-of-disabled");
                            }
                            if r.contains(" cb=-") {
                                out.count("tx:coinbase-absent");
                            }
                            if r.starts_with("err:") {
                                out.count("tx:err");
                            }
                            if r.starts_with("halt:") {
                                out.count("tx:halt");
                            }
                        } else {
                            reconfigs += 1;
                            out.count(&format!("op:{}", t[1]));
                            if t[1] == "app" || t[1] == "bapp" {
                                out.count(&format!("reg:{}", t[2]));
                            }
                        }
                    } else {
                        out.count("bad-op");
                    }
                    r
                }
            }
        } else {
            "bad-op".into()
        };
        out.push(l, reply);
    }
}
