//! C05 correspondence stream (exhaustive): the same probes as the table dumper, as request lines,
//! so that a failing table obligation comes with a concrete (spec, opcode) / (spec, address) witness.
//! requests: `activation op <spec_u8> <opcode>`  reply `undefined=<0|1> tx_undefined=<0|1> allgas=<0|1>`
//!           `activation pre <spec_u8> <addr>`   reply `direct=<0|1> handler=<0|1> empty=<0|1>`
use crate::act::*;
use crate::*;
use revm::precompile::{PrecompileSpecId, Precompiles};
use revm::primitives::{Address, SpecId};
use revm::{db::InMemoryDB, Evm};

pub fn exec_line(line: &str) -> String {
    let t: Vec<&str> = line.split(' ').collect();
    if t.len() == 6 && t[0] == "activation" && (t[1] == "reusepre" || t[1] == "reuseop") {
        // activation reusepre|reuseop <spec_a> <spec_b> <addr|opcode> <via_builder 0|1>
        let (Some(sa), Some(sb)) = (t[2].parse::<u8>().ok().and_then(SpecId::try_from_u8), t[3].parse::<u8>().ok().and_then(SpecId::try_from_u8)) else { return "bad-op".into() };
        let Ok(x) = t[4].parse::<u64>() else { return "bad-op".into() };
        let vb = t[5] == "1";
        let pre = t[1] == "reusepre";
        if !pre && x > 255 { return "bad-op".into(); }
        return guarded(move || {
            let (to, code) = if pre { (revm::precompile::u64_to_address(x), None) } else { (Address::with_last_byte(0x77), Some(code_for(x as u8))) };
            let (reused, fresh) = reused_call(sa, sb, to, code, vb);
            format!("same={}", (reused == fresh) as u8)
        });
    }
    if t.len() == 4 && t[0] == "activation" && t[1] == "extpre" {
        // activation extpre <spec> <addr>: built-in precompile behaviour on an Evm whose precompile set was extended
        let Some(spec) = t[2].parse::<u8>().ok().and_then(SpecId::try_from_u8) else { return "bad-op".into() };
        let Ok(a) = t[3].parse::<u64>() else { return "bad-op".into() };
        return guarded(move || {
            let addr = revm::precompile::u64_to_address(a);
            format!("same={}", (call_tx_extended(addr, spec) == call_tx(addr, spec)) as u8)
        });
    }
    if t.len() != 4 || t[0] != "activation" {
        return "bad-op".into();
    }
    let Some(spec) = t[2].parse::<u8>().ok().and_then(SpecId::try_from_u8) else { return "bad-op".into() };
    match t[1] {
        "op" => {
            let Ok(op) = t[3].parse::<u8>() else { return "bad-op".into() };
            guarded(move || {
                let (c, _) = op_status(op, spec);
                let (tc, all) = tx_status(op, spec);
                let gate = |c: u8| (c == 1 || c == 2 || c == 3 || c == 5) as u8;
                // allgas is reported only when the transaction was halted by a gate
                format!("undefined={} tx_undefined={} allgas={}", gate(c), gate(tc), if gate(tc) == 1 { all } else { 1 })
            })
        }
        "pre" => {
            let Ok(a) = t[3].parse::<u64>() else { return "bad-op".into() };
            guarded(move || {
                let addr = revm::precompile::u64_to_address(a);
                let direct = Precompiles::new(PrecompileSpecId::from_spec_id(spec)).contains(&addr);
                let evm = Evm::builder().with_db(InMemoryDB::default()).with_spec_id(spec).build();
                let via = evm.handler.pre_execution().load_precompiles().contains(&addr);
                let empty = call_tx(addr, spec) == call_tx(Address::with_last_byte(0xEE), spec);
                format!("direct={} handler={} empty={}", direct as u8, via as u8, empty as u8)
            })
        }
        _ => "bad-op".into(),
    }
}

pub fn gen() -> Vec<String> {
    let mut v = vec![];
    for s in all_specs() {
        for op in 0u16..=255 {
            v.push(format!("activation op {} {}", s as u8, op));
        }
        let mut addrs: Vec<u64> = (0..=0x20).collect();
        addrs.extend([0xff, 0x100, 0x101, 0xdead]);
        for a in addrs {
            v.push(format!("activation pre {} {}", s as u8, a));
        }
    }
    // one Evm reused across an in-place hardfork switch: every pair of specs that differ in their precompile set
    // or opcode set, both directions, both ways of switching
    let specs = all_specs();
    for (i, &a) in specs.iter().enumerate() {
        for (j, &b) in specs.iter().enumerate() {
            if i == j { continue; }
            let pa = Precompiles::new(PrecompileSpecId::from_spec_id(a));
            let pb = Precompiles::new(PrecompileSpecId::from_spec_id(b));
            for x in 1u64..=0x12 {
                let addr = revm::precompile::u64_to_address(x);
                if pa.contains(&addr) != pb.contains(&addr) {
                    v.push(format!("activation reusepre {} {} {} {}", a as u8, b as u8, x, (i + j) % 2));
                }
            }
        }
    }
    // the embedder extends the precompile set through a handler register: every built-in address, every fork
    for s in all_specs() {
        for a in 0u64..=0x13 {
            v.push(format!("activation extpre {} {}", s as u8, a));
        }
    }
    // opcode gates: neighbours in fork order (each activation boundary is crossed in both directions)
    for w in specs.windows(2) {
        for (a, b) in [(w[0], w[1]), (w[1], w[0])] {
            for op in 0u16..=255 {
                if gate_of(op as u8, a) != gate_of(op as u8, b) {
                    v.push(format!("activation reuseop {} {} {} {}", a as u8, b as u8, op, op % 2));
                }
            }
        }
    }
    v
}

fn gate_of(op: u8, spec: SpecId) -> bool {
    let (c, _) = op_status(op, spec);
    c == 1 || c == 2 || c == 3 || c == 5
}

pub fn run(_seed: u64, _n: usize, replay: Option<Vec<String>>, out: &mut Out) {
    let lines = replay.unwrap_or_else(gen);
    for l in lines {
        let r = exec_line(&l);
        out.count(if l.starts_with("activation op") { "opcode-probes" } else if l.starts_with("activation reuse") { "reused-evm-probes" } else { "precompile-probes" });
        out.push(l, r);
    }
}
