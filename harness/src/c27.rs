//! C27: `Bytecode` constructors / accessors, `LegacyAnalyzedBytecode`, `Eip7702Bytecode`, `to_analysed`.
//!   bytecode raw <bytes> <eofverdict>   new_raw_checked + new_raw + accessors + to_analysed + accessors
//!   bytecode legacy <bytes>             new_legacy + accessors + to_analysed + accessors
//!   bytecode new7702 <address>          Eip7702Bytecode::new / new_raw(raw) / Bytecode::new_eip7702
//!   bytecode raw7702 <bytes>            Eip7702Bytecode::new_raw
//!   bytecode analyzed <bytes> <olen>    LegacyAnalyzedBytecode::new(bytes, olen, empty table) accessors
//!   bytecode default                    Bytecode::new()
//! `<eofverdict>`: `Eof::decode`'s answer on the bytes (`ok` / error name; `na` without ef00 prefix).
//! The executor recomputes it and answers `oracle-mismatch` when the token of the line is stale.
//! `hashok` compares `hash_slow()` with alloy's keccak256 of the bytes the value was built from.
use crate::*;
use revm::interpreter::analysis::to_analysed;
use revm::primitives::{
    eof::{EofBody, TypesSection},
    keccak256, legacy::JumpTable, Address, Bytecode, Bytes, Eip7702Bytecode, Eof,
    LegacyAnalyzedBytecode, KECCAK_EMPTY,
};
use std::panic::{catch_unwind, AssertUnwindSafe};

fn g<F: FnOnce() -> String>(f: F) -> String {
    match catch_unwind(AssertUnwindSafe(f)) {
        Ok(s) => s,
        Err(_) => "panic".into(),
    }
}

/// canonical description of a bytecode value; `built_from` = the bytes it is supposed to hold
fn desc(b: &Bytecode, built_from: Option<&[u8]>) -> String {
    let kind = match b {
        Bytecode::LegacyRaw(_) => "LegacyRaw",
        Bytecode::LegacyAnalyzed(_) => "LegacyAnalyzed",
        Bytecode::Eof(_) => "Eof",
        Bytecode::Eip7702(_) => "Eip7702",
    };
    let orig = g(|| hxb(&b.original_bytes()));
    let slice = g(|| b01(b.original_byte_slice() == &b.original_bytes()[..]).to_string());
    let len = g(|| b.len().to_string());
    let empty = g(|| b01(b.is_empty()).to_string());
    let hashok = g(|| {
        let h = b.hash_slow();
        match built_from {
            Some(x) => b01(h == if x.is_empty() { KECCAK_EMPTY } else { keccak256(x) }).to_string(),
            // no reference bytes (hand-built analysed value whose accessors work): compare with
            // the hash of what it reports
            None => b01(h == if b.original_byte_slice().is_empty() { KECCAK_EMPTY } else { keccak256(b.original_byte_slice()) }).to_string(),
        }
    });
    let bytes = g(|| hxb(&b.bytes()));
    let bslice = g(|| b01(b.bytes_slice() == &b.bytes()[..]).to_string());
    let jt = match b.legacy_jump_table() {
        Some(t) => hxb(t.as_slice()),
        None => "none".into(),
    };
    let mut s = format!(
        "kind={kind} orig={orig} slice={slice} len={len} empty={empty} hashok={hashok} bytes={bytes} bslice={bslice} ready={} eof={} e7702={} jt={jt}",
        b01(b.is_execution_ready()),
        b01(b.is_eof()),
        b01(b.is_eip7702())
    );
    if let Bytecode::Eip7702(e) = b {
        s.push_str(&format!(" addr={} ver={}", hxb(e.address().as_slice()), e.version));
    }
    s
}

fn eof_verdict(bs: &[u8]) -> String {
    if bs.len() >= 2 && bs[0] == 0xef && bs[1] == 0x00 {
        match Eof::decode(Bytes::copy_from_slice(bs)) {
            Ok(_) => "ok".into(),
            Err(e) => format!("{:?}", e),
        }
    } else {
        "na".into()
    }
}

fn parse_hex(s: &str) -> Option<Vec<u8>> {
    if s == "-" { return Some(vec![]); }
    if s.len() % 2 != 0 || s.is_empty() { return None; }
    (0..s.len() / 2).map(|i| u8::from_str_radix(s.get(2 * i..2 * i + 2)?, 16).ok()).collect()
}

pub fn exec_line(line: &str) -> String {
    let t: Vec<&str> = line.split(' ').collect();
    if t.len() < 2 || t[0] != "bytecode" { return "bad-op".into(); }
    match (t[1], t.len()) {
        ("raw", 4) => {
            let Some(bs) = parse_hex(t[2]) else { return "bad-op".into() };
            let is_eof_prefix = bs.len() >= 2 && bs[0] == 0xef && bs[1] == 0x00;
            if (t[3] == "na") == is_eof_prefix { return "bad-op".into(); }
            let v = g(|| eof_verdict(&bs));
            if v != t[3] { return format!("oracle-mismatch {v}"); }
            let checked = catch_unwind(AssertUnwindSafe(|| Bytecode::new_raw_checked(Bytes::from(bs.clone()))));
            let raw = catch_unwind(AssertUnwindSafe(|| Bytecode::new_raw(Bytes::from(bs.clone()))));
            let c = match &checked {
                Ok(Ok(_)) => "ok".to_string(),
                Ok(Err(e)) => format!("err:{:?}", e),
                Err(_) => "panic".to_string(),
            };
            let r = match &raw { Ok(_) => "ok", Err(_) => "panic" };
            let mut s = format!("checked={c} raw={r}");
            if let (Ok(Ok(b)), Ok(b2)) = (&checked, &raw) {
                s.push_str(&format!(" same={} {}", b01(b == b2), desc(b2, Some(&bs))));
                let an = g(|| desc(&to_analysed(b.clone()), Some(&bs)));
                s.push_str(&format!(" an: {an}"));
            }
            s
        }
        ("legacy", 3) => {
            let Some(bs) = parse_hex(t[2]) else { return "bad-op".into() };
            g(|| {
                let b = Bytecode::new_legacy(Bytes::from(bs.clone()));
                format!("{} an: {}", desc(&b, Some(&bs)), desc(&to_analysed(b.clone()), Some(&bs)))
            })
        }
        ("new7702", 3) => {
            let Some(a) = parse_hex(t[2]) else { return "bad-op".into() };
            if a.len() != 20 { return "bad-op".into(); }
            g(|| {
                let addr = Address::from_slice(&a);
                let e = Eip7702Bytecode::new(addr);
                let re = match Eip7702Bytecode::new_raw(e.raw().clone()) {
                    Ok(e2) => if e2 == e { "ok-same".to_string() } else { "ok-diff".to_string() },
                    Err(x) => format!("err:{:?}", x),
                };
                let ck = match Bytecode::new_raw_checked(e.raw().clone()) {
                    Ok(Bytecode::Eip7702(e2)) => if e2 == e { "ok-same".to_string() } else { "ok-diff".to_string() },
                    Ok(_) => "ok-other".to_string(),
                    Err(x) => format!("err:{:?}", x),
                };
                let mut expect = vec![0xef, 0x01, 0x00];
                expect.extend_from_slice(&a);
                format!(
                    "raw={} addr={} ver={} reraw={re} checked={ck} {}",
                    hxb(e.raw()),
                    hxb(e.address().as_slice()),
                    e.version,
                    desc(&Bytecode::new_eip7702(addr), Some(&expect))
                )
            })
        }
        ("raw7702", 3) => {
            let Some(bs) = parse_hex(t[2]) else { return "bad-op".into() };
            g(|| match Eip7702Bytecode::new_raw(Bytes::from(bs.clone())) {
                Ok(e) => format!(
                    "ok addr={} ver={} raw={} reenc={}",
                    hxb(e.address().as_slice()),
                    e.version,
                    hxb(e.raw()),
                    b01(Eip7702Bytecode::new(e.address()).raw()[..] == bs[..])
                ),
                Err(x) => format!("err:{:?}", x),
            })
        }
        ("analyzed", 4) => {
            let Some(bs) = parse_hex(t[2]) else { return "bad-op".into() };
            if t[3].is_empty() || !t[3].bytes().all(|c| c.is_ascii_digit()) { return "bad-op".into(); }
            let Ok(n) = t[3].parse::<usize>() else { return "bad-op".into() };
            g(|| {
                let a = LegacyAnalyzedBytecode::new(Bytes::from(bs.clone()), n, JumpTable::from_slice(&[]));
                let b = Bytecode::LegacyAnalyzed(a);
                let exp: Option<&[u8]> = if n <= bs.len() { Some(&bs[..n]) } else { None };
                desc(&b, exp)
            })
        }
        ("default", 2) => g(|| desc(&Bytecode::new(), Some(&[]))),
        _ => "bad-op".into(),
    }
}

const VALID_EOF: &[&str] = &[
    "ef000101000402000100010400000000800000fe",
    "ef0001010004020001000704000000008000016000e200fffc00",
    "ef000101000c02000300040004000204000000008000020002000100010001e30001005fe500025fe4",
    "ef0001010004020001000e04000000008000045f6000e100025f5f6000e1fffd00",
    "ef00010100040200010003040001000080000130500000",
    "ef00010100040200010006030001001404000200008000016000e0000000ef000101000402000100010400000000800000fe",
];

fn code_bytes(rng: &mut Rng, n: usize) -> Vec<u8> {
    // opcode-shaped: JUMPDESTs, PUSHn with immediates (also truncated at the end), plain bytes
    let mut v = Vec::with_capacity(n);
    while v.len() < n {
        match rng.below(6) {
            0 => v.push(0x5b),
            1 => {
                let k = rng.range(1, 32) as u8;
                v.push(0x5f + k);
                for _ in 0..k { v.push(if rng.chance(1, 3) { 0x5b } else { rng.next() as u8 }); }
            }
            _ => v.push(rng.next() as u8),
        }
    }
    v.truncate(n);
    v
}

fn some_len(rng: &mut Rng) -> usize {
    match rng.below(10) {
        0 => 0, 1 => 1, 2 => 2, 3 => 3, 4 => 22, 5 => 23, 6 => 24,
        7 => rng.range(25, 200) as usize,
        8 => rng.range(0, 40) as usize,
        _ => if rng.chance(1, 10) { rng.range(200, 3000) as usize } else { rng.range(4, 64) as usize },
    }
}

fn random_eof(rng: &mut Rng) -> Vec<u8> {
    let ncode = rng.range(1, 3) as usize;
    let body = EofBody {
        types_section: (0..ncode).map(|i| TypesSection::new(if i == 0 { 0 } else { rng.below(4) as u8 }, if i == 0 { 0x80 } else { rng.below(4) as u8 }, rng.below(8) as u16)).collect(),
        code_section: (0..ncode).map(|_| { let n = rng.range(1, 12) as usize; Bytes::from(rng.bytes(n)) }).collect(),
        container_section: if rng.chance(1, 4) { vec![Bytes::from(parse_hex(VALID_EOF[0]).unwrap())] } else { vec![] },
        data_section: { let n = rng.below(10) as usize; Bytes::from(rng.bytes(n)) },
        is_data_filled: true,
    };
    body.into_eof().raw().to_vec()
}

fn raw_line(bs: &[u8]) -> String {
    format!("bytecode raw {} {}", hxb(bs), g(|| eof_verdict(bs)))
}

pub fn gen(seed: u64, n: usize) -> Vec<String> {
    let mut rng = Rng::new(seed ^ 0xC27);
    let mut lines: Vec<String> = vec!["bytecode default".into()];
    // stream 1 (boundary): every prefix class x short lengths, exhaustively for the first two bytes of interest
    for p0 in [0x00u8, 0x5b, 0x60, 0x7f, 0xee, 0xef, 0xf0, 0xff] {
        for p1 in [0x00u8, 0x01, 0x02, 0x5b, 0xef, 0xff] {
            for len in [0usize, 1, 2, 3, 4, 22, 23, 24, 40] {
                for fill in [0x00u8, 0x01, 0x5b] {
                    let mut bs = vec![fill; len];
                    if len > 0 { bs[0] = p0; }
                    if len > 1 { bs[1] = p1; }
                    lines.push(raw_line(&bs));
                    lines.push(format!("bytecode legacy {}", hxb(&bs)));
                    lines.push(format!("bytecode raw7702 {}", hxb(&bs)));
                }
            }
        }
    }
    for a in [[0u8; 20], [0xff; 20], [0x5b; 20], [0xef; 20]] {
        lines.push(format!("bytecode new7702 {}", hxb(&a)));
    }
    for h in VALID_EOF {
        let bs = parse_hex(h).unwrap();
        lines.push(raw_line(&bs));
        lines.push(format!("bytecode legacy {}", hxb(&bs)));
        // every truncation and a dangling byte
        for k in 0..bs.len() { lines.push(raw_line(&bs[..k])); }
        let mut d = bs.clone(); d.push(0); lines.push(raw_line(&d));
    }
    for len in 0..6usize {
        for ol in 0..8usize {
            lines.push(format!("bytecode analyzed {} {ol}", hxb(&vec![0x5b; len])));
        }
    }
    // stream 2 (structured)
    for _ in 0..n {
        match rng.below(12) {
            0..=2 => {
                let l = some_len(&mut rng);
                let bs = code_bytes(&mut rng, l);
                if rng.chance(1, 2) { lines.push(raw_line(&bs)); } else { lines.push(format!("bytecode legacy {}", hxb(&bs))); }
            }
            3 => {
                // ef00-prefixed: valid container, mutated container, or noise
                let mut bs = match rng.below(4) {
                    0 => { let h: &str = VALID_EOF[rng.below(VALID_EOF.len() as u64) as usize]; parse_hex(h).unwrap() }
                    1 | 2 => random_eof(&mut rng),
                    _ => { let l = some_len(&mut rng); let mut v = rng.bytes(l.max(2)); v[0] = 0xef; v[1] = 0x00; v }
                };
                match rng.below(4) {
                    0 => { let i = rng.below(bs.len() as u64) as usize; bs[i] = rng.next() as u8; bs[0] = 0xef; bs[1] = 0x00; }
                    1 => { let k = rng.range(2, bs.len() as u64) as usize; bs.truncate(k); }
                    _ => {}
                }
                if rng.chance(1, 5) { lines.push(format!("bytecode legacy {}", hxb(&bs))); } else { lines.push(raw_line(&bs)); }
            }
            4..=5 => {
                // ef01-prefixed: right/wrong length, right/wrong version
                let l = match rng.below(5) { 0 => 22, 1 => 24, 2 => some_len(&mut rng).max(2), _ => 23 };
                let mut bs = rng.bytes(l);
                bs[0] = 0xef; bs[1] = 0x01;
                if l > 2 && rng.chance(3, 4) { bs[2] = 0; }
                match rng.below(3) {
                    0 => lines.push(format!("bytecode raw7702 {}", hxb(&bs))),
                    1 => lines.push(format!("bytecode legacy {}", hxb(&bs))),
                    _ => lines.push(raw_line(&bs)),
                }
            }
            6..=7 => {
                let a = match rng.below(4) {
                    0 => { let mut a = [0u8; 20]; a[19] = rng.below(20) as u8; a.to_vec() } // precompile-like
                    1 => { let mut a = rng.bytes(20); a[0] = 0xef; a[1] = 0x01; a }
                    _ => rng.bytes(20),
                };
                lines.push(format!("bytecode new7702 {}", hxb(&a)));
            }
            8 => {
                // 23 bytes with wrong magic / other lengths straight into Eip7702Bytecode::new_raw
                let l = if rng.chance(2, 3) { 23 } else { some_len(&mut rng) };
                let mut bs = rng.bytes(l);
                if l >= 2 && rng.chance(1, 2) { bs[0] = 0xef; bs[1] = rng.below(3) as u8; }
                if l > 2 && rng.chance(1, 2) { bs[2] = 0; }
                lines.push(format!("bytecode raw7702 {}", hxb(&bs)));
            }
            9 => {
                let l = some_len(&mut rng).min(80);
                let bs = code_bytes(&mut rng, l);
                let ol = match rng.below(4) { 0 => l, 1 => l + 1 + rng.below(40) as usize, _ => rng.below(l as u64 + 1) as usize };
                lines.push(format!("bytecode analyzed {} {ol}", hxb(&bs)));
            }
            10 => {
                // short strings of every prefix class
                let l = rng.below(4) as usize;
                let mut bs = rng.bytes(l);
                if l > 0 && rng.chance(1, 2) { bs[0] = 0xef; }
                if l > 1 && rng.chance(1, 2) { bs[1] = rng.below(2) as u8; }
                lines.push(raw_line(&bs));
            }
            _ => {
                let l = some_len(&mut rng);
                let bs = rng.bytes(l);
                lines.push(raw_line(&bs));
            }
        }
    }
    // stream 3 (malformed protocol lines, stale oracle)
    for _ in 0..(n / 100).max(3) {
        match rng.below(4) {
            0 => lines.push("bytecode raw 6000".to_string()),
            1 => lines.push("bytecode new7702 00".to_string()),
            2 => lines.push("bytecode raw 600 na".to_string()),
            _ => lines.push("bytecode raw 6000 ok".to_string()),
        }
    }
    lines
}

pub fn run(seed: u64, n: usize, replay: Option<Vec<String>>, out: &mut Out) {
    let lines = replay.unwrap_or_else(|| gen(seed, n));
    for l in lines {
        let r = exec_line(&l);
        let t: Vec<&str> = l.split(' ').collect();
        let op = t.get(1).copied().unwrap_or("?").to_string();
        out.count(&format!("op:{op}"));
        if op == "raw" || op == "legacy" {
            if let Some(h) = t.get(2) {
                let class = if h.starts_with("ef00") { "ef00" } else if h.starts_with("ef01") { "ef01" } else if *h == "-" { "empty" } else { "legacy" };
                out.count(&format!("prefix:{class}"));
                if op == "raw" {
                    let k = if r.starts_with("checked=ok") {
                        if r.contains(" kind=Eof ") { "raw->Eof" } else if r.contains(" kind=Eip7702 ") { "raw->Eip7702" } else { "raw->LegacyRaw" }
                    } else if r.starts_with("checked=err:Eof") { "raw->err:Eof(panic)" } else if r.starts_with("checked=err:Eip7702") { "raw->err:Eip7702(panic)" } else { "raw->other" };
                    out.count(k);
                }
            }
        }
        if op == "raw7702" { out.count(&format!("raw7702:{}", r.split(' ').next().unwrap_or("?"))); }
        if r.contains("orig=panic") { out.count("accessor-panic"); }
        if r == "bad-op" { out.count("reply:bad-op"); }
        out.push(l, r);
    }
}
