//! C34 (operation level): the real `JournaledState` driven through its public API (the executor of c06.rs);
//! the reply of every line is only what C34 talks about: the `is_cold` bits the operation reported.
//! `begin acc <spec> <preloaded> <db> <storage> <delegations>` then `a <op> …` (ops as in the `j` component);
//! reply `c=<bits>` (`c=-` if the operation reports none), `panic`, `bad-op`, `dead`.
//! Histories follow the frame discipline: transaction-level pre-warming (`initload`) and the tx-level loads
//! first, then nested checkpoints that are committed or reverted innermost-first (sometimes an outer open
//! checkpoint is reverted directly), re-probing of addresses / slots after every revert.
use crate::c06::{addr, code_table, Exec};
use crate::*;
use revm::primitives::U256;

fn h2w(h: revm::primitives::B256) -> U256 {
    U256::from_be_bytes(h.0)
}

/// extract the is_cold bits from a c06 reply (`<result> || <dump>`)
fn bits_of(reply: &str) -> String {
    if reply == "panic" || reply == "bad-op" || reply == "dead" {
        return reply.to_string();
    }
    let res = reply.split(" || ").next().unwrap_or("");
    let mut bits = String::new();
    for t in res.split(' ') {
        if let Some(v) = t.strip_prefix("cold=") {
            bits.push_str(v);
        } else if let Some(v) = t.strip_prefix("dcold=") {
            if v != "-" {
                bits.push_str(v);
            }
        }
    }
    if bits.is_empty() { "c=-".to_string() } else { format!("c={}", bits) }
}

pub struct Exec34 {
    pub ex: Exec,
}
impl Exec34 {
    pub fn new() -> Self {
        Exec34 { ex: Exec::new() }
    }
    pub fn line(&mut self, line: &str) -> String {
        let t: Vec<&str> = line.split(' ').collect();
        if t.len() >= 2 && t[0] == "begin" && t[1] == "acc" {
            let l = format!("begin journal {}", t[2..].join(" "));
            let r = self.ex.line(&l);
            return if r.starts_with("ok") { "ok".into() } else { r };
        }
        if t[0] != "a" {
            return "bad-op".into();
        }
        let l = format!("j {}", t[1..].join(" "));
        bits_of(&self.ex.line(&l))
    }
}

fn push(ex: &mut Exec34, l: String, out: &mut Out, lines: &mut Vec<String>) -> String {
    let r = ex.line(&l);
    out.count(&format!("op:{}", l.split(' ').nth(1).unwrap_or("?")));
    if r.starts_with("c=") && r != "c=-" {
        for ch in r[2..].chars() {
            out.count(if ch == '1' { "bit:cold" } else { "bit:warm" });
        }
    }
    lines.push(l);
    r
}

fn join(v: &Vec<String>, sep: &str) -> String {
    if v.is_empty() { "-".to_string() } else { v.join(sep) }
}

/// one generated case; mode 0: disciplined (admissible, well nested), 1: disciplined with heavy reverting,
/// 2: free (unbalanced commits, stale reverts, late initload: the Spec column stops, the model must still agree)
fn gen_case(rng: &mut Rng, mode: u8, lines: &mut Vec<String>, out: &mut Out) {
    let specs = [0u8, 5, 11, 12, 16, 17, 18, 19];
    let spec = *rng.pick(&specs);
    let codes = code_table();
    let mut accs = vec![];
    for i in 1..=8u64 {
        if rng.chance(3, 5) {
            // delegated EOAs (code 3 -> addr 4, code 4 -> addr 7) appear often
            let c = match rng.below(6) { 0 => 3, 1 => 4, 2 => 1, _ => 0 };
            accs.push(format!("{:x}:{}:{:x}:{}", i, hx(U256::from(rng.below(5000))), rng.below(3), hx(h2w(codes[c].hash_slow()))));
        }
    }
    let mut sto = vec![];
    let mut has_sto = [false; 9];
    for i in 1..=8u64 {
        for k in 0..4u64 {
            if rng.chance(1, 6) {
                sto.push(format!("{:x}.{:x}={}", i, k, hx(U256::from(rng.range(1, 9)))));
                has_sto[i as usize] = true;
            }
        }
    }
    let mut pre = vec![];
    for i in 1..=8u64 {
        if rng.chance(1, 4) {
            pre.push(format!("{:x}", i));
        }
    }
    let del = format!("{}:4;{}:7", hx(h2w(codes[3].hash_slow())), hx(h2w(codes[4].hash_slow())));
    let mut ex = Exec34::new();
    let first = format!("begin acc {} {} {} {} {}", spec, join(&pre, ","), join(&accs, ";"), join(&sto, ";"), del);
    ex.line(&first);
    lines.push(first);
    // transaction level: access list, sender, authorities, recipient
    let n_al = rng.below(4);
    for _ in 0..n_al {
        let ks: Vec<String> = (0..4u64).filter(|_| rng.chance(1, 2)).map(|k| format!("{:x}", k)).collect();
        push(&mut ex, format!("a initload {:x} {}", rng.range(1, 8), join(&ks, ",")), out, lines);
    }
    push(&mut ex, format!("a load {:x}", rng.range(1, 8)), out, lines);
    if spec >= 18 {
        for _ in 0..rng.below(3) {
            push(&mut ex, format!("a loadcode {:x}", rng.range(1, 8)), out, lines);
        }
    }
    push(&mut ex, format!("a loaddel {:x}", rng.range(1, 8)), out, lines);
    // frames
    let mut open: Vec<usize> = vec![];
    let len = rng.range(8, 50);
    let mut max_depth = 0usize;
    let mut reverts = 0u64;
    for _ in 0..len {
        if ex.ex.dead {
            break;
        }
        let loaded: Vec<u64> = (1..=8u64).filter(|i| ex.ex.js.state.contains_key(&addr(*i))).collect();
        let any = |rng: &mut Rng| rng.range(1, 8);
        let present = |rng: &mut Rng| -> u64 {
            if loaded.is_empty() || (mode == 2 && rng.chance(1, 8)) { rng.range(1, 8) } else { *rng.pick(&loaded) }
        };
        let w = rng.below(100);
        let revert_w = if mode == 1 { 22 } else { 10 };
        let l = match w {
            0..=11 => format!("a load {:x}", any(rng)),
            12..=15 => format!("a loadcode {:x}", any(rng)),
            16..=21 => format!("a loaddel {:x}", any(rng)),
            22..=33 => format!("a sload {:x} {:x}", present(rng), rng.below(4)),
            34..=41 => format!("a sstore {:x} {:x} {}", present(rng), rng.below(4), hx(U256::from(rng.below(4)))),
            42..=47 => {
                let f = present(rng);
                let v = if rng.chance(1, 2) { U256::ZERO } else { U256::from(rng.below(30)) };
                format!("a transfer {:x} {:x} {}", f, any(rng), hx(v))
            }
            48..=51 => {
                let a = present(rng);
                format!("a selfdestruct {:x} {:x}", a, if rng.chance(1, 5) { a } else { any(rng) })
            }
            52..=53 => format!("a touch {:x}", any(rng)),
            54..=55 => format!("a incnonce {:x}", present(rng)),
            56..=57 => format!("a tstore {:x} {:x} {}", any(rng), rng.below(4), hx(U256::from(rng.below(3)))),
            58 => format!("a log {:x}", rng.below(8)),
            59..=64 => {
                // creation (often repeatedly at address 6, inside reverting frames)
                let c = present(rng);
                let a = if rng.chance(1, 2) { 6 } else { present(rng) };
                if !ex.ex.js.state.contains_key(&addr(a)) {
                    push(&mut ex, format!("a load {:x}", a), out, lines);
                }
                let faithful = has_sto[a as usize];
                let hs = if mode == 2 && rng.chance(1, 4) { !faithful } else { faithful };
                let cbal = ex.ex.js.state.get(&addr(c)).map(|x| x.info.balance).unwrap_or_default();
                let v = if cbal.is_zero() || rng.chance(1, 2) { U256::ZERO } else { U256::from(rng.below(20)).min(cbal) };
                format!("a create {:x} {:x} {} {} {}", c, a, b01(hs), hx(v), spec)
            }
            65..=79 => "a checkpoint".to_string(),
            80..=89 => {
                if open.is_empty() && mode != 2 { "a checkpoint".to_string() } else { "a commit".to_string() }
            }
            x if x < 90 + revert_w => {
                if open.is_empty() {
                    "a checkpoint".to_string()
                } else if rng.chance(5, 6) {
                    format!("a revert {}", open[open.len() - 1])
                } else {
                    format!("a revert {}", *rng.pick(&open))
                }
            }
            _ => {
                if mode == 2 {
                    match rng.below(3) {
                        0 => format!("a initload {:x} {:x}", any(rng), rng.below(4)),
                        1 => format!("a revert {}", rng.below(ex.ex.cps.len() as u64 + 1)),
                        _ => format!("a setcode {:x} {}", present(rng), hx(h2w(codes[rng.below(codes.len() as u64) as usize].hash_slow()))),
                    }
                } else {
                    format!("a sload {:x} {:x}", present(rng), rng.below(4))
                }
            }
        };
        let before_cps = ex.ex.cps.len();
        let is_revert = l.starts_with("a revert ");
        let l2 = l.clone();
        let r = push(&mut ex, l, out, lines);
        if r == "panic" {
            out.count("panics");
        }
        if ex.ex.cps.len() > before_cps {
            open.push(ex.ex.cps.len() - 1);
            max_depth = max_depth.max(open.len());
        } else if l2 == "a commit" {
            open.pop();
        } else if is_revert && r != "panic" && r != "bad-op" {
            let i: usize = l2["a revert ".len()..].parse().unwrap();
            if open.contains(&i) {
                while let Some(top) = open.pop() {
                    if top == i {
                        break;
                    }
                }
            }
            reverts += 1;
            // re-probe after the revert: accounts and slots are cold again unless pre-warmed
            for _ in 0..rng.range(1, 4) {
                if ex.ex.dead {
                    break;
                }
                let loaded: Vec<u64> = (1..=8u64).filter(|i| ex.ex.js.state.contains_key(&addr(*i))).collect();
                let l = if rng.chance(1, 2) || loaded.is_empty() {
                    format!("a load {:x}", rng.range(1, 8))
                } else {
                    format!("a sload {:x} {:x}", *rng.pick(&loaded), rng.below(4))
                };
                push(&mut ex, l, out, lines);
            }
        }
    }
    out.count(&format!("mode:{}", mode));
    out.count(&format!("depth:{}", max_depth.min(6)));
    out.count(&format!("reverts:{}", reverts.min(6)));
    out.count(&format!("spec:{}", spec));
}

pub fn gen(seed: u64, n: usize, out: &mut Out) -> Vec<String> {
    let mut rng = Rng::new(seed ^ 0xC34);
    let mut lines = vec![];
    let mut scratch = Out::new();
    for _ in 0..n {
        let mode = match rng.below(10) {
            0..=5 => 0,
            6..=8 => 1,
            _ => 2,
        };
        gen_case(&mut rng, mode, &mut lines, &mut scratch);
    }
    for (k, v) in scratch.dist {
        *out.dist.entry(k).or_insert(0) += v;
    }
    lines
}

pub fn run(seed: u64, n: usize, replay: Option<Vec<String>>, out: &mut Out) {
    let lines = replay.unwrap_or_else(|| gen(seed, n, out));
    let mut ex = Exec34::new();
    for l in lines {
        let r = ex.line(&l);
        out.push(l, r);
    }
}
