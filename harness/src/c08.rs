//! C08 — ether is conserved. Two streams:
//!
//! * `C08ops`: the real `JournaledState` driven through its public API (the executor of c06.rs);
//!   `begin ether <spec> <preloaded> <db> <storage> <delegations>` then `e <op> …`. Every reply is
//!   `<result> ledger=<Σ+burnt> || sum=<Σ> burnt=<burnt>`: Σ = sum over the universe 1..8 of the observable
//!   balance (journal entry if loaded, database otherwise), burnt = Σ had_balance of the
//!   `AccountDestroyed { address == target }` entries still in the real journal.
//! * `C08tx`: whole transactions through `Evm::transact` + `DatabaseCommit::commit` (= `transact_commit`) on
//!   a `CacheDB`. Request `etx k=v …` (see `Tx`); the executor recomputes every derived / observed key
//!   (`tbg call same cpre obs`) and emits the canonical line, so a replay never carries stale observations.
//!   Reply `ded=<caller after deduct_caller> cpost=<caller final> bpost=<beneficiary final> diff=<Σpre−Σpost>`
//!   with Σ over the WHOLE database before / after the commit.
//!   obs = class,gas_used,gas_refunded,cend,bend,sdburn,lateburn,wraps (or `rejected`): cend / bend are the
//!   caller's / beneficiary's balances when the first frame has returned (Inspector, outermost `*_end`),
//!   sdburn the `had_balance` of the `AccountDestroyed { address == target }` entries in the real journal at that moment,
//!   lateburn the balance that accounts marked self-destructed still hold when the state is committed
//!   (ether sent to an account after it self-destructed in the same transaction is deleted with it),
//!   wraps the number of non-reverted SELFDESTRUCTs whose beneficiary credit `+=` wrapped around 2^256 (only
//!   possible in pre-states whose total exceeds 2^256; each destroys exactly 2^256 wei, `selfdestruct_overflow_destroys`).
use crate::c06;
use crate::*;
use revm::db::{CacheDB, EmptyDB};
use revm::interpreter::{CallInputs, CallOutcome, CreateInputs, CreateOutcome, EOFCreateInputs, InstructionResult, Interpreter};
use revm::primitives::{
    AccessListItem, AccountInfo, Address, Authorization, BlobExcessGasAndPrice, Bytecode, Bytes, Env, ExecutionResult,
    HashMap, RecoveredAuthority, RecoveredAuthorization, SpecId, TxKind, B256, GAS_PER_BLOB, KECCAK_EMPTY, U256,
};
use revm::{inspector_handle_register, Database, DatabaseCommit, Evm, EvmContext, Handler, Inspector, JournalEntry};

// ------------------------------------------------------------------ big sums
#[derive(Clone, Copy, PartialEq, Eq, Default, Debug)]
pub struct Big {
    hi: u64,
    lo: U256,
}
impl Big {
    fn add(&mut self, x: U256) {
        let (r, c) = self.lo.overflowing_add(x);
        self.lo = r;
        if c {
            self.hi += 1;
        }
    }
    fn ge(&self, o: &Big) -> bool {
        (self.hi, self.lo) >= (o.hi, o.lo)
    }
    /// self - o (requires self >= o)
    fn sub(&self, o: &Big) -> Big {
        let (r, b) = self.lo.overflowing_sub(o.lo);
        Big { hi: self.hi - o.hi - if b { 1 } else { 0 }, lo: r }
    }
    fn hex(&self) -> String {
        if self.hi == 0 { format!("{:x}", self.lo) } else { format!("{:x}{:064x}", self.hi, self.lo) }
    }
    /// signed difference self - o
    fn diff(&self, o: &Big) -> String {
        if self.ge(o) { self.sub(o).hex() } else { format!("-{}", o.sub(self).hex()) }
    }
}

// ------------------------------------------------------------------ stream A: operations
pub struct OpsExec {
    ex: c06::Exec,
}
impl OpsExec {
    pub fn new() -> Self {
        OpsExec { ex: c06::Exec::new() }
    }
    fn tail(&self) -> String {
        let js = &self.ex.js;
        let mut sum = Big::default();
        for i in 1..=8u64 {
            let a = c06::addr(i);
            let b = match js.state.get(&a) {
                Some(acc) => acc.info.balance,
                None => self.ex.db.accounts.get(&a).map(|i| i.balance).unwrap_or_default(),
            };
            sum.add(b);
        }
        let mut burnt = Big::default();
        for level in js.journal.iter() {
            for e in level.iter() {
                if let JournalEntry::AccountDestroyed { address, target, had_balance, .. } = e {
                    if address == target {
                        burnt.add(*had_balance);
                    }
                }
            }
        }
        let mut ledger = sum;
        ledger.add(burnt.lo);
        ledger.hi += burnt.hi;
        format!("ledger={} || sum={} burnt={}", ledger.hex(), sum.hex(), burnt.hex())
    }
    pub fn line(&mut self, line: &str) -> String {
        let r = if let Some(rest) = line.strip_prefix("begin ether ") {
            let l = format!("begin journal {}", rest);
            match std::panic::catch_unwind(std::panic::AssertUnwindSafe(|| self.ex.line(&l))) {
                Ok(r) => r,
                Err(_) => {
                    self.ex.dead = true;
                    return "bad-op".into();
                }
            }
        } else if let Some(rest) = line.strip_prefix("e ") {
            self.ex.line(&format!("j {}", rest))
        } else {
            return "bad-op".into();
        };
        if r == "bad-op" || r == "dead" || r == "panic" {
            return r;
        }
        let res = r.split(" || ").next().unwrap_or("");
        format!("{} {}", res, self.tail())
    }
}

pub fn gen_ops(seed: u64, n: usize, out: &mut Out) -> Vec<String> {
    // the generator of c06 (structured-valid / boundary / malformed op sequences over the 8-address universe
    // with balances from {0,1,2,1000,2^40,2^255,2^256-2,2^256-1,2^256-1001,small}), re-addressed to this component
    let lines = c06::gen(seed ^ 0xC08, n, out);
    lines
        .into_iter()
        .map(|l| {
            if let Some(r) = l.strip_prefix("begin journal ") {
                format!("begin ether {}", r)
            } else if let Some(r) = l.strip_prefix("j ") {
                format!("e {}", r)
            } else {
                l
            }
        })
        .collect()
}

/// fixed scenarios: every conservation-relevant path at the boundary balances
fn fixed_ops() -> Vec<String> {
    let mut v = vec![];
    let max = hx(U256::MAX);
    let maxm1 = hx(U256::MAX - U256::from(1));
    let half = hx(U256::from(1) << 255);
    let ke = "c5d2460186f7233c927e7db2dcc703c0e500b653ca82273b7bfad8045d85a470";
    let del = "-";
    let bals = ["0", "1", "5", &half, &maxm1, &max];
    for spec in [0u8, 5, 16, 17, 18] {
        for b1 in bals.iter() {
            for b2 in bals.iter() {
                v.push(format!("begin ether {} - 1:{}:0:{};2:{}:0:{} - {}", spec, b1, ke, b2, ke, del));
                v.push("e load 1".into());
                v.push("e load 2".into());
                v.push("e checkpoint".into());
                v.push("e transfer 1 2 1".into());
                v.push(format!("e transfer 2 1 {}", b2));
                v.push(format!("e transfer 1 1 {}", b1));
                v.push("e selfdestruct 1 2".into());
                v.push("e selfdestruct 2 2".into());
                v.push("e transfer 1 2 0".into());
                v.push("e revert 0".into());
                v.push("e checkpoint".into());
                v.push(format!("e create 1 3 0 {} {}", b1, spec));
                v.push("e selfdestruct 3 3".into());
                v.push("e selfdestruct 3 1".into());
                v.push("e revert 2".into());
                v.push("e revert 1".into());
                v.push("e load 3".into());
                v.push("e create 2 3 0 1 5".into());
                v.push("e selfdestruct 2 3".into());
                v.push("e selfdestruct 3 3".into());
            }
        }
    }
    v
}

pub fn run_ops(seed: u64, n: usize, replay: Option<Vec<String>>, out: &mut Out) {
    let lines = replay.unwrap_or_else(|| {
        let mut l = fixed_ops();
        l.extend(gen_ops(seed, n, out));
        l
    });
    let mut ex = OpsExec::new();
    for l in lines {
        let r = ex.line(&l);
        if r.starts_with("err ") {
            out.count(&format!("fail:{}", r.split(' ').nth(1).unwrap_or("?")));
        }
        out.push(l, r);
    }
}

// ------------------------------------------------------------------ stream B: transactions
#[derive(Clone, Debug)]
pub struct Acc {
    addr: Address,
    bal: U256,
    nonce: u64,
    code: Vec<u8>,
}
#[derive(Clone, Debug)]
pub struct Tx {
    spec: u8,
    rw: bool,
    gl: u64,
    gp: U256,
    pf: Option<U256>,
    bf: U256,
    bgp: Option<u128>,
    caller: Address,
    cb: Address,
    to: Option<Address>,
    val: U256,
    data: Vec<u8>,
    mfb: Option<U256>,
    nblobs: usize,
    al: Vec<(Address, Vec<U256>)>,
    auth: Vec<(Address, Address, u64)>,
    accs: Vec<Acc>,
}

fn ahex(a: &Address) -> String {
    let w = U256::from_be_slice(a.as_slice());
    format!("{:x}", w)
}
fn parse_addr(s: &str) -> Option<Address> {
    let w = U256::from_str_radix(s, 16).ok()?;
    if w >> 160 != U256::ZERO {
        return None;
    }
    Some(Address::from_word(B256::from(w.to_be_bytes::<32>())))
}
fn opt<T>(s: &str, f: impl Fn(&str) -> Option<T>) -> Option<Option<T>> {
    if s == "-" { Some(None) } else { f(s).map(Some) }
}
fn pxu(s: &str) -> Option<U256> {
    U256::from_str_radix(s, 16).ok()
}
fn pbytes(s: &str) -> Option<Vec<u8>> {
    if s == "-" {
        return Some(vec![]);
    }
    if s.len() % 2 != 0 {
        return None;
    }
    (0..s.len() / 2).map(|i| u8::from_str_radix(s.get(2 * i..2 * i + 2)?, 16).ok()).collect()
}

impl Tx {
    fn exec_keys(&self) -> String {
        let accs: Vec<String> =
            self.accs.iter().map(|a| format!("{}:{}:{:x}:{}", ahex(&a.addr), hx(a.bal), a.nonce, hxb(&a.code))).collect();
        let al: Vec<String> = self
            .al
            .iter()
            .map(|(a, ks)| {
                let k: Vec<String> = ks.iter().map(|k| hx(*k)).collect();
                format!("{}.{}", ahex(a), k.join("."))
            })
            .collect();
        let auth: Vec<String> = self.auth.iter().map(|(a, d, n)| format!("{}:{}:{:x}", ahex(a), ahex(d), n)).collect();
        let j = |v: Vec<String>, sep: &str| if v.is_empty() { "-".to_string() } else { v.join(sep) };
        format!(
            "caller={} cb={} to={} val={} data={} mfb={} nblobs={} al={} auth={} accs={}",
            ahex(&self.caller),
            ahex(&self.cb),
            self.to.map(|a| ahex(&a)).unwrap_or("-".into()),
            hx(self.val),
            hxb(&self.data),
            self.mfb.map(hx).unwrap_or("-".into()),
            self.nblobs,
            j(al, ","),
            j(auth, ";"),
            j(accs, ";")
        )
    }
    fn fee_keys(&self) -> String {
        let cpre = self.accs.iter().find(|a| a.addr == self.caller).map(|a| a.bal).unwrap_or_default();
        format!(
            "spec={} rw={} gl={:x} gp={} pf={} bf={} bgp={} tbg={:x} call={} same={} cpre={}",
            self.spec,
            b01(self.rw),
            self.gl,
            hx(self.gp),
            self.pf.map(hx).unwrap_or("-".into()),
            hx(self.bf),
            self.bgp.map(|p| format!("{:x}", p)).unwrap_or("-".into()),
            GAS_PER_BLOB * self.nblobs as u64,
            b01(self.to.is_some()),
            b01(self.caller == self.cb),
            hx(cpre)
        )
    }
    pub fn line(&self, obs: &str) -> String {
        format!("etx {} {} obs={}", self.fee_keys(), self.exec_keys(), obs)
    }
    pub fn parse(line: &str) -> Option<Tx> {
        let mut kv: HashMap<&str, &str> = HashMap::default();
        let mut it = line.split(' ');
        if it.next()? != "etx" {
            return None;
        }
        for t in it {
            let (k, v) = t.split_once('=')?;
            kv.insert(k, v);
        }
        let g = |k: &str| kv.get(k).copied();
        let mut accs = vec![];
        let a = g("accs")?;
        if a != "-" {
            for e in a.split(';') {
                let f: Vec<&str> = e.split(':').collect();
                if f.len() != 4 {
                    return None;
                }
                accs.push(Acc { addr: parse_addr(f[0])?, bal: pxu(f[1])?, nonce: u64::from_str_radix(f[2], 16).ok()?, code: pbytes(f[3])? });
            }
        }
        let mut al = vec![];
        let a = g("al")?;
        if a != "-" {
            for e in a.split(',') {
                let mut f = e.split('.');
                let ad = parse_addr(f.next()?)?;
                let mut ks = vec![];
                for k in f {
                    if !k.is_empty() {
                        ks.push(pxu(k)?);
                    }
                }
                al.push((ad, ks));
            }
        }
        let mut auth = vec![];
        let a = g("auth")?;
        if a != "-" {
            for e in a.split(';') {
                let f: Vec<&str> = e.split(':').collect();
                if f.len() != 3 {
                    return None;
                }
                auth.push((parse_addr(f[0])?, parse_addr(f[1])?, u64::from_str_radix(f[2], 16).ok()?));
            }
        }
        let nblobs: usize = g("nblobs")?.parse().ok()?;
        if nblobs > 64 {
            return None;
        }
        Some(Tx {
            spec: g("spec")?.parse().ok()?,
            rw: match g("rw")? { "1" => true, "0" => false, _ => return None },
            gl: u64::from_str_radix(g("gl")?, 16).ok()?,
            gp: pxu(g("gp")?)?,
            pf: opt(g("pf")?, pxu)?,
            bf: pxu(g("bf")?)?,
            bgp: opt(g("bgp")?, |s| u128::from_str_radix(s, 16).ok())?,
            caller: parse_addr(g("caller")?)?,
            cb: parse_addr(g("cb")?)?,
            to: opt(g("to")?, parse_addr)?,
            val: pxu(g("val")?)?,
            data: pbytes(g("data")?)?,
            mfb: opt(g("mfb")?, pxu)?,
            nblobs,
            al,
            auth,
            accs,
        })
    }
}

#[derive(Default)]
struct Obs {
    depth: usize,
    caller: Address,
    cb: Address,
    pre: HashMap<Address, U256>,
    ded: Option<U256>,
    cend: U256,
    bend: U256,
    /// per open frame: number of completed SELFDESTRUCTs whose beneficiary credit wrapped
    frames: Vec<u64>,
    survived_wraps: u64,
    /// Σ had_balance of the `AccountDestroyed { address == target }` entries in the journal when the last
    /// frame ended (entries of reverted frames are gone by then): the `burnt` of Spec/Ether.lean
    sdburn: Big,
    /// (contract, beneficiary, their balances) seen at the SELFDESTRUCT instruction about to execute
    pending_sd: Option<(Address, Address, U256, U256)>,
    // distribution
    sd_self: u64,
    sd_other: u64,
    creates_ok: u64,
    creates_fail: u64,
    calls_fail: Vec<InstructionResult>,
    max_depth: usize,
}
impl Obs {
    fn bal<DB: Database>(&self, ctx: &EvmContext<DB>, a: Address) -> U256 {
        match ctx.journaled_state.state.get(&a) {
            Some(acc) => acc.info.balance,
            None => self.pre.get(&a).copied().unwrap_or_default(),
        }
    }
    fn enter<DB: Database>(&mut self, ctx: &EvmContext<DB>) {
        if self.ded.is_none() {
            self.ded = Some(self.bal(ctx, self.caller));
        }
        self.depth += 1;
        self.max_depth = self.max_depth.max(self.depth);
        self.frames.push(0);
    }
    fn leave<DB: Database>(&mut self, ctx: &EvmContext<DB>, ok: bool) {
        self.depth = self.depth.saturating_sub(1);
        let w = self.frames.pop().unwrap_or_default();
        if ok {
            match self.frames.last_mut() {
                Some(p) => *p += w,
                None => self.survived_wraps += w,
            }
        }
        // the last `*_end` is the one of the first frame: every end overwrites, no nesting assumption needed
        self.cend = self.bal(ctx, self.caller);
        self.bend = self.bal(ctx, self.cb);
        let mut b = Big::default();
        for level in ctx.journaled_state.journal.iter() {
            for e in level.iter() {
                if let JournalEntry::AccountDestroyed { address, target, had_balance, .. } = e {
                    if address == target {
                        b.add(*had_balance);
                    }
                }
            }
        }
        self.sdburn = b;
    }
}
impl<DB: Database> Inspector<DB> for Obs {
    fn step(&mut self, interp: &mut Interpreter, ctx: &mut EvmContext<DB>) {
        if interp.current_opcode() == 0xff {
            if let Ok(t) = interp.stack().peek(0) {
                let target = Address::from_word(B256::from(t.to_be_bytes::<32>()));
                let contract = interp.contract.target_address;
                self.pending_sd = Some((contract, target, self.bal(ctx, contract), self.bal(ctx, target)));
            }
        }
    }
    fn call(&mut self, ctx: &mut EvmContext<DB>, _i: &mut CallInputs) -> Option<CallOutcome> {
        self.enter(ctx);
        None
    }
    fn call_end(&mut self, ctx: &mut EvmContext<DB>, _i: &CallInputs, o: CallOutcome) -> CallOutcome {
        let ok = o.result.result.is_ok();
        if !ok {
            self.calls_fail.push(o.result.result);
        }
        self.leave(ctx, ok);
        o
    }
    fn create(&mut self, ctx: &mut EvmContext<DB>, _i: &mut CreateInputs) -> Option<CreateOutcome> {
        self.enter(ctx);
        None
    }
    fn create_end(&mut self, ctx: &mut EvmContext<DB>, _i: &CreateInputs, o: CreateOutcome) -> CreateOutcome {
        let ok = o.result.result.is_ok();
        if ok { self.creates_ok += 1 } else { self.creates_fail += 1; self.calls_fail.push(o.result.result) }
        self.leave(ctx, ok);
        o
    }
    fn eofcreate(&mut self, ctx: &mut EvmContext<DB>, _i: &mut EOFCreateInputs) -> Option<CreateOutcome> {
        self.enter(ctx);
        None
    }
    fn eofcreate_end(&mut self, ctx: &mut EvmContext<DB>, _i: &EOFCreateInputs, o: CreateOutcome) -> CreateOutcome {
        let ok = o.result.result.is_ok();
        self.leave(ctx, ok);
        o
    }
    fn selfdestruct(&mut self, contract: Address, target: Address, value: U256) {
        let _ = value;
        if contract == target {
            self.sd_self += 1;
        } else {
            self.sd_other += 1;
            if let Some((c, t, bc, bt)) = self.pending_sd {
                if c == contract && t == target && bt.checked_add(bc).is_none() {
                    if let Some(f) = self.frames.last_mut() {
                        *f += 1;
                    }
                }
            }
        }
        self.pending_sd = None;
    }
}

fn db_sum(db: &CacheDB<EmptyDB>) -> Big {
    let mut s = Big::default();
    for (_, a) in db.accounts.iter() {
        s.add(a.info.balance);
    }
    s
}

pub struct TxOut {
    pub obs: String,
    pub reply: String,
    pub stats: Vec<String>,
}

pub fn exec_tx(tx: &Tx) -> TxOut {
    let Some(spec) = SpecId::try_from_u8(tx.spec) else {
        return TxOut { obs: "rejected".into(), reply: "bad-op".into(), stats: vec![] };
    };
    let mut db = CacheDB::new(EmptyDB::default());
    let mut pre = HashMap::default();
    for a in &tx.accs {
        let (code_hash, code) = if a.code.is_empty() {
            (KECCAK_EMPTY, None)
        } else {
            let c = Bytecode::new_raw(Bytes::from(a.code.clone()));
            (c.hash_slow(), Some(c))
        };
        db.insert_account_info(a.addr, AccountInfo { balance: a.bal, nonce: a.nonce, code_hash, code });
        pre.insert(a.addr, a.bal);
    }
    let sum_pre = db_sum(&db);
    let mut env = Box::<Env>::default();
    env.cfg.chain_id = 1;
    env.block.coinbase = tx.cb;
    env.block.basefee = tx.bf;
    env.block.gas_limit = U256::from(u64::MAX);
    env.block.prevrandao = Some(B256::ZERO);
    env.block.blob_excess_gas_and_price = tx.bgp.map(|p| BlobExcessGasAndPrice { excess_blob_gas: 0, blob_gasprice: p });
    env.tx.caller = tx.caller;
    env.tx.gas_limit = tx.gl;
    env.tx.gas_price = tx.gp;
    env.tx.gas_priority_fee = tx.pf;
    env.tx.transact_to = match tx.to { Some(a) => TxKind::Call(a), None => TxKind::Create };
    env.tx.value = tx.val;
    env.tx.data = Bytes::from(tx.data.clone());
    env.tx.nonce = None;
    env.tx.chain_id = None;
    env.tx.access_list = tx.al.iter().map(|(a, ks)| AccessListItem { address: *a, storage_keys: ks.iter().map(|k| B256::from(k.to_be_bytes::<32>())).collect() }).collect();
    env.tx.max_fee_per_blob_gas = tx.mfb;
    env.tx.blob_hashes = (0..tx.nblobs).map(|i| { let mut h = [0u8; 32]; h[0] = 1; h[31] = i as u8; B256::from(h) }).collect();
    if !tx.auth.is_empty() {
        env.tx.authorization_list = Some(
            tx.auth
                .iter()
                .map(|(authority, delegate, nonce)| {
                    RecoveredAuthorization::new_unchecked(
                        Authorization { chain_id: U256::from(1), address: *delegate, nonce: *nonce },
                        RecoveredAuthority::Valid(*authority),
                    )
                })
                .collect::<Vec<_>>()
                .into(),
        );
    }
    let insp = Obs { caller: tx.caller, cb: tx.cb, pre, ..Default::default() };
    let handler = Handler::mainnet_with_spec(spec, tx.rw);
    let mut evm = Evm::builder()
        .with_db(db)
        .with_external_context(insp)
        .with_env(env)
        .with_handler(handler)
        .append_handler_register(inspector_handle_register)
        .build();
    let res = evm.transact();
    let mut stats = vec![];
    match res {
        Err(e) => {
            let s = format!("{:?}", e);
            let k: String = s.chars().take_while(|c| c.is_alphanumeric() || *c == '(').collect();
            stats.push(format!("rejected:{}", k.chars().take(48).collect::<String>()));
            let sum_post = db_sum(&evm.context.evm.db);
            TxOut { obs: "rejected".into(), reply: format!("rejected diff={}", sum_pre.diff(&sum_post)), stats }
        }
        Ok(rs) => {
            let (class, gas_used, gas_refunded) = match &rs.result {
                ExecutionResult::Success { gas_used, gas_refunded, .. } => ("success", *gas_used, *gas_refunded),
                ExecutionResult::Revert { gas_used, .. } => ("revert", *gas_used, 0),
                ExecutionResult::Halt { gas_used, reason } => {
                    stats.push(format!("halt:{:?}", reason).chars().take(40).collect());
                    ("halt", *gas_used, 0)
                }
            };
            let mut late = Big::default();
            let mut n_sd_accounts = 0;
            for (_, acc) in rs.state.iter() {
                if acc.is_selfdestructed() {
                    n_sd_accounts += 1;
                    late.add(acc.info.balance);
                }
            }
            let fin = |a: &Address| -> U256 {
                match rs.state.get(a) {
                    Some(acc) => acc.info.balance,
                    None => evm.context.external.pre.get(a).copied().unwrap_or_default(),
                }
            };
            let cpost = fin(&tx.caller);
            let bpost = fin(&tx.cb);
            let o = &evm.context.external;
            let sd = o.sdburn;
            let wraps = o.survived_wraps;
            let obs = format!("{},{:x},{:x},{},{},{},{},{:x}", class, gas_used, gas_refunded, hx(o.cend), hx(o.bend), sd.hex(), late.hex(), wraps);
            if wraps > 0 { stats.push("selfdestruct-credit-wrapped".into()); }
            let ded = o.ded.unwrap_or_default();
            stats.push(format!("class:{}", class));
            if o.sd_self > 0 { stats.push("sd:self".into()); }
            if o.sd_other > 0 { stats.push("sd:other".into()); }
            if sd != Big::default() { stats.push("burn:self>0".into()); }
            if late != Big::default() { stats.push("burn:late>0".into()); }
            if n_sd_accounts > 0 { stats.push("accounts-destroyed".into()); }
            if o.creates_ok > 0 { stats.push("create:ok".into()); }
            if o.creates_fail > 0 { stats.push("create:fail".into()); }
            for r in &o.calls_fail { stats.push(format!("frame-fail:{:?}", r)); }
            stats.push(format!("depth:{}", o.max_depth.min(6)));
            if gas_refunded > 0 { stats.push("refund>0".into()); }
            let state = rs.state;
            evm.context.evm.db.commit(state);
            let sum_post = db_sum(&evm.context.evm.db);
            if sum_pre.hi > 0 { stats.push("sum>=2^256".into()); }
            TxOut {
                obs,
                reply: format!("ded={} cpost={} bpost={} diff={}", hx(ded), hx(cpost), hx(bpost), sum_pre.diff(&sum_post)),
                stats,
            }
        }
    }
}

/// executor: pure function of the exec keys of the line; returns (canonical request line, reply)
pub fn exec_line(line: &str) -> (String, String, Vec<String>) {
    let Some(tx) = Tx::parse(line) else { return (line.to_string(), "bad-op".into(), vec![]) };
    let r = std::panic::catch_unwind(std::panic::AssertUnwindSafe(|| exec_tx(&tx)));
    match r {
        Ok(o) => (tx.line(&o.obs), o.reply, o.stats),
        Err(_) => (tx.line("rejected"), "panic".into(), vec!["panic".into()]),
    }
}

// ------------------------------------------------------------------ programs
struct Asm {
    c: Vec<u8>,
    /// (position of a PUSH2 operand, index of the data blob whose offset goes there)
    fix: Vec<(usize, usize)>,
    blobs: Vec<Vec<u8>>,
}
impl Asm {
    fn new() -> Self {
        Asm { c: vec![], fix: vec![], blobs: vec![] }
    }
    fn op(&mut self, b: u8) -> &mut Self {
        self.c.push(b);
        self
    }
    fn push(&mut self, v: U256) -> &mut Self {
        let bytes = v.to_be_bytes::<32>();
        let n = (32 - bytes.iter().take_while(|b| **b == 0).count()).max(1);
        self.c.push(0x5f + n as u8);
        self.c.extend_from_slice(&bytes[32 - n..]);
        self
    }
    fn pushn(&mut self, v: u64) -> &mut Self {
        self.push(U256::from(v))
    }
    fn push_addr(&mut self, a: Address) -> &mut Self {
        self.push(U256::from_be_slice(a.as_slice()))
    }
    /// copies blob `i` to memory 0 and leaves nothing on the stack; returns its length
    fn load_blob(&mut self, blob: Vec<u8>) -> usize {
        let n = blob.len();
        self.blobs.push(blob);
        let idx = self.blobs.len() - 1;
        self.pushn(n as u64);
        self.c.push(0x61);
        self.fix.push((self.c.len(), idx));
        self.c.extend_from_slice(&[0, 0]);
        self.pushn(0);
        self.op(0x39); // CODECOPY
        n
    }
    fn finish(mut self) -> Vec<u8> {
        let mut offs = vec![];
        let mut pos = self.c.len();
        for b in &self.blobs {
            offs.push(pos);
            pos += b.len();
        }
        for (p, i) in &self.fix {
            self.c[*p] = (offs[*i] >> 8) as u8;
            self.c[*p + 1] = offs[*i] as u8;
        }
        for b in &self.blobs {
            self.c.extend_from_slice(b);
        }
        self.c
    }
}

#[derive(Clone, Copy)]
enum Val {
    Lit(U256),
    /// SELFBALANCE-like: BALANCE(ADDRESS) (Frontier opcodes only)
    All,
    /// more than the contract owns
    TooMuch,
}
fn emit_val(a: &mut Asm, v: Val) {
    match v {
        Val::Lit(x) => {
            a.push(x);
        }
        Val::All => {
            a.op(0x30).op(0x31);
        }
        Val::TooMuch => {
            a.op(0x30).op(0x31).pushn(1).op(0x01);
        }
    }
}

/// init code that deploys `runtime`
fn deployer(runtime: &[u8]) -> Vec<u8> {
    let n = runtime.len() as u8;
    let mut c = vec![0x60, n, 0x60, 12, 0x60, 0, 0x39, 0x60, n, 0x60, 0, 0xf3];
    c.extend_from_slice(runtime);
    c
}

fn gen_init(rng: &mut Rng, targets: &[Address], depth: u32) -> Vec<u8> {
    let t = *rng.pick(targets);
    let mut sd_to = |a: Address| {
        let mut x = Asm::new();
        x.push_addr(a).op(0xff);
        x.finish()
    };
    match rng.below(12) {
        0 => vec![0x00],
        1 => vec![0x60, 0, 0x60, 0, 0xfd],
        2 => vec![0xfe],
        3 => vec![0x30, 0xff],       // selfdestruct to self inside init code
        4 => vec![0x33, 0xff],       // to the creator
        5 => vec![0x32, 0xff],       // to the origin
        6 => sd_to(t),
        7 => deployer(&[0x30, 0xff]), // runtime: selfdestruct to self
        8 => deployer(&[0x33, 0xff]), // runtime: selfdestruct to its caller
        9 => deployer(&sd_to(t)),
        10 => deployer(&[0x00]),
        _ => {
            if depth < 2 {
                gen_body(rng, targets, depth + 1, true)
            } else {
                vec![0x00]
            }
        }
    }
}

fn gen_value(rng: &mut Rng) -> Val {
    match rng.below(10) {
        0..=2 => Val::Lit(U256::ZERO),
        3..=5 => Val::Lit(U256::from(rng.range(1, 40))),
        6 => Val::Lit(U256::from(1)),
        7..=8 => Val::All,
        _ => Val::TooMuch,
    }
}

/// a contract body: a few actions, then a terminator
fn gen_body(rng: &mut Rng, targets: &[Address], depth: u32, is_init: bool) -> Vec<u8> {
    let mut a = Asm::new();
    let n = rng.range(1, 4);
    for _ in 0..n {
        match rng.below(10) {
            0..=4 => {
                // CALL / CALLCODE / DELEGATECALL / STATICCALL
                let kind = match rng.below(10) { 0..=6 => 0xf1u8, 7 => 0xf2, 8 => 0xf4, _ => 0xfa };
                let t = *rng.pick(targets);
                a.pushn(0).pushn(0).pushn(0).pushn(0);
                if kind == 0xf1 || kind == 0xf2 {
                    emit_val(&mut a, gen_value(rng));
                }
                a.push_addr(t);
                match rng.below(4) {
                    0 => { a.pushn(*rng.pick(&[0u64, 2300, 9000, 30000, 100000])); }
                    _ => { a.op(0x5a); }
                }
                a.op(kind).op(0x50);
            }
            5..=7 => {
                // CREATE / CREATE2, optionally followed by calls to the new address
                let create2 = rng.chance(1, 3);
                let init = gen_init(rng, targets, depth);
                let len = a.load_blob(init);
                if create2 {
                    a.pushn(rng.below(3));
                }
                a.pushn(len as u64).pushn(0);
                emit_val(&mut a, gen_value(rng));
                a.op(if create2 { 0xf5 } else { 0xf0 });
                let calls = rng.below(3);
                for _ in 0..calls {
                    a.pushn(0).pushn(0).pushn(0).pushn(0);
                    emit_val(&mut a, gen_value(rng));
                    a.op(0x85).op(0x5a).op(0xf1).op(0x50);
                }
                a.op(0x50);
            }
            8 => {
                // storage writes that earn a refund
                let k = rng.below(3);
                if rng.chance(1, 2) { a.pushn(1).pushn(k).op(0x55); }
                a.pushn(0).pushn(k).op(0x55);
            }
            _ => {
                // plain send to a fresh address
                a.pushn(0).pushn(0).pushn(0).pushn(0);
                emit_val(&mut a, gen_value(rng));
                a.push_addr(Address::with_last_byte(0xe0 + rng.below(4) as u8));
                a.op(0x5a).op(0xf1).op(0x50);
            }
        }
    }
    match rng.below(20) {
        0..=8 => { a.op(0x00); }
        9..=11 => { a.pushn(0).pushn(0).op(0xfd); }
        12 => { a.op(0xfe); }
        13..=14 => { a.op(0x30).op(0xff); }
        15 => { a.op(0x33).op(0xff); }
        16..=17 => { let t = *rng.pick(targets); a.push_addr(t).op(0xff); }
        18 => { a.push_addr(Address::with_last_byte(0xe0 + rng.below(4) as u8)).op(0xff); }
        _ => {
            if is_init {
                // deploy a self-destructing runtime
                let rt = [0x30u8, 0xff];
                a.load_blob(rt.to_vec());
                a.pushn(2).pushn(0).op(0xf3);
            } else {
                a.op(0x00);
            }
        }
    }
    a.finish()
}

const SPECS: [u8; 14] = [0, 2, 4, 5, 6, 8, 9, 11, 12, 15, 16, 17, 18, 19];

fn big_balances() -> Vec<U256> {
    vec![U256::ZERO, U256::from(1), U256::from(1) << 255, U256::MAX - U256::from(1), U256::MAX, U256::from(1000), U256::from(1u64 << 50)]
}

pub fn gen_tx(rng: &mut Rng) -> Tx {
    let spec = *rng.pick(&SPECS);
    let caller = Address::with_last_byte(0xc1);
    let contracts: Vec<Address> = (0..5u8).map(|i| Address::with_last_byte(0xa0 + i)).collect();
    let eoas: Vec<Address> = (0..2u8).map(|i| Address::with_last_byte(0xb0 + i)).collect();
    let cb = match rng.below(10) {
        0 => caller,
        1 => contracts[rng.below(5) as usize],
        2 => eoas[0],
        _ => Address::with_last_byte(0xcb),
    };
    let mut targets = contracts.clone();
    targets.extend(eoas.iter().copied());
    targets.push(caller);
    targets.push(cb);
    targets.push(Address::with_last_byte(0x02)); // precompile
    targets.push(Address::with_last_byte(0x04));
    targets.push(Address::with_last_byte(0xee)); // non-existing
    let boundary = rng.chance(1, 4);
    let bigs = big_balances();
    let mut bal = |rng: &mut Rng| -> U256 {
        if boundary && rng.chance(1, 2) { *rng.pick(&bigs) } else { U256::from(rng.below(2000)) }
    };
    let mut accs = vec![];
    for c in &contracts {
        let code = gen_body(rng, &targets, 0, false);
        accs.push(Acc { addr: *c, bal: bal(rng), nonce: if spec >= 5 { 1 } else { 0 }, code });
    }
    for e in &eoas {
        if rng.chance(2, 3) {
            accs.push(Acc { addr: *e, bal: bal(rng), nonce: rng.below(3), code: vec![] });
        }
    }
    if cb != caller && !accs.iter().any(|a| a.addr == cb) && rng.chance(1, 2) {
        accs.push(Acc { addr: cb, bal: bal(rng), nonce: 0, code: vec![] });
    }
    // pre-existing accounts at addresses CREATE will produce: collision (nonce 1) or balance only (incl. 2^256-1)
    for c in &contracts {
        if rng.chance(1, 8) {
            let n0 = if spec >= 5 { 1 } else { 0 };
            let target = c.create(n0);
            let collide = rng.chance(1, 2);
            let b = if rng.chance(1, 3) { U256::MAX } else { U256::from(rng.below(100)) };
            accs.push(Acc { addr: target, bal: b, nonce: if collide { 1 } else { 0 }, code: vec![] });
        }
    }
    // transaction shape
    let gl = match rng.below(10) {
        0 => rng.range(21000, 60000),
        1..=3 => rng.range(60000, 300000),
        _ => rng.range(300000, 3_000_000),
    };
    let prices = [0u64, 1, 7, 1_000_000_000, 50_000_000_000];
    let mut bf = if spec >= 12 { U256::from(*rng.pick(&prices)) } else { U256::from(*rng.pick(&[0u64, 0, 7])) };
    if rng.chance(1, 25) {
        bf = U256::from(1u128 << 100);
    }
    let mut gp = bf + U256::from(*rng.pick(&prices));
    if rng.chance(1, 20) {
        gp = bf + (U256::from(1) << 150);
    }
    let pf = if spec >= 12 && rng.chance(1, 2) {
        // EIP-1559: priority fee <= max fee; either side of min(max_fee, basefee + priority)
        Some(match rng.below(3) { 0 => U256::ZERO, 1 => (gp - bf) / U256::from(2), _ => gp })
    } else if spec < 12 && rng.chance(1, 12) {
        Some(U256::from(rng.below(10)))
    } else {
        None
    };
    let bgp: Option<u128> = if spec >= 17 { Some(*rng.pick(&[1u128, 2, 1_000_000_000, 1u128 << 90])) } else { None };
    let kind = rng.below(12);
    let mut auth = vec![];
    let (to, data) = match kind {
        0 => (Some(eoas[0]), vec![]),
        1..=2 => (None, gen_init(rng, &targets, 0)),
        3 => (None, gen_body(rng, &targets, 0, true)),
        _ => {
            let n = rng.below(5) as usize;
            (Some(contracts[0]), rng.bytes(n))
        }
    };
    let blob = spec >= 17 && to.is_some() && rng.chance(1, 4);
    let nblobs = if blob { rng.range(1, if spec >= 18 { 9 } else { 6 }) as usize } else { 0 };
    let mfb = if blob { Some(U256::from(bgp.unwrap()) + U256::from(rng.below(3))) } else { None };
    if spec >= 18 && to.is_some() && !blob && rng.chance(1, 4) {
        // EIP-7702: an EOA delegates to one of the contracts, so a call to it runs that code with the EOA's balance
        let authority = eoas[rng.below(2) as usize];
        let n = accs.iter().find(|a| a.addr == authority).map(|a| a.nonce).unwrap_or(0);
        auth.push((authority, contracts[rng.below(5) as usize], if rng.chance(1, 6) { n + 1 } else { n }));
    }
    let al = if spec >= 11 && rng.chance(1, 4) {
        vec![(contracts[rng.below(5) as usize], (0..rng.below(3)).map(U256::from).collect())]
    } else {
        vec![]
    };
    let val = match rng.below(6) {
        0..=1 => U256::ZERO,
        2..=4 => U256::from(rng.range(1, 5000)),
        _ => U256::from(1u64 << 40),
    };
    // the caller: validation needs gl*gp + value + max blob fee
    let need = U256::from(gl) * gp + val + mfb.unwrap_or_default() * U256::from(GAS_PER_BLOB * nblobs as u64);
    let cbal = match rng.below(12) {
        0 => need,
        1 => need + U256::from(1),
        2 => if need > U256::ZERO && rng.chance(1, 2) { need - U256::from(1) } else { need },
        3 => U256::MAX,
        4 => U256::from(1) << 255,
        _ => need + U256::from(rng.below(1u64 << 40)),
    };
    accs.push(Acc { addr: caller, bal: cbal, nonce: rng.below(3), code: vec![] });
    Tx { spec, rw: !rng.chance(1, 4), gl, gp, pf, bf, bgp, caller, cb, to, val, data, mfb, nblobs, al, auth, accs }
}

pub fn gen_txs(seed: u64, n: usize) -> Vec<String> {
    let mut rng = Rng::new(seed ^ 0xC08_7);
    (0..n).map(|_| gen_tx(&mut rng).line("rejected")).collect()
}

pub fn run_tx(seed: u64, n: usize, replay: Option<Vec<String>>, out: &mut Out) {
    let lines = replay.unwrap_or_else(|| gen_txs(seed, n));
    for l in lines {
        let (req, reply, stats) = exec_line(&l);
        if let Some(t) = Tx::parse(&req) {
            out.count(&format!("spec:{}", t.spec));
            out.count(if t.rw { "rewards:on" } else { "rewards:off" });
            out.count(match (&t.to, t.nblobs > 0, !t.auth.is_empty(), t.pf.is_some(), !t.al.is_empty()) {
                (None, ..) => "tx:create",
                (_, true, ..) => "tx:blob",
                (_, _, true, ..) => "tx:7702",
                (_, _, _, true, _) => "tx:1559",
                (_, _, _, _, true) => "tx:2930",
                _ => "tx:legacy",
            });
            if t.bf > U256::ZERO { out.count("basefee>0"); }
        }
        for s in stats {
            out.count(&s);
        }
        out.push(req, reply);
    }
}
