//! Kind-A tie: exhaustive behavioural tables dumped by *executing* the compiled implementation.
//! Output is a line format turned into Lean literals by tools/tables2lean.py.
use revm::interpreter::{gas, opcode::OPCODE_INFO_JUMPTABLE, InstructionResult};
use revm::precompile::{PrecompileSpecId, Precompiles};
use revm::primitives::{Address, SpecId};
use revm::{db::InMemoryDB, Evm};
use verif_harness::act::*;

fn main() {
    let specs = all_specs();
    for s in &specs {
        let name: &'static str = (*s).into();
        println!("specid {} {}", name, *s as u8);
    }
    for a in &specs {
        for b in &specs {
            println!("enabled {} {} {}", *a as u8, *b as u8, SpecId::enabled(*a, *b) as u8);
        }
    }
    for op in 0u16..=255 {
        let op = op as u8;
        match OPCODE_INFO_JUMPTABLE[op as usize] {
            Some(i) => println!(
                "opinfo {} 1 {} {} {} {} {}",
                op, i.inputs(), i.outputs(), i.immediate_size(), i.is_disabled_in_eof() as u8, i.is_terminating() as u8
            ),
            None => println!("opinfo {} 0 0 0 0 0 0", op),
        }
    }
    for s in &specs {
        for op in 0u16..=255 {
            let (c, name) = op_status(op as u8, *s);
            println!("opstatus {} {} {} {}", *s as u8, op, c, name);
        }
    }
    for s in &specs {
        for op in 0u16..=255 {
            let (c, all) = tx_status(op as u8, *s);
            println!("txstatus {} {} {} {}", *s as u8, op, c, all);
        }
    }
    // precompiles
    let mut addrs: Vec<u64> = (0..=0x20).collect();
    addrs.extend([0xff, 0x100, 0x101, 0xdead]);
    for s in &specs {
        let direct = Precompiles::new(PrecompileSpecId::from_spec_id(*s));
        let evm = Evm::builder().with_db(InMemoryDB::default()).with_spec_id(*s).build();
        let via_handler = evm.handler.pre_execution().load_precompiles();
        let empty_ref = call_tx(Address::with_last_byte(0xEE), *s);
        for a in &addrs {
            let addr = revm::precompile::u64_to_address(*a);
            let r = call_tx(addr, *s);
            println!(
                "precompile {} {} {} {} {}",
                *s as u8, a, direct.contains(&addr) as u8, via_handler.contains(&addr) as u8, (r == empty_ref) as u8
            );
        }
    }
    // constants
    macro_rules! c { ($($n:ident),*) => { $( println!("const {} {}", stringify!($n), gas::$n as u128); )* } }
    c!(ZERO, BASE, VERYLOW, DATA_LOADN_GAS, CONDITION_JUMP_GAS, RETF_GAS, DATA_LOAD_GAS, LOW, MID, HIGH, JUMPDEST,
       SELFDESTRUCT, CREATE, CALLVALUE, NEWACCOUNT, EXP, MEMORY, LOG, LOGDATA, LOGTOPIC, KECCAK256, KECCAK256WORD,
       COPY, BLOCKHASH, CODEDEPOSIT, INSTANBUL_SLOAD_GAS, SSTORE_SET, SSTORE_RESET, REFUND_SSTORE_CLEARS,
       STANDARD_TOKEN_COST, NON_ZERO_BYTE_DATA_COST, NON_ZERO_BYTE_MULTIPLIER, NON_ZERO_BYTE_DATA_COST_ISTANBUL, NON_ZERO_BYTE_MULTIPLIER_ISTANBUL, TOTAL_COST_FLOOR_PER_TOKEN, EOF_CREATE_GAS,
       ACCESS_LIST_ADDRESS, ACCESS_LIST_STORAGE_KEY, COLD_SLOAD_COST, COLD_ACCOUNT_ACCESS_COST,
       WARM_STORAGE_READ_COST, WARM_SSTORE_RESET, INITCODE_WORD_COST, CALL_STIPEND, MIN_CALLEE_GAS);
    println!("const MAX_CODE_SIZE {}", revm::primitives::MAX_CODE_SIZE);
    println!("const MAX_INITCODE_SIZE {}", revm::primitives::MAX_INITCODE_SIZE);
    println!("const STACK_LIMIT {}", revm::interpreter::STACK_LIMIT);
    println!("const CALL_STACK_LIMIT {}", revm::CALL_STACK_LIMIT);
    println!("const BLOCK_HASH_HISTORY {}", revm::primitives::BLOCK_HASH_HISTORY);
    // instruction results
    let names = [
        InstructionResult::Continue, InstructionResult::Stop, InstructionResult::Return, InstructionResult::SelfDestruct,
        InstructionResult::ReturnContract, InstructionResult::Revert, InstructionResult::CallTooDeep,
        InstructionResult::OutOfFunds, InstructionResult::CreateInitCodeStartingEF00, InstructionResult::InvalidEOFInitCode,
        InstructionResult::InvalidExtDelegateCallTarget, InstructionResult::CallOrCreate, InstructionResult::OutOfGas,
        InstructionResult::MemoryOOG, InstructionResult::MemoryLimitOOG, InstructionResult::PrecompileOOG,
        InstructionResult::InvalidOperandOOG, InstructionResult::OpcodeNotFound, InstructionResult::CallNotAllowedInsideStatic,
        InstructionResult::StateChangeDuringStaticCall, InstructionResult::InvalidFEOpcode, InstructionResult::InvalidJump,
        InstructionResult::NotActivated, InstructionResult::StackUnderflow, InstructionResult::StackOverflow,
        InstructionResult::OutOfOffset, InstructionResult::CreateCollision, InstructionResult::OverflowPayment,
        InstructionResult::PrecompileError, InstructionResult::NonceOverflow, InstructionResult::CreateContractSizeLimit,
        InstructionResult::CreateContractStartingWithEF, InstructionResult::CreateInitCodeSizeLimit,
        InstructionResult::FatalExternalError, InstructionResult::ReturnContractInNotInitEOF,
        InstructionResult::EOFOpcodeDisabledInLegacy, InstructionResult::EOFFunctionStackOverflow,
        InstructionResult::EofAuxDataOverflow, InstructionResult::EofAuxDataTooSmall, InstructionResult::InvalidEXTCALLTarget,
    ];
    for r in names {
        println!("iresult {:?} {} {} {}", r, r.is_ok() as u8, r.is_revert() as u8, r.is_error() as u8);
    }
    // C10: static-mode behaviour of every opcode (lines `statictab` / `staticchild`, routed by tables2lean.py
    // into lean/Revm/Gen/StaticTable.lean)
    verif_harness::c10::dump_static_table();
}
