//! corr <component> <seed> <n> <outdir> [replay-file]
use verif_harness::*;
fn main() {
    let a: Vec<String> = std::env::args().collect();
    if a.len() < 5 {
        eprintln!("usage: corr <component> <seed> <n> <outdir> [replay]");
        std::process::exit(2);
    }
    std::panic::set_hook(Box::new(|_| {}));
    let seed: u64 = a[2].parse().unwrap();
    let n: usize = a[3].parse().unwrap();
    let replay: Option<Vec<String>> = a.get(5).map(|p| {
        std::fs::read_to_string(p).unwrap().lines().map(|s| s.to_string()).collect()
    });
    let mut out = Out::new();
    match a[1].as_str() {
        "C03" => c03::run(seed, n, replay, &mut out),
        "C05" => c05::run(seed, n, replay, &mut out),
        "C06" => c06::run(seed, n, replay, &mut out),
        "C13" => c13::run(seed, n, replay, &mut out),
        "C27" => c27::run(seed, n, replay, &mut out),
        "C32" => c32::run(seed, n, replay, &mut out),
        "C04" => c04::run(seed, n, replay, &mut out),
        other => {
            eprintln!("unknown component {other}");
            std::process::exit(2);
        }
    }
    out.write(&a[4]);
}
