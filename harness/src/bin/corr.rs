//! corr <component> <seed> <n> <outdir> [replay-file]
use verif_harness::*;
fn main() {
    let a: Vec<String> = std::env::args().collect();
    if a.len() < 5 {
        eprintln!("usage: corr <component> <seed> <n> <outdir> [replay]");
        std::process::exit(2);
    }
    if std::env::var("VERIF_PANIC_TRACE").is_err() {
        std::panic::set_hook(Box::new(|_| {}));
    }
    let seed: u64 = a[2].parse().unwrap();
    let n: usize = a[3].parse().unwrap();
    let replay: Option<Vec<String>> = a.get(5).map(|p| {
        std::fs::read_to_string(p).unwrap().lines().map(|s| s.to_string()).collect()
    });
    let mut out = Out::new();
    match a[1].as_str() {
        "C03" => c03::run(seed, n, replay, &mut out),
        "C05" => c05::run(seed, n, replay, &mut out),
        "C06" => c06::run(seed, n, replay, &mut out),
        "C13" => c13::run(seed, n, replay, &mut out),
        "C27" => c27::run(seed, n, replay, &mut out),
        "C32" => c32::run(seed, n, replay, &mut out),
        "C04" => c04::run(seed, n, replay, &mut out),
        "C12" => c12::run(seed, n, replay, &mut out),
        "C11" => c11::run(seed, n, replay, &mut out),
        "C14" => c14::run(seed, n, replay, &mut out),
        "C23" => c23::run(seed, n, replay, &mut out),
        "C24" => c24::run(seed, n, replay, &mut out),
        "C26" => c26::run(seed, n, replay, &mut out),
        "C20" => c20::run(seed, n, replay, &mut out),
        "C21" => c21::run(seed, n, replay, &mut out),
        "C15" | "statedb" => c15::run(seed, n, replay, &mut out),
        "C19" | "prestate" => c19::run(seed, n, replay, &mut out),
        "C10" | "static" => c10::run(seed, n, replay, &mut out),
        "bundle" => bundle::run(seed, n, replay, &mut out),
        "util" => cutil::run(seed, n, replay, &mut out),
        "C25" => c25::run(seed, n, replay, &mut out),
        "C01" | "evm" => c01::run(seed, n, replay, &mut out),
        "C31" => c31::run(seed, n, replay, &mut out),
        "C02" => c02::run(seed, n, replay, &mut out),
        "C29" | "C30" => c29::run(seed, n, replay, &mut out, a[1].as_str()),
        "C22" | "hcfg" | "hcfg-optimism" => c22::run(seed, n, replay, &mut out),
        "C07" | "frame" => c07::run(seed, n, replay, &mut out),
        "C08ops" => c08::run_ops(seed, n, replay, &mut out),
        "C08tx" => c08::run_tx(seed, n, replay, &mut out),
        "C09" | "txgas" => c09::run(seed, n, replay, &mut out),
        #[cfg(feature = "optimism")]
        "C33" => c33::run(seed, n, replay, &mut out),
        #[cfg(feature = "optimism")]
        "opfee" => c33::run_opfee(seed, n, replay, &mut out),
        #[cfg(feature = "optimism")]
        "optx" => c33::run_optx(seed, n, replay, &mut out),
        #[cfg(feature = "optimism")]
        "ophist" => c33::run_ophist(seed, n, replay, &mut out),
        "C34j" => c34::run(seed, n, replay, &mut out),
        "C34tx" => c34tx::run(seed, n, replay, &mut out),
        "C28" | "inspwrap" => c28::run(seed, n, replay, &mut out),
        other => {
            eprintln!("unknown component {other}");
            std::process::exit(2);
        }
    }
    out.write(&a[4]);
}
