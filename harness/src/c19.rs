//! C19 (`prestate`): left = `State` over database D built `with_bundle_prestate(B)`, right = `State`
//! over D with B's plain-state changeset applied (`BundleState::to_plain_state`); the same
//! operations are sent to both, every reply is `<left> ~ <right>`. B is produced by a REAL earlier
//! history (State with bundle update, random merge schedule, `take_bundle`) and is carried by the
//! `begin` line, so that the executor is a pure function of the request lines.
//!
//!   begin prestate <sc> <bu> <known> <region> U … S … DB … CODES … BUNDLE <n> (<addr> <status> <info|none> <originfo|none> <m> (<k> <orig> <present>)*)* BCODES <n> (<hash> <bytes>)*
//!   every following line of the case starts with the token `pst`:
//!   basic / storage / code / probe / commit / inc / drain   as in `statedb`
//!   post    (last line, needs bu=1) merge transitions on both sides, take both bundles, apply their
//!           changesets (left over D, right over D') and compare the resulting plain states with each
//!           other and with the in-harness reference: `post=eq` | `post=ne…` | `post=na` | `post=skip`
use crate::c15::*;
use crate::*;
use revm::db::states::bundle_state::BundleRetention;
use revm::db::states::StorageSlot;
use revm::db::{BundleAccount, BundleState, CacheDB, OriginalValuesKnown};
use revm::primitives::{Address, Bytecode, Bytes, HashMap, B256, KECCAK_EMPTY, U256};
use std::collections::BTreeMap;

pub fn fmt_bundle(b: &BundleState) -> String {
    let accts: BTreeMap<Address, &BundleAccount> = b.state.iter().map(|(a, x)| (*a, x)).collect();
    let mut s = format!("BUNDLE {:x}", accts.len());
    for (a, x) in accts {
        let slots: BTreeMap<U256, StorageSlot> = x.storage.iter().map(|(k, v)| (*k, *v)).collect();
        s += &format!(
            " {} {} {} {} {:x}",
            hx(addr_u(a)),
            status_name(x.status),
            fmt_info_opt(&x.info),
            fmt_info_opt(&x.original_info),
            slots.len()
        );
        for (k, v) in slots {
            s += &format!(" {} {} {}", hx(k), hx(v.previous_or_original_value), hx(v.present_value));
        }
    }
    let codes: BTreeMap<B256, &Bytecode> = b.contracts.iter().map(|(h, c)| (*h, c)).collect();
    s += &format!(" BCODES {:x}", codes.len());
    for (h, c) in codes {
        s += &format!(" {} {}", hx(hash_u(h)), hxb(&code_bytes(c)));
    }
    s
}
pub fn parse_bundle(t: &mut Toks) -> Option<BundleState> {
    t.expect("BUNDLE")?;
    let n = t.num()?;
    let mut b = BundleState::default();
    for _ in 0..n {
        let a = addr(t.hex()?);
        let status = parse_status(t.next()?)?;
        let info = parse_info_opt(t.next()?)?;
        let original_info = parse_info_opt(t.next()?)?;
        let m = t.num()?;
        let mut storage = HashMap::default();
        for _ in 0..m {
            let k = t.hex()?;
            let o = t.hex()?;
            let p = t.hex()?;
            storage.insert(k, StorageSlot::new_changed(o, p));
        }
        let acc = BundleAccount { info, original_info, storage, status };
        b.state_size += acc.size_hint();
        if b.state.insert(a, acc).is_some() {
            return None;
        }
    }
    t.expect("BCODES")?;
    let n = t.num()?;
    for _ in 0..n {
        let h = B256::from(t.hex()?);
        let bytes = parse_bytes(t.next()?)?;
        b.contracts.insert(h, Bytecode::new_raw(Bytes::from(bytes)));
    }
    Some(b)
}

/// a plain database applying a `StateChangeset`
pub fn apply_changeset(db: &MapDb, b: &BundleState, known: bool) -> MapDb {
    let cs = b.to_plain_state(if known { OriginalValuesKnown::Yes } else { OriginalValuesKnown::No });
    let mut out = db.clone();
    for (a, info) in cs.accounts {
        match info {
            Some(i) => {
                let i2 = i.clone();
                out.accts.entry(a).or_insert_with(|| (i2, Store::new())).0 = i;
            }
            None => {
                out.accts.remove(&a);
            }
        }
    }
    for st in cs.storage {
        if let Some(e) = out.accts.get_mut(&st.address) {
            if st.wipe_storage {
                e.1.clear();
            }
            for (k, v) in st.storage {
                if v.is_zero() {
                    e.1.remove(&k);
                } else {
                    e.1.insert(k, v);
                }
            }
        }
    }
    for (h, c) in cs.contracts {
        out.codes.insert(h, c);
    }
    out
}
fn norm_plain(db: &BTreeMap<Address, (revm::primitives::AccountInfo, Store)>) -> String {
    let mut s = String::new();
    for (a, (i, st)) in db {
        let sl: Vec<String> = st.iter().filter(|(_, v)| !v.is_zero()).map(|(k, v)| format!("{}:{}", hx(*k), hx(*v))).collect();
        s += &format!("{}={},{:x},{}[{}];", hx(addr_u(*a)), hx(i.balance), i.nonce, hx(hash_u(i.code_hash)), sl.join(","));
    }
    s
}

pub struct Case2 {
    pub l: Case,
    pub r: Case,
    pub d: MapDb,
    pub d2: MapDb,
    pub known: bool,
    pub bu: bool,
    pub region: String,
    pub dead: bool,
}

pub fn parse_begin2(line: &str) -> Option<Case2> {
    let mut t = Toks::new(line);
    t.expect("begin")?;
    t.expect("prestate")?;
    let sc = t.hex()? == U256::from(1);
    let bu = t.hex()? == U256::from(1);
    let known = t.hex()? == U256::from(1);
    let region = t.next()?.to_string();
    let (uni_a, uni_s, db) = parse_world(&mut t)?;
    let bundle = parse_bundle(&mut t)?;
    if !t.done() {
        return None;
    }
    let d2 = apply_changeset(&db, &bundle, known);
    let hdr = |d: &MapDb| Header { sc, bu, region: region.clone(), uni_a: uni_a.clone(), uni_s: uni_s.clone(), db: d.clone() };
    // the left side reads from D through the bundle; its in-harness reference is the merged state D'
    let l = Case {
        st: Some(build_state(&db, sc, bu, Some(bundle.clone()))),
        cdb: CacheDB::new(d2.clone()),
        refs: RefState::from_db(&d2),
        h: hdr(&d2),
        ref_checks: 0,
        ref_mismatch: 0,
        saw_tx: false,
    };
    let r = Case::new(hdr(&d2));
    Some(Case2 { l, r, d: db, d2, known, bu, region, dead: false })
}

impl Case2 {
    pub fn exec(&mut self, line: &str) -> String {
        if self.dead {
            return "dead".into();
        }
        if line == "post" {
            let region_valid = self.region == "valid";
            let reply = if !region_valid {
                "post=skip".to_string()
            } else if !self.bu {
                "post=na".to_string()
            } else {
                let mut ls = self.l.st.take().unwrap();
                let mut rs = self.r.st.take().unwrap();
                ls.merge_transitions(BundleRetention::Reverts);
                rs.merge_transitions(BundleRetention::Reverts);
                let bl = ls.take_bundle();
                let br = rs.take_bundle();
                let pl = norm_plain(&apply_changeset(&self.d, &bl, self.known).accts);
                let pr = norm_plain(&apply_changeset(&self.d2, &br, self.known).accts);
                let rf = norm_plain(&self.l.refs.m);
                if pl == pr && pl == rf {
                    "post=eq".to_string()
                } else {
                    format!("post=ne left:{} right:{} ref:{}", pl, pr, rf)
                }
            };
            self.dead = true;
            return reply;
        }
        let a = self.l.exec(line);
        let b = self.r.exec(line);
        if a == "panic" || b == "panic" {
            self.dead = true;
        }
        if a == "bad-op" && b == "bad-op" {
            return "bad-op".into();
        }
        format!("{} ~ {}", a, b)
    }
}

pub fn exec_lines(lines: &[String], out: &mut Out) {
    let mut case: Option<Case2> = None;
    let mut tally = |c: &Case2, out: &mut Out| {
        for (k, v) in [
            ("ref_checks", c.l.ref_checks + c.r.ref_checks),
            ("ref_mismatch_in_excluded_region", c.l.ref_mismatch + c.r.ref_mismatch),
        ] {
            *out.dist.entry(k.into()).or_insert(0) += v;
        }
    };
    for l in lines {
        let reply = if l.starts_with("begin ") {
            if let Some(c) = &case {
                tally(c, out);
            }
            case = parse_begin2(l);
            if case.is_some() { "ok".to_string() } else { "bad-op".to_string() }
        } else {
            match (case.as_mut(), l.strip_prefix("pst ")) {
                // a Rust panic of the implementation (e.g. an `unreachable!` arm of the status machine) is the
                // reply `panic` of this line; the case is dead afterwards (its states may be half-updated)
                (Some(c), Some(op)) => match std::panic::catch_unwind(std::panic::AssertUnwindSafe(|| c.exec(op))) {
                    Ok(r) => r,
                    Err(_) => "panic".to_string(),
                },
                _ => "bad-op".into(),
            }
        };
        out.push(l.clone(), reply);
    }
    if let Some(c) = &case {
        tally(c, out);
    }
}

/// run an earlier history on a real State with bundle update and a random merge schedule and take
/// the bundle; `None` if the history panicked
pub fn bundle_of_history(rng: &mut Rng, db: &MapDb, sc: bool, ops: &[String], uni_a: &[Address], uni_s: &[U256]) -> Option<BundleState> {
    let h = Header { sc, bu: true, region: "finding".into(), uni_a: uni_a.to_vec(), uni_s: uni_s.to_vec(), db: db.clone() };
    let mut c = Case::new(h);
    let sched: Vec<bool> = ops.iter().map(|_| rng.chance(1, 3)).collect();
    let last = rng.chance(1, 2);
    std::panic::catch_unwind(std::panic::AssertUnwindSafe(move || {
        for (l, m) in ops.iter().zip(sched) {
            let r = c.exec(l);
            if r == "panic" || r == "bad-op" {
                return None;
            }
            if l.starts_with("commit") && m {
                c.st.as_mut().unwrap().merge_transitions(BundleRetention::Reverts);
            }
        }
        let st = c.st.as_mut()?;
        st.merge_transitions(if last { BundleRetention::Reverts } else { BundleRetention::PlainState });
        Some(st.take_bundle())
    }))
    .ok()
    .flatten()
}

pub fn gen_case(seed: u64, region: &str) -> Vec<String> {
    let mut rng = Rng::new(seed);
    let finding = region != "valid";
    let uni_a: Vec<Address> = (1..=5u64).map(|i| addr(U256::from(0xa0 + i))).collect();
    let uni_s: Vec<U256> = vec![U256::ZERO, U256::from(1), U256::from(2)];
    let sc = rng.chance(1, 2);
    let bu = rng.chance(2, 3);
    let known = rng.chance(1, 2);
    let db = gen_db(&mut rng, &uni_a, &uni_s, finding, false);
    // earlier history -> bundle
    let n1 = 4 + rng.below(14) as usize;
    let ops1 = gen_ops(&mut rng, finding, sc, &db, &uni_a, &uni_s, n1);
    let Some(mut bundle) = bundle_of_history(&mut rng, &db, sc, &ops1, &uni_a, &uni_s) else { return vec![] };
    if region == "malformed" {
        // statuses that no history produces: the status machine's panics must be predicted too
        let all = ["LNE", "L", "LE", "IMC", "C", "D", "DC", "DA"];
        let keys: std::collections::BTreeSet<Address> = bundle.state.keys().copied().collect();
        for a in keys {
            if rng.chance(1, 2) {
                let name: &str = *rng.pick(&all[..]);
                bundle.state.get_mut(&a).unwrap().status = parse_status(name).unwrap();
            }
        }
    }
    let d2 = apply_changeset(&db, &bundle, known);
    // subsequent history, generated against the merged state
    let n2 = 6 + rng.below(14) as usize;
    let mut lines = vec![format!(
        "begin prestate {} {} {} {} {} {}",
        b01(sc),
        b01(bu),
        b01(known),
        region,
        fmt_world(&uni_a, &uni_s, &db),
        fmt_bundle(&bundle)
    )];
    lines.push("probe".into());
    lines.extend(gen_ops(&mut rng, finding, sc, &d2, &uni_a, &uni_s, n2));
    lines.push("post".into());
    lines
}

pub fn witness_lines() -> Vec<String> {
    let ke = hx(hash_u(KECCAK_EMPTY));
    vec![
        // bundle of C15's witness (A): left reads slot 1 as 0, right as 9
        format!("begin prestate 1 0 1 finding U 1 a1 S 1 1 DB 1 a1 0 0 {ke} none 1 1 9 CODES 0 BUNDLE 1 a1 IMC i:5:0:{ke}:none i:0:0:{ke}:- 0 BCODES 0"),
        "basic a1".into(),
        "storage a1 1".into(),
    ]
}

/// boundary stream: EVERY (status, account shape, event, state-clear) combination of the status
/// machine, reached by preloading a bundle account with that status (statuses no history produces
/// included: the panics of the `unreachable!` arms must be predicted by the model)
pub fn status_event_table() -> Vec<String> {
    let ke = hx(hash_u(KECCAK_EMPTY));
    let mut lines = vec![];
    for sc in [0, 1] {
        for status in ["LNE", "L", "LE", "IMC", "C", "D", "DC", "DA"] {
            for info in ["none".to_string(), format!("i:0:0:{ke}:-"), format!("i:7:1:{ke}:none"), format!("i:7:0:{ke}:none")] {
                let events = [
                    format!("commit 1 a1 5 0 1 {ke} none 0"),
                    format!("commit 1 a1 3 0 1 {ke} - 1 0 0 9"),
                    format!("commit 1 a1 1 0 0 {ke} - 0"),
                    format!("commit 1 a1 1 0 0 {ke} none 1 1 5 6"),
                    format!("commit 1 a1 1 5 1 {ke} none 1 1 5 6"),
                    "inc 1 a1 3".to_string(),
                    "drain 1 a1".to_string(),
                ];
                for ev in events {
                    lines.push(format!(
                        "begin prestate {sc} 1 0 malformed U 1 a1 S 2 0 1 DB 1 a1 1 1 {ke} none 1 0 7 CODES 0 BUNDLE 1 a1 {status} {info} none 1 1 0 5 BCODES 0"
                    ));
                    lines.push("basic a1".into());
                    lines.push("storage a1 0".into());
                    lines.push("storage a1 1".into());
                    lines.push(ev);
                    lines.push("probe".into());
                }
            }
        }
    }
    lines
}

pub fn run(seed: u64, n: usize, replay: Option<Vec<String>>, out: &mut Out) {
    if let Some(lines) = replay {
        exec_lines(&lines, out);
        return;
    }
    let mut rng = Rng::new(seed ^ 0xc19);
    let mut lines: Vec<String> = witness_lines();
    // the real code does produce the witness bundle: C15's witness (A) run with bundle update
    {
        let w = crate::c15::witness_lines();
        let hdr = parse_begin(&w[0]).unwrap();
        let mut c = Case::new(Header { bu: true, ..hdr });
        for l in &w[1..3] {
            c.exec(l);
        }
        let st = c.st.as_mut().unwrap();
        st.merge_transitions(BundleRetention::Reverts);
        let b = st.take_bundle();
        let produced = format!("begin prestate 1 0 1 finding {} {}", fmt_world(&c.h.uni_a, &c.h.uni_s, &c.h.db), fmt_bundle(&b));
        out.dist.insert("witness_bundle_is_produced_by_real_history".into(), (produced == lines[0]) as u64);
    }
    let tbl = status_event_table();
    out.dist.insert("status_event_table_cases".into(), (tbl.len() / 6) as u64);
    lines.extend(tbl);
    let cases = n.max(10);
    for i in 0..cases {
        let s = rng.next();
        let region = if i % 10 == 9 { "malformed" } else if i % 4 == 3 { "finding" } else { "valid" };
        let l = gen_case(s, region);
        if l.is_empty() {
            out.count("earlier_history_panicked");
            continue;
        }
        out.count(&format!("case_{region}"));
        lines.extend(l);
    }
    let lines = prefixed(lines, "pst");
    for l in &lines {
        let op = if l.starts_with("begin ") { "begin" } else { l.split(' ').nth(1).unwrap_or("") };
        out.count(&format!("op_{op}"));
    }
    exec_lines(&lines, out);
    for (k, pat) in [("reply_post_eq", "post=eq"), ("reply_post_ne", "post=ne"), ("reply_post_na", "post=na")] {
        let c = out.imp.iter().filter(|x| x.starts_with(pat)).count() as u64;
        out.dist.insert(k.into(), c);
    }
    let c = out.imp.iter().filter(|x| x.contains("panic")).count() as u64;
    out.dist.insert("reply_panic".into(), c);
}
