//! C24: alternative cryptographic back ends (secp256k1 <-> k256, c-kzg <-> kzg-rs).
//!
//! The SAME generator and executor are compiled into both harness variants (`default` = C secp256k1 +
//! c-kzg, `altcrypto` = k256 + kzg-rs).  `./check C24` generates the request file with the default
//! binary, replays the identical file with the altcrypto binary and diffs the replies line by line.
//!
//! request: `backend ecrecover <gas> <input hex> <claim>`
//!              claim = output bytes of the *generating* binary's back end (`-` = empty output,
//!              `x` = no output because the call failed with an error)
//!          `backend kzg <gas> <input hex> <claim>`
//!              claim = `1` proof verified, `0` proof rejected by the generating binary's library,
//!              `x` = the library was not reached (gas / length / versioned-hash gate)
//! reply:   `ok <gas_used> <output hex>` | `err <PrecompileError variant>` | `fatal` | `panic`
//!
//! The executor ignores the claim: the reply is what THIS binary's back end computes.  The Lean model
//! decides every gate of the wrappers (gas, padding, v, r/s range, r liftable to a curve point, length,
//! versioned hash, canonical field elements) by itself and takes the claim only for what is a
//! parameter of the model (the group arithmetic / the pairing check).
use crate::*;
use revm::precompile::{kzg_point_evaluation, secp256k1};
use revm::primitives::{Bytes, Env, PrecompileError, PrecompileErrors, PrecompileResult, U256};

fn unhex(s: &str) -> Option<Vec<u8>> {
    if s == "-" {
        return Some(vec![]);
    }
    if s.len() % 2 != 0 {
        return None;
    }
    let d = |c: u8| -> Option<u8> {
        match c {
            b'0'..=b'9' => Some(c - b'0'),
            b'a'..=b'f' => Some(c - b'a' + 10),
            b'A'..=b'F' => Some(c - b'A' + 10),
            _ => None,
        }
    };
    let b = s.as_bytes();
    let mut v = Vec::with_capacity(b.len() / 2);
    for i in (0..b.len()).step_by(2) {
        v.push(d(b[i])? * 16 + d(b[i + 1])?);
    }
    Some(v)
}

fn fmt_result(r: PrecompileResult) -> String {
    match r {
        Ok(o) => format!("ok {} {}", o.gas_used, hxb(&o.bytes)),
        Err(PrecompileErrors::Error(e)) => match e {
            PrecompileError::Other(_) => "err Other".to_string(),
            e => format!("err {:?}", e),
        },
        Err(PrecompileErrors::Fatal { .. }) => "fatal".to_string(),
    }
}

pub fn run_ecrecover(gas: u64, input: &[u8]) -> String {
    let input = Bytes::copy_from_slice(input);
    guarded(move || fmt_result(secp256k1::ec_recover_run(&input, gas)))
}

pub fn run_kzg(gas: u64, input: &[u8]) -> String {
    let input = Bytes::copy_from_slice(input);
    guarded(move || {
        let env = Env::default();
        fmt_result(kzg_point_evaluation::run(&input, gas, &env))
    })
}

pub fn exec_line(line: &str) -> String {
    let t: Vec<&str> = line.split(' ').collect();
    if t.len() != 5 || t[0] != "backend" {
        return "bad-op".into();
    }
    let Ok(gas) = t[2].parse::<u64>() else { return "bad-op".into() };
    let Some(input) = unhex(t[3]) else { return "bad-op".into() };
    match t[1] {
        "ecrecover" => run_ecrecover(gas, &input),
        "kzg" => run_kzg(gas, &input),
        _ => "bad-op".into(),
    }
}

// ------------------------------------------------------------------ constants
fn w(s: &str) -> U256 {
    U256::from_str_radix(s, 16).unwrap()
}
/// group order of secp256k1
pub fn secp_n() -> U256 {
    w("fffffffffffffffffffffffffffffffebaaedce6af48a03bbfd25e8cd0364141")
}
/// field prime of secp256k1
pub fn secp_p() -> U256 {
    w("fffffffffffffffffffffffffffffffffffffffffffffffffffffffefffffc2f")
}
/// x coordinate of the generator G (its y is even) and of 2G (its y is even as well)
pub fn secp_gx() -> U256 {
    w("79be667ef9dcbbac55a06295ce870b07029bfcdb2dce28d959f2815b16f81798")
}
pub fn secp_2gx() -> U256 {
    w("c6047f9441ed7d6d3045406e95c07cd85c778e4b8cef3ca7abac09b95c709ee5")
}
/// BLS12-381 scalar field modulus
pub fn bls_r() -> U256 {
    w("73eda753299d7d483339d80809a1d80553bda402fffe5bfeffffffff00000001")
}

fn be32(x: U256) -> [u8; 32] {
    x.to_be_bytes::<32>()
}

fn ec_input(msg: U256, v: &[u8; 32], r: U256, s: U256) -> Vec<u8> {
    let mut i = Vec::with_capacity(128);
    i.extend_from_slice(&be32(msg));
    i.extend_from_slice(v);
    i.extend_from_slice(&be32(r));
    i.extend_from_slice(&be32(s));
    i
}
fn vword(v: u8) -> [u8; 32] {
    let mut a = [0u8; 32];
    a[31] = v;
    a
}

fn ec_line(gas: u64, input: &[u8]) -> String {
    let rep = run_ecrecover(gas, input);
    let claim = match rep.strip_prefix("ok ") {
        Some(rest) => rest.split(' ').nth(1).unwrap_or("x").to_string(),
        None => "x".to_string(),
    };
    format!("backend ecrecover {} {} {}", gas, hxb(input), claim)
}
fn kzg_line(gas: u64, input: &[u8]) -> String {
    let rep = run_kzg(gas, input);
    let claim = if rep.starts_with("ok ") {
        "1"
    } else if rep == "err BlobVerifyKzgProofFailed" {
        "0"
    } else {
        "x"
    };
    format!("backend kzg {} {} {}", gas, hxb(input), claim)
}

// ------------------------------------------------------------------ KZG building blocks
const G1_GEN: &str = "97f1d3a73197d7942695638c4fa9ac0fc3688c4f9774b905a14e3a3f171bac586c55e83ff97a1aeffb3af00adb22c6bb";
const TEST_COMMITMENT: &str = "8f59a8d2a1a625a17f3fea0fe5eb8c896db3764f3185481bc22f91b4aaffcca25f26936857bc3a7c2539ea8ec3a952b7";
const TEST_Z: &str = "73eda753299d7d483339d80809a1d80553bda402fffe5bfeffffffff00000000";
const TEST_Y: &str = "1522a4a7f34e1ea350ae07c29c96c7e79655aa926122e95fe69fcbd932ca49e9";
const TEST_PROOF: &str = "a62ad71d14c5719385c0686f1871430475bf3a00f0aa3f7b8dd99a9abc2160744faf0070725e00b60ad9a026a15b1a8c";

fn g1_inf() -> Vec<u8> {
    let mut v = vec![0u8; 48];
    v[0] = 0xc0;
    v
}
fn g1_gen() -> Vec<u8> {
    unhex(G1_GEN).unwrap()
}
fn g1_neg_gen() -> Vec<u8> {
    let mut v = g1_gen();
    v[0] ^= 0x20; // flip the sign bit of the compressed encoding
    v
}

/// input with the versioned hash computed from the commitment (so that the library is reached)
fn kzg_input(commitment: &[u8], z: &[u8], y: &[u8], proof: &[u8]) -> Vec<u8> {
    let vh = kzg_point_evaluation::kzg_to_versioned_hash(commitment);
    [&vh[..], z, y, commitment, proof].concat()
}

/// (commitment, z, y, proof) quadruples that are true openings, constructible without a prover:
/// the vector shipped in the repo's test, and constant polynomials c in {0, 1, -1} (commitment c*G1,
/// value c at every z, quotient polynomial 0 so the proof is the point at infinity).
fn valid_openings(rng: &mut Rng) -> Vec<(Vec<u8>, Vec<u8>, Vec<u8>, Vec<u8>)> {
    let r = bls_r();
    let mut zs: Vec<U256> = vec![U256::ZERO, U256::from(1), r - U256::from(1), U256::from(2)];
    for _ in 0..2 {
        zs.push(rng.u256() % r);
    }
    let mut v = vec![(
        unhex(TEST_COMMITMENT).unwrap(),
        unhex(TEST_Z).unwrap(),
        unhex(TEST_Y).unwrap(),
        unhex(TEST_PROOF).unwrap(),
    )];
    for z in zs {
        v.push((g1_inf(), be32(z).to_vec(), be32(U256::ZERO).to_vec(), g1_inf()));
        v.push((g1_gen(), be32(z).to_vec(), be32(U256::from(1)).to_vec(), g1_inf()));
        v.push((g1_neg_gen(), be32(z).to_vec(), be32(r - U256::from(1)).to_vec(), g1_inf()));
    }
    v
}

/// 48-byte strings that exercise the G1 decoding rules of both libraries
fn g1_oddities(rng: &mut Rng) -> Vec<Vec<u8>> {
    let mut v: Vec<Vec<u8>> = vec![];
    v.push(vec![0u8; 48]); // compression flag not set
    v.push(vec![0xffu8; 48]);
    let mut a = g1_inf();
    a[47] = 1; // infinity flag with a non-zero x
    v.push(a);
    let mut a = g1_inf();
    a[0] = 0xe0; // infinity flag with the sign bit
    v.push(a);
    let mut a = g1_inf();
    a[0] = 0x40; // infinity flag without the compression flag
    v.push(a);
    let mut a = g1_gen();
    a[0] &= 0x7f; // generator's x without the compression flag
    v.push(a);
    // x = p (the base field modulus), x = p + 1 with the compression flag: not canonical
    let p = unhex("1a0111ea397fe69a4b1ba7b6434bacd764774b84f38512bf6730d2a0f6b0f6241eabfffeb153ffffb9feffffffffaaab").unwrap();
    let mut a = p.clone();
    a[0] |= 0x80;
    v.push(a.clone());
    a[47] += 1;
    v.push(a);
    // x = 0 and small x values with the compression flag (on the curve or not, never in the subgroup
    // unless it is the point of a tiny-order cofactor component)
    for x in 0u8..6 {
        let mut a = vec![0u8; 48];
        a[0] = 0x80;
        a[47] = x;
        v.push(a.clone());
        a[0] = 0xa0;
        v.push(a);
    }
    // random x below p with the compression flag: on the curve with probability 1/2, then outside the
    // prime-order subgroup with overwhelming probability
    for _ in 0..6 {
        let mut a = rng.bytes(48);
        a[0] = 0x80 | (a[0] & 0x20) | ((a[0] & 0x1f) % 0x1a);
        v.push(a);
    }
    v
}

// ------------------------------------------------------------------ generator
pub fn gen(seed: u64, n: usize) -> Vec<String> {
    // the two variants draw different inputs in their own streams; the cross run replays one file
    let variant_salt: u64 = if cfg!(feature = "altcrypto") { 0xA17C0000 } else { 0 };
    let mut rng = Rng::new(seed ^ 0xC24 ^ variant_salt);
    let mut lines: Vec<String> = Vec::new();
    let nn = secp_n();
    let p = secp_p();
    let one = U256::from(1);
    let half = nn >> 1;
    let big = 100_000u64;

    // ---- ecrecover, stream 1 (boundary): complete cross product of r and s boundary values
    let rs_bound: Vec<U256> = vec![
        U256::ZERO, one, U256::from(2), half - one, half, half + one, half + U256::from(2),
        nn - U256::from(2), nn - one, nn, nn + one, p - one, p, p + one, U256::MAX,
        secp_gx(), secp_2gx(),
    ];
    let msgs_bound: Vec<U256> = vec![U256::ZERO, one, nn - one, nn, nn + one, U256::MAX];
    for r in &rs_bound {
        for s in &rs_bound {
            for v in [27u8, 28] {
                let m = if rng.chance(1, 2) { rng.u256() } else { *rng.pick(&msgs_bound) };
                lines.push(ec_line(big, &ec_input(m, &vword(v), *r, *s)));
            }
        }
    }
    // ---- stream 2 (structured): random (msg, r, s); about half of all r lift to a curve point, and
    // every recoverable (r, s) is a valid signature of msg under the recovered key; low and high s;
    // each followed (1 in 4) by its malleated twin (r, n-s, v xor 1) which must recover the same address
    for _ in 0..n {
        let m = rng.u256();
        let r = if rng.chance(1, 8) { *rng.pick(&rs_bound) } else { rng.u256() % nn };
        let s = match rng.below(8) {
            0 => *rng.pick(&rs_bound),
            1 => one + rng.u256() % half,           // low
            2 => half + one + rng.u256() % half,    // high
            _ => rng.u256() % nn,
        };
        let v = 27 + rng.below(2) as u8;
        lines.push(ec_line(big, &ec_input(m, &vword(v), r, s)));
        if rng.chance(1, 4) && s > U256::ZERO && s < nn {
            lines.push(ec_line(big, &ec_input(m, &vword(v ^ 7), r, nn - s))); // 27 ^ 7 = 28
        }
    }
    // ---- stream 3 (special): the recovered key is the point at infinity.
    // Q = r^-1 (s R - z G); with R = G (r = Gx, v = 27, Gy even) and s = z: Q = 0; with R = -G
    // (v = 28) and s = n - z: Q = 0; with R = 2G (v = 27) and s = z / 2 mod n.
    let inv2 = (nn + one) >> 1;
    for _ in 0..(8 + n / 100) {
        let m = rng.u256();
        let z = m % nn;
        if z.is_zero() {
            continue;
        }
        lines.push(ec_line(big, &ec_input(m, &vword(27), secp_gx(), z)));
        lines.push(ec_line(big, &ec_input(m, &vword(28), secp_gx(), nn - z)));
        lines.push(ec_line(big, &ec_input(m, &vword(28), secp_gx(), z)));
        lines.push(ec_line(big, &ec_input(m, &vword(27), secp_gx(), nn - z)));
        let s2 = z.mul_mod(inv2, nn);
        lines.push(ec_line(big, &ec_input(m, &vword(27), secp_2gx(), s2)));
        lines.push(ec_line(big, &ec_input(m, &vword(28), secp_2gx(), nn - s2)));
        lines.push(ec_line(big, &ec_input(m, &vword(28), secp_2gx(), s2)));
    }
    // ---- stream 4 (malformed): v word, padding bytes, lengths, gas
    for _ in 0..(40 + n / 20) {
        let m = rng.u256();
        let r = rng.u256() % nn;
        let s = rng.u256() % nn;
        let mut v = vword(27 + rng.below(2) as u8);
        match rng.below(6) {
            0 => v[31] = *rng.pick(&[0u8, 1, 2, 26, 29, 30, 255, 27 + 128]),
            1 => {
                let i = rng.below(31) as usize;
                v[i] = 1 + rng.below(255) as u8; // non-zero padding byte
            }
            2 => {
                v[30] = 1; // v = 27 + 256
            }
            3 => {
                v[0] = 0x80;
            }
            4 => {
                v = [0xff; 32];
            }
            _ => {
                v[31] = rng.next() as u8;
            }
        }
        lines.push(ec_line(big, &ec_input(m, &v, r, s)));
    }
    for _ in 0..(20 + n / 50) {
        // lengths: shorter inputs are right-padded with zeros, longer ones are cut at 128
        let m = rng.u256();
        let full = ec_input(m, &vword(27 + rng.below(2) as u8), rng.u256() % nn, rng.u256() % nn);
        let len = match rng.below(5) {
            0 => 0,
            1 => rng.range(1, 127) as usize,
            2 => 127,
            3 => *rng.pick(&[63usize, 64, 65, 95, 96, 97]),
            _ => 128 + rng.range(1, 64) as usize,
        };
        let mut inp = full.clone();
        if len <= 128 {
            inp.truncate(len);
        } else {
            inp.extend(rng.bytes(len - 128));
        }
        lines.push(ec_line(big, &inp));
        let gas = *rng.pick(&[0u64, 2999, 3000, 3001, u64::MAX]);
        lines.push(ec_line(gas, &full));
    }

    // ---- KZG
    let nk = 1 + n / 400; // rounds of the randomised part
    let r = bls_r();
    let vals = valid_openings(&mut rng);
    // stream 1: true openings
    for (c, z, y, pf) in &vals {
        lines.push(kzg_line(big, &kzg_input(c, z, y, pf)));
    }
    // stream 2: each true opening corrupted in one field; field elements not canonical
    let noncanon: Vec<U256> = vec![r, r + one, r + U256::from(2), U256::MAX, one << 255];
    let odd = g1_oddities(&mut rng);
    for round in 0..nk {
        for (idx, (c, z, y, pf)) in vals.iter().enumerate() {
            if round > 0 && idx % 3 != (round % 3) {
                continue;
            }
            let zv = U256::from_be_slice(z);
            let yv = U256::from_be_slice(y);
            // wrong value / wrong point (still canonical)
            lines.push(kzg_line(big, &kzg_input(c, z, &be32((yv + one) % r), pf)));
            lines.push(kzg_line(big, &kzg_input(c, &be32((zv + one) % r), y, pf)));
            lines.push(kzg_line(big, &kzg_input(c, z, &be32(rng.u256() % r), pf)));
            // the same residue, not canonical: z + r, y + r (fits in 256 bits since r < 2^255)
            lines.push(kzg_line(big, &kzg_input(c, &be32(zv + r), y, pf)));
            lines.push(kzg_line(big, &kzg_input(c, z, &be32(yv + r), pf)));
            let nc = *rng.pick(&noncanon);
            lines.push(kzg_line(big, &kzg_input(c, &be32(nc), y, pf)));
            lines.push(kzg_line(big, &kzg_input(c, z, &be32(nc), pf)));
            // proof replaced by another valid group element / by a malformed encoding / one bit flipped
            lines.push(kzg_line(big, &kzg_input(c, z, y, &g1_gen())));
            lines.push(kzg_line(big, &kzg_input(c, z, y, c)));
            let o: Vec<u8> = rng.pick(&odd[..]).clone();
            lines.push(kzg_line(big, &kzg_input(c, z, y, &o)));
            let mut pf2 = pf.clone();
            pf2[rng.below(48) as usize] ^= 1 << rng.below(8);
            lines.push(kzg_line(big, &kzg_input(c, z, y, &pf2)));
            // commitment replaced (versioned hash recomputed, so the library sees it)
            let o: Vec<u8> = rng.pick(&odd[..]).clone();
            lines.push(kzg_line(big, &kzg_input(&o, z, y, pf)));
            let mut c2 = c.clone();
            c2[rng.below(48) as usize] ^= 1 << rng.below(8);
            lines.push(kzg_line(big, &kzg_input(&c2, z, y, pf)));
            // wrong versioned hash: version byte, one bit, plain sha256
            let good = kzg_input(c, z, y, pf);
            let mut b = good.clone();
            b[0] = *rng.pick(&[0u8, 2, 0xff]);
            lines.push(kzg_line(big, &b));
            let mut b = good.clone();
            b[1 + rng.below(31) as usize] ^= 1 << rng.below(8);
            lines.push(kzg_line(big, &b));
            // lengths and gas
            let mut b = good.clone();
            match rng.below(4) {
                0 => b.truncate(191),
                1 => b.push(0),
                2 => b.truncate(rng.below(191) as usize),
                _ => {
                    let k = 1 + rng.below(64) as usize;
                    b.extend(rng.bytes(k))
                }
            }
            lines.push(kzg_line(big, &b));
            lines.push(kzg_line(*rng.pick(&[0u64, 49_999, 50_000, 50_001]), &good));
        }
    }
    // stream 3: every odd encoding as commitment and as proof once
    for o in &odd {
        lines.push(kzg_line(big, &kzg_input(o, &be32(one), &be32(one), &g1_inf())));
        lines.push(kzg_line(big, &kzg_input(&g1_gen(), &be32(one), &be32(one), o)));
    }
    // stream 4: random 192 bytes (fails at the versioned hash with overwhelming probability)
    for _ in 0..(4 + n / 200) {
        lines.push(kzg_line(big, &rng.bytes(192)));
    }
    lines
}

pub fn run(seed: u64, n: usize, replay: Option<Vec<String>>, out: &mut Out) {
    let lines = replay.unwrap_or_else(|| gen(seed, n));
    for l in lines {
        let r = exec_line(&l);
        let op = l.split(' ').nth(1).unwrap_or("?").to_string();
        let class = if r.starts_with("ok ") {
            match r.rsplit(' ').next() {
                Some("-") => "ok-empty",
                _ => "ok-output",
            }
            .to_string()
        } else {
            r.replace(' ', "-")
        };
        out.count(&format!("{op}:{class}"));
        // shape of the input (what the generator achieved)
        if let Some(inp) = l.split(' ').nth(3).and_then(unhex) {
            if op == "ecrecover" {
                let len = inp.len();
                out.count(match len { 128 => "ec.len:128", 0..=127 => "ec.len:<128", _ => "ec.len:>128" });
                if len >= 128 {
                    let (nn, half) = (secp_n(), secp_n() >> 1);
                    let r = U256::from_be_slice(&inp[64..96]);
                    let s = U256::from_be_slice(&inp[96..128]);
                    let vok = inp[32..63].iter().all(|&b| b == 0) && (inp[63] == 27 || inp[63] == 28);
                    out.count(if vok { "ec.v:27|28" } else { "ec.v:rejected" });
                    out.count(if r.is_zero() { "ec.r:0" } else if r >= nn { "ec.r:>=n" } else { "ec.r:in-range" });
                    out.count(if s.is_zero() { "ec.s:0" } else if s >= nn { "ec.s:>=n" } else if s > half { "ec.s:high" } else { "ec.s:low" });
                }
            } else if op == "kzg" {
                out.count(if inp.len() == 192 { "kzg.len:192" } else { "kzg.len:other" });
                if inp.len() == 192 {
                    let (z, y) = (U256::from_be_slice(&inp[32..64]), U256::from_be_slice(&inp[64..96]));
                    out.count(if z >= bls_r() || y >= bls_r() { "kzg.scalars:non-canonical" } else { "kzg.scalars:canonical" });
                }
            }
        }
        out.push(l, r);
    }
}
