//! C07: frames are depth-neutral; exactly 1024 levels below the transaction frame are reachable.
//!
//! REAL transactions (Evm::builder()…transact() with `inspector_handle_register`) whose programs
//! perform long random sequences of succeeding / reverting / halting calls and creates (value-transfer
//! failure, precompile OOG / error, empty accounts, CREATE / CREATE2 collisions, insufficient balance,
//! nonce overflow, deposit failure, EF / oversize code; under OSAKA EXTCALL / EXTDELEGATECALL /
//! EXTSTATICCALL / EOFCREATE from valid EOF containers, EXTDELEGATECALL to legacy targets, EOF create
//! transactions) and then recurse to the depth limit through a self-calling probe contract that returns the
//! deepest level reached. An `Inspector` records `journaled_state.depth()` at every call / create /
//! eofcreate, at `initialize_interp` (frame opened) and at every `*_end`.
//!
//! Protocol (a case = one transaction; the executor is a pure function of the `begin` line, the event
//! lines after it are REGENERATED from the recorded trace - on replay too):
//!   `begin frame <spec_u8> <txkind call|create|eoftx|eofbad> <seed> <nscen> <launch_level>`      -> `ok` | `bad-op`
//!   `frame call <ext 0|1> <t|a> <value> <caller> <target> <bytecode_addr> <caller_bal> <target_bal> <pc n|ok|oog|err> <code e|f|l> <delegate|->`
//!   `frame create <value> <caller> <caller_bal> <caller_nonce> <ef00 0|1> <created> <is_pc 0|1> <has_storage 0|1> <t_bal> <t_nonce> <t_codehash>`
//!   `frame eofcreate <o|t> <decodes> <validates> <value> <caller> <caller_bal> <caller_nonce> <created> <is_pc> <has_storage> <t_bal> <t_nonce> <t_codehash>`
//!        -> `res <class> d=<before>><after>`  (immediate result; class = ok | toodeep | valuefail | precompilefail |
//!           collision | rejected | other: the outcome classes the property names, not the exact error kind)  |  `frame d=<before>><after>`
//!   `frame ret <ok 0|1> <first_ef> <len_over> <deposit_ok> <is_return_contract> <codehash>`
//!        -> `ret <c|k|e> <ok|fail> d=<before>><after> neutral=<0|1>`   (neutral: depth after the end == depth at the matching begin)
//!   `frame probe <launch_level>` -> `<deepest level reported by the probe>`   (call transactions only)
//!   `frame end` -> `depth=<depth seen at the last hook> open=<frames still open>`
//! Every request field is an observation made by the inspector on the real EVM (inputs of the action,
//! balances / nonces / code class at that moment, precompile lookup, the interpreter's result class); the
//! replies carry only depths and result classes.
use crate::c20::MapDb;
use crate::*;
use revm::interpreter::analysis::{validate_eof, validate_eof_inner, CodeType};
use revm::interpreter::{
    opcode, CallInputs, CallOutcome, CallValue, CreateInputs, CreateOutcome, EOFCreateInputs, EOFCreateKind,
    InstructionResult, Interpreter, InterpreterAction,
};
use revm::primitives::eof::{EofBody, TypesSection};
use revm::primitives::{
    keccak256, AccountInfo, Address, Bytecode, Bytes, CreateScheme, Eof, ExecutionResult, Output, SpecId, TxKind, B256,
    KECCAK_EMPTY, U256,
};
use revm::{inspector_handle_register, Database, Evm, EvmContext, Inspector};

const TX_GAS: u64 = 1 << 62;
const MAX_CODE: usize = 0x6000;

// ------------------------------------------------------------------ inspector
#[derive(Clone, Debug)]
enum Ev {
    /// a call / create / eofcreate: request text, depth before, index patched when resolved
    Begin { req: String, d0: u64, pcflag: bool, ext: bool, opened: Option<u64>, imm: Option<(InstructionResult, u64)>, kind: char },
    /// end of an opened frame
    End { kind: char, req: String, class: String, dbefore: u64, dafter: u64, neutral: bool },
}

struct Rec {
    evs: Vec<Ev>,
    open: Vec<usize>,
    last_depth: u64,
    last_res: InstructionResult,
    last_out_len: usize,
    pre: MapDb,
    spec: SpecId,
}

fn acct_of<DB: Database>(c: &mut EvmContext<DB>, pre: &MapDb, a: Address) -> (U256, u64, B256, Option<Bytecode>) {
    if let Some(acc) = c.journaled_state.state.get(&a) {
        let code = match &acc.info.code {
            Some(b) => Some(b.clone()),
            None => pre.codes.get(&acc.info.code_hash).cloned(),
        };
        return (acc.info.balance, acc.info.nonce, acc.info.code_hash, code);
    }
    match pre.accts.get(&a) {
        Some(i) => (i.balance, i.nonce, i.code_hash, i.code.clone().or_else(|| pre.codes.get(&i.code_hash).cloned())),
        None => (U256::ZERO, 0, KECCAK_EMPTY, None),
    }
}

fn ha(a: Address) -> String {
    hx(U256::from_be_slice(a.as_slice()))
}

impl Rec {
    fn see(&mut self, d: u64) {
        self.last_depth = d;
    }
    fn finish_begin(&mut self, idx: usize, res: InstructionResult, dnow: u64) -> bool {
        // returns true when the begin was an immediate result
        if let Ev::Begin { opened, imm, .. } = &mut self.evs[idx] {
            if opened.is_none() {
                *imm = Some((res, dnow));
                return true;
            }
        }
        false
    }
    fn begin_depth(&self, idx: usize) -> u64 {
        match &self.evs[idx] {
            Ev::Begin { d0, .. } => *d0,
            _ => u64::MAX,
        }
    }
    fn end_common(&mut self, kind: char, res: InstructionResult, out_len: usize, first_ef: bool, dnow: u64) {
        let Some(idx) = self.open.pop() else { return };
        if self.finish_begin(idx, res, dnow) {
            self.see(dnow);
            return;
        }
        let d0 = self.begin_depth(idx);
        let lr = self.last_res;
        let (ok, dep_ok, is_rc, class) = match kind {
            'c' => (res.is_ok(), true, false, if res.is_ok() { "ok" } else { "fail" }.to_string()),
            'k' => {
                let interp_ok = lr.is_ok();
                let frontier_dep = res == InstructionResult::Return && self.last_out_len > 0 && out_len == 0;
                let dep_fail = (interp_ok && res == InstructionResult::OutOfGas) || frontier_dep;
                let class = match res {
                    InstructionResult::Return => "ret",
                    InstructionResult::CreateContractStartingWithEF => "ef",
                    InstructionResult::CreateContractSizeLimit => "size",
                    InstructionResult::OutOfGas if dep_fail => "oog",
                    _ => "fail",
                };
                (interp_ok, !dep_fail, false, class.to_string())
            }
            _ => {
                let is_rc = lr == InstructionResult::ReturnContract;
                let dep_fail = is_rc && res == InstructionResult::OutOfGas;
                let class = match res {
                    InstructionResult::ReturnContract => "retc",
                    InstructionResult::CreateContractSizeLimit => "size",
                    InstructionResult::OutOfGas if dep_fail => "oog",
                    _ => "fail",
                };
                (is_rc, !dep_fail, is_rc, class.to_string())
            }
        };
        let len_over = if kind == 'k' && self.last_out_len > 0 && out_len == 0 { self.last_out_len > MAX_CODE } else { out_len > MAX_CODE };
        let req = format!("frame ret {} {} {} {} {} 7", b01(ok), b01(first_ef), b01(len_over), b01(dep_ok), b01(is_rc));
        let dbefore = self.last_depth;
        self.evs.push(Ev::End { kind, req, class, dbefore, dafter: dnow, neutral: dnow == d0 });
        self.see(dnow);
    }
}

fn code_class(code: &Option<Bytecode>) -> (char, Option<Address>) {
    match code {
        None => ('e', None),
        Some(b) => {
            if let Bytecode::Eip7702(d) = b {
                return ('l', Some(d.address()));
            }
            if b.is_empty() {
                ('e', None)
            } else if b.bytes_slice().starts_with(&[0xEF, 0x00]) {
                ('f', None)
            } else {
                ('l', None)
            }
        }
    }
}

impl<DB: Database> Inspector<DB> for Rec {
    fn initialize_interp(&mut self, _i: &mut Interpreter, c: &mut EvmContext<DB>) {
        let d = c.journaled_state.depth();
        if let Some(&idx) = self.open.last() {
            if let Ev::Begin { opened, .. } = &mut self.evs[idx] {
                *opened = Some(d);
            }
        }
        self.last_res = InstructionResult::Stop;
        self.last_out_len = 0;
        self.see(d);
    }
    fn step_end(&mut self, i: &mut Interpreter, c: &mut EvmContext<DB>) {
        self.last_depth = c.journaled_state.depth();
        let r = i.instruction_result;
        if r != InstructionResult::Continue && r != InstructionResult::CallOrCreate {
            self.last_res = r;
            self.last_out_len = match &i.next_action {
                InterpreterAction::Return { result } => result.output.len(),
                _ => 0,
            };
        }
    }
    fn call(&mut self, c: &mut EvmContext<DB>, i: &mut CallInputs) -> Option<CallOutcome> {
        let d0 = c.journaled_state.depth();
        let pre = std::mem::take(&mut self.pre);
        let (cb, _, _, _) = acct_of(c, &pre, i.caller);
        let (tb, _, _, _) = acct_of(c, &pre, i.target_address);
        let (_, _, _, code) = acct_of(c, &pre, i.bytecode_address);
        self.pre = pre;
        let (cc, deleg) = code_class(&code);
        let ext = i.scheme.is_ext_delegate_call();
        let (vk, v) = match i.value {
            CallValue::Transfer(v) => ('t', v),
            CallValue::Apparent(v) => ('a', v),
        };
        let pcflag = c.precompiles.contains(&i.bytecode_address);
        let req = format!(
            "frame call {} {} {} {} {} {} {} {} @PC@ {} {}",
            b01(ext),
            vk,
            hx(v),
            ha(i.caller),
            ha(i.target_address),
            ha(i.bytecode_address),
            hx(cb),
            hx(tb),
            cc,
            deleg.map(ha).unwrap_or("-".into())
        );
        self.open.push(self.evs.len());
        self.evs.push(Ev::Begin { req, d0, pcflag, ext, opened: None, imm: None, kind: 'c' });
        self.see(d0);
        None
    }
    fn call_end(&mut self, c: &mut EvmContext<DB>, _i: &CallInputs, o: CallOutcome) -> CallOutcome {
        let d = c.journaled_state.depth();
        self.end_common('c', o.result.result, o.result.output.len(), false, d);
        o
    }
    fn create(&mut self, c: &mut EvmContext<DB>, i: &mut CreateInputs) -> Option<CreateOutcome> {
        let d0 = c.journaled_state.depth();
        let pre = std::mem::take(&mut self.pre);
        let (cb, cn, _, _) = acct_of(c, &pre, i.caller);
        let created = match i.scheme {
            CreateScheme::Create => i.caller.create(cn),
            CreateScheme::Create2 { salt } => i.caller.create2(salt.to_be_bytes::<32>(), keccak256(&i.init_code)),
        };
        let (tb, tn, th, _) = acct_of(c, &pre, created);
        let hs = pre.slots.iter().any(|((x, _), v)| *x == created && !v.is_zero());
        self.pre = pre;
        let req = format!(
            "frame create {} {} {} {:x} {} {} {} {} {} {:x} {}",
            hx(i.value),
            ha(i.caller),
            hx(cb),
            cn,
            b01(i.init_code.starts_with(&[0xEF, 0x00])),
            ha(created),
            b01(c.precompiles.contains(&created)),
            b01(hs),
            hx(tb),
            tn,
            hx(U256::from_be_bytes(th.0))
        );
        self.open.push(self.evs.len());
        self.evs.push(Ev::Begin { req, d0, pcflag: false, ext: false, opened: None, imm: None, kind: 'k' });
        self.see(d0);
        None
    }
    fn create_end(&mut self, c: &mut EvmContext<DB>, _i: &CreateInputs, o: CreateOutcome) -> CreateOutcome {
        let d = c.journaled_state.depth();
        let first_ef = o.result.output.first() == Some(&0xEF);
        self.end_common('k', o.result.result, o.result.output.len(), first_ef, d);
        o
    }
    fn eofcreate(&mut self, c: &mut EvmContext<DB>, i: &mut EOFCreateInputs) -> Option<CreateOutcome> {
        let d0 = c.journaled_state.depth();
        let pre = std::mem::take(&mut self.pre);
        let (cb, cn, _, _) = acct_of(c, &pre, i.caller);
        let (kind, dec, val, created) = match &i.kind {
            EOFCreateKind::Opcode { created_address, .. } => ('o', true, true, *created_address),
            EOFCreateKind::Tx { initdata } => {
                let (dec, val) = match Eof::decode_dangling(initdata.clone()) {
                    Ok((eof, _)) => (true, validate_eof(&eof).is_ok()),
                    Err(_) => (false, false),
                };
                let a = match c.env.tx.nonce {
                    Some(n) => c.env.tx.caller.create(n),
                    None => i.caller.create(cn),
                };
                ('t', dec, val, a)
            }
        };
        let (tb, tn, th, _) = acct_of(c, &pre, created);
        let hs = pre.slots.iter().any(|((x, _), v)| *x == created && !v.is_zero());
        self.pre = pre;
        let req = format!(
            "frame eofcreate {} {} {} {} {} {} {:x} {} {} {} {} {:x} {}",
            kind,
            b01(dec),
            b01(val),
            hx(i.value),
            ha(i.caller),
            hx(cb),
            cn,
            ha(created),
            b01(c.precompiles.contains(&created)),
            b01(hs),
            hx(tb),
            tn,
            hx(U256::from_be_bytes(th.0))
        );
        self.open.push(self.evs.len());
        self.evs.push(Ev::Begin { req, d0, pcflag: false, ext: false, opened: None, imm: None, kind: 'e' });
        self.see(d0);
        None
    }
    fn eofcreate_end(&mut self, c: &mut EvmContext<DB>, _i: &EOFCreateInputs, o: CreateOutcome) -> CreateOutcome {
        let d = c.journaled_state.depth();
        self.end_common('e', o.result.result, o.result.output.len(), false, d);
        o
    }
}

// ------------------------------------------------------------------ assembler
#[derive(Default)]
struct Asm(Vec<u8>);
impl Asm {
    fn op(&mut self, b: u8) -> &mut Self {
        self.0.push(b);
        self
    }
    fn push(&mut self, v: U256) -> &mut Self {
        let bytes = v.to_be_bytes::<32>();
        let skip = bytes.iter().take_while(|b| **b == 0).count().min(31);
        let n = 32 - skip;
        self.0.push(0x5f + n as u8);
        self.0.extend_from_slice(&bytes[skip..]);
        self
    }
    fn pushn(&mut self, v: u64) -> &mut Self {
        self.push(U256::from(v))
    }
    fn push_addr(&mut self, a: Address) -> &mut Self {
        self.0.push(0x73);
        self.0.extend_from_slice(a.as_slice());
        self
    }
    /// CALL-family: `kind` is the opcode; leaves nothing on the stack
    fn call(&mut self, kind: u8, gas: u64, to: Address, value: U256, in_len: u64, out_len: u64) -> &mut Self {
        self.pushn(out_len).pushn(0).pushn(in_len).pushn(0);
        if kind == opcode::CALL || kind == opcode::CALLCODE {
            self.push(value);
        }
        self.push_addr(to).pushn(gas).op(kind).op(opcode::POP)
    }
    /// store `data` at memory 0.. (32-byte words)
    fn mstore_bytes(&mut self, data: &[u8]) -> &mut Self {
        for (i, ch) in data.chunks(32).enumerate() {
            let mut w = [0u8; 32];
            w[..ch.len()].copy_from_slice(ch);
            self.0.push(0x7f);
            self.0.extend_from_slice(&w);
            self.pushn(i as u64 * 32).op(opcode::MSTORE);
        }
        self
    }
    fn create(&mut self, init: &[u8], value: U256, salt: Option<u64>) -> &mut Self {
        self.mstore_bytes(init);
        if let Some(s) = salt {
            self.pushn(s);
        }
        self.pushn(init.len() as u64).pushn(0).push(value);
        self.op(if salt.is_some() { opcode::CREATE2 } else { opcode::CREATE }).op(opcode::POP)
    }
}

fn eof_container(code: Vec<u8>, max_stack: u16, subs: Vec<Bytes>) -> Bytes {
    let body = EofBody {
        types_section: vec![TypesSection::new(0, 0x80, max_stack)],
        code_section: vec![Bytes::from(code)],
        container_section: subs,
        data_section: Bytes::new(),
        is_data_filled: true,
    };
    body.into_eof().raw
}

// ------------------------------------------------------------------ world / program generator
struct World {
    db: MapDb,
    next: u64,
    spec: SpecId,
    rng: Rng,
    okc: Address,
    revc: Address,
    invc: Address,
    empty: Address,
    rich: Address,
    sdc: Address,
    maxn: Address,
    col: Address,
    dep: Address,
    xok: Address,
    xrev: Address,
    dlg: Address,
    dlg2: Address,
    bad_eof: bool,
}

impl World {
    fn en(&self, s: SpecId) -> bool {
        (self.spec as u8) >= (s as u8)
    }
    fn put(&mut self, a: Address, code: Option<Bytecode>, balance: U256, nonce: u64) {
        let (code_hash, code) = match code {
            Some(c) => {
                let h = c.hash_slow();
                self.db.codes.insert(h, c.clone());
                (h, Some(c))
            }
            None => (KECCAK_EMPTY, None),
        };
        self.db.accts.insert(a, AccountInfo { balance, nonce, code_hash, code });
    }
    fn fresh(&mut self) -> Address {
        self.next += 1;
        Address::from_word(B256::from(U256::from(0x100000u64 + self.next)))
    }
    fn deploy(&mut self, code: Vec<u8>, balance: u64) -> Address {
        let a = self.fresh();
        self.put(a, Some(Bytecode::new_legacy(Bytes::from(code))), U256::from(balance), 1);
        a
    }
    fn deploy_eof(&mut self, raw: Bytes, balance: u64) -> Address {
        let a = self.fresh();
        match Eof::decode(raw.clone()) {
            Ok(eof) => {
                if let Err(e) = validate_eof_inner(&eof, Some(CodeType::ReturnOrStop)) {
                    if std::env::var("C07_DEBUG").is_ok() {
                        eprintln!("invalid eof {:?}: {}", e, hxb(&raw));
                    }
                    self.bad_eof = true;
                }
                self.put(a, Some(Bytecode::Eof(std::sync::Arc::new(eof))), U256::from(balance), 1);
            }
            Err(e) => {
                if std::env::var("C07_DEBUG").is_ok() {
                    eprintln!("undecodable eof {:?}: {}", e, hxb(&raw));
                }
                self.bad_eof = true;
                self.put(a, None, U256::from(balance), 1);
            }
        }
        a
    }

    fn init_codes(&self) -> Vec<(&'static str, Vec<u8>)> {
        vec![
            ("ok", vec![0x60, 1, 0x60, 0, 0xf3]),
            ("rev", vec![0x60, 0, 0x60, 0, 0xfd]),
            ("inv", vec![0xfe]),
            ("ef", vec![0x60, 0xEF, 0x60, 0, 0x53, 0x60, 1, 0x60, 0, 0xf3]),
            ("big", vec![0x61, 0x60, 0x01, 0x60, 0, 0xf3]),
            ("ef00", vec![0xEF, 0x00, 0x01]),
            ("empty", vec![]),
            ("dep", vec![0x61, 0x01, 0x2c, 0x60, 0, 0xf3]),
        ]
    }

    fn setup(&mut self) {
        use opcode::*;
        let mut a = Asm::default();
        a.pushn(1).pushn(0).op(SSTORE).pushn(0).pushn(0).op(LOG0).op(STOP);
        self.okc = self.deploy(std::mem::take(&mut a.0), 0);
        a.pushn(2).pushn(0).op(SSTORE).pushn(0).pushn(0).op(REVERT);
        self.revc = self.deploy(std::mem::take(&mut a.0), 0);
        a.pushn(3).pushn(0).op(SSTORE).op(INVALID);
        self.invc = self.deploy(std::mem::take(&mut a.0), 0);
        self.empty = self.fresh();
        let e = self.empty;
        self.put(e, None, U256::from(1), 0);
        self.rich = self.fresh();
        let r = self.rich;
        self.put(r, None, U256::MAX, 0);
        a.push_addr(e).op(SELFDESTRUCT);
        self.sdc = self.deploy(std::mem::take(&mut a.0), 2);
        // creator whose nonce is u64::MAX
        a.create(&[0x60, 1, 0x60, 0, 0xf3], U256::ZERO, None).op(STOP);
        self.maxn = self.fresh();
        let m = self.maxn;
        self.put(m, Some(Bytecode::new_legacy(Bytes::from(std::mem::take(&mut a.0)))), U256::from(3), u64::MAX);
        // collider: its first two CREATEs hit occupied addresses (nonce / storage only)
        a.create(&[0x60, 1, 0x60, 0, 0xf3], U256::from(1), None).op(STOP);
        self.col = self.deploy(std::mem::take(&mut a.0), 1);
        let c1 = self.col.create(1);
        let c2 = self.col.create(2);
        let c3 = self.col.create(3);
        self.put(c1, None, U256::ZERO, 1);
        self.db.slots.insert((c2, U256::from(1)), U256::from(9));
        // third address: balance 2^256-1, the endowment overflows (OverflowPayment); 4th ok; 5th OutOfFunds
        self.put(c3, None, U256::MAX, 0);
        // creator of 300 bytes of code (called with little gas: the code deposit fails)
        a.create(&[0x61, 0x01, 0x2c, 0x60, 0, 0xf3], U256::ZERO, None).op(STOP);
        self.dep = self.deploy(std::mem::take(&mut a.0), 0);
        if self.en(SpecId::PRAGUE) {
            // EIP-7702 delegated accounts: to a contract, to an account without code
            self.dlg = self.fresh();
            let (d, o) = (self.dlg, self.okc);
            self.put(d, Some(Bytecode::new_eip7702(o)), U256::from(2), 1);
            self.dlg2 = self.fresh();
            let d = self.dlg2;
            self.put(d, Some(Bytecode::new_eip7702(e)), U256::from(2), 1);
        }
        if self.en(SpecId::OSAKA) {
            self.xok = self.deploy_eof(eof_container(vec![STOP], 0, vec![]), 0);
            self.xrev = self.deploy_eof(eof_container(vec![PUSH0, PUSH0, REVERT], 2, vec![]), 0);
        }
    }

    fn pick_value(&mut self) -> U256 {
        match self.rng.below(6) {
            0..=2 => U256::ZERO,
            3 | 4 => U256::from(1),
            _ => U256::from(1u64 << 40),
        }
    }

    fn call_atom(&mut self, a: &mut Asm, out: &mut Out) {
        use opcode::*;
        let mut kinds = vec![CALL, CALL, CALLCODE];
        if self.en(SpecId::HOMESTEAD) {
            kinds.push(DELEGATECALL);
        }
        if self.en(SpecId::BYZANTIUM) {
            kinds.push(STATICCALL);
        }
        let kind = *self.rng.pick(&kinds);
        let pc = |n: u64| Address::from_word(B256::from(U256::from(n)));
        let mut targets = vec![
            ("ok", self.okc),
            ("rev", self.revc),
            ("inv", self.invc),
            ("empty", self.empty),
            ("none", Address::from_word(B256::from(U256::from(0xdead0000u64 + self.rng.below(3))))),
            ("sha", pc(2)),
            ("id", pc(4)),
            ("rich", self.rich),
            ("sd", self.sdc),
            ("pc6", pc(6)),
            ("pc9", pc(9)),
        ];
        if self.en(SpecId::PRAGUE) {
            targets.push(("dlg", self.dlg));
            targets.push(("dlg", self.dlg));
            targets.push(("dlg2", self.dlg2));
        }
        if self.en(SpecId::OSAKA) {
            targets.push(("xok", self.xok));
            targets.push(("xrev", self.xrev));
        }
        let (tn, to) = *self.rng.pick(&targets);
        let value = if tn == "rich" && self.rng.chance(2, 3) { U256::from(1) } else { self.pick_value() };
        let gas = match self.rng.below(5) {
            0 => 10,
            1 => 0,
            _ => 100_000,
        };
        // precompile inputs: 64 bytes (1, 1) is not a curve point; any length != 213 fails blake2f
        a.pushn(1).pushn(0).op(MSTORE).pushn(1).pushn(32).op(MSTORE);
        a.call(kind, gas, to, value, 64, 32);
        out.count(&format!("atom:call:{tn}"));
    }

    fn create_atom(&mut self, a: &mut Asm, out: &mut Out) {
        let inits = self.init_codes();
        let (name, init) = self.rng.pick(&inits).clone();
        let value = self.pick_value();
        let c2 = self.en(SpecId::PETERSBURG) && self.rng.chance(1, 2);
        let salt = if c2 { Some(self.rng.below(2)) } else { None };
        a.create(&init, value, salt);
        if c2 && self.rng.chance(1, 3) {
            // same salt and init code again: collides when the first one succeeded
            a.create(&init, U256::ZERO, salt);
            out.count("atom:create2-twice");
        }
        out.count(&format!("atom:create:{name}"));
    }

    fn eof_caller(&mut self, out: &mut Out) -> Address {
        use opcode::*;
        let n = self.rng.range(2, 7);
        let mut code = vec![];
        let mut max = 0u16;
        for _ in 0..n {
            let op = *self.rng.pick(&[EXTCALL, EXTCALL, EXTDELEGATECALL, EXTDELEGATECALL, EXTSTATICCALL]);
            let pc2 = Address::from_word(B256::from(U256::from(2)));
            let (tn, to) = *self.rng.pick(&[
                ("ok", self.okc),
                ("rev", self.revc),
                ("xok", self.xok),
                ("xrev", self.xrev),
                ("sha", pc2),
                ("empty", self.empty),
                ("rich", self.rich),
            ]);
            let mut a = Asm::default();
            if op == EXTCALL {
                let v = if tn == "rich" { U256::from(1) } else { self.pick_value() };
                a.push(v);
                max = max.max(4);
            } else {
                max = max.max(3);
            }
            a.op(PUSH0).op(PUSH0).push_addr(to).op(op).op(POP);
            code.extend(a.0);
            out.count(&format!("atom:ext:{}:{tn}", if op == EXTCALL { "call" } else if op == EXTDELEGATECALL { "delegate" } else { "static" }));
        }
        code.push(STOP);
        self.deploy_eof(eof_container(code, max, vec![]), 5)
    }

    fn eof_creator(&mut self, out: &mut Out) -> Address {
        use opcode::*;
        let runtime = eof_container(vec![STOP], 0, vec![]);
        let init_ok = eof_container(vec![PUSH0, PUSH0, RETURNCONTRACT, 0], 2, vec![runtime]);
        let init_rev = eof_container(vec![PUSH0, PUSH0, REVERT], 2, vec![]);
        let mut atoms: Vec<(u8, u64, U256)> = vec![];
        for _ in 0..self.rng.range(1, 4) {
            let idx = self.rng.below(2) as u8;
            let salt = self.rng.below(3);
            let v = self.pick_value();
            atoms.push((idx, salt, v));
        }
        atoms.push((0, 7, U256::ZERO));
        atoms.push((1, 8, U256::ZERO));
        let mut code = vec![];
        for (idx, salt, v) in atoms {
            let mut a = Asm::default();
            a.op(PUSH0).op(PUSH0).pushn(salt).push(v).op(EOFCREATE).op(idx).op(POP);
            code.extend(a.0);
            out.count(&format!("atom:eofcreate:{}", if idx == 0 { "ok" } else { "rev" }));
        }
        code.push(STOP);
        self.deploy_eof(eof_container(code, 4, vec![init_ok, init_rev]), 5)
    }

    fn atom(&mut self, a: &mut Asm, depth: u32, out: &mut Out) {
        use opcode::*;
        match self.rng.below(14) {
            0..=4 => self.call_atom(a, out),
            5..=7 => self.create_atom(a, out),
            8 if depth < 3 => {
                let s = self.scenario(depth + 1, out);
                let kind = if self.en(SpecId::BYZANTIUM) && self.rng.chance(1, 5) { STATICCALL } else { CALL };
                a.call(kind, 400_000, s, U256::ZERO, 0, 0);
                out.count("atom:nested");
            }
            9 => {
                a.pushn(self.rng.below(3)).pushn(self.rng.below(2)).op(SSTORE);
                out.count("atom:sstore");
            }
            10 => {
                let (n, t, g) = *self.rng.pick(&[("maxnonce", self.maxn, 200_000u64), ("collider", self.col, 200_000), ("deposit", self.dep, 60_000)]);
                a.call(CALL, g, t, U256::ZERO, 0, 0);
                out.count(&format!("atom:{n}"));
            }
            11 | 12 if self.en(SpecId::OSAKA) => {
                let x = if self.rng.chance(1, 2) { self.eof_caller(out) } else { self.eof_creator(out) };
                a.call(CALL, 1_000_000, x, U256::ZERO, 0, 0);
            }
            _ => self.call_atom(a, out),
        }
    }

    fn scenario(&mut self, depth: u32, out: &mut Out) -> Address {
        use opcode::*;
        let mut a = Asm::default();
        for _ in 0..self.rng.range(1, 4) {
            self.atom(&mut a, depth, out);
        }
        match self.rng.below(10) {
            0..=5 => {
                a.op(STOP);
            }
            6..=7 => {
                a.pushn(0).pushn(0).op(REVERT);
            }
            _ => {
                a.op(INVALID);
            }
        }
        self.deploy(a.0, 5)
    }

    /// the self-calling probe: calldata word 0 = own level k; returns the deepest level reached
    fn probe(&mut self) -> Address {
        use opcode::*;
        let mut a = Asm::default();
        a.pushn(1).pushn(0).op(CALLDATALOAD).op(ADD).pushn(0).op(MSTORE);
        a.pushn(32).pushn(0).pushn(32).pushn(0).pushn(0).op(ADDRESS);
        a.op(GAS).pushn(1000).op(SWAP1).op(SUB).op(CALL);
        let jpos = a.0.len();
        a.0.extend_from_slice(&[0x60, 0, JUMPI]);
        // refused (deepest level): a CREATE from here is refused as well
        a.pushn(0).pushn(0).pushn(0).op(CREATE).op(POP);
        a.pushn(0).op(CALLDATALOAD).pushn(0).op(MSTORE);
        let dest = a.0.len() as u8;
        a.0[jpos + 1] = dest;
        a.op(JUMPDEST).pushn(32).pushn(0).op(RETURN);
        self.deploy(a.0, 0)
    }
    fn eof_probe(&mut self) -> Address {
        use opcode::*;
        let mut c = vec![PUSH0, CALLDATALOAD, PUSH1, 1, ADD, PUSH0, MSTORE];
        c.extend([PUSH0, PUSH1, 32, PUSH0, ADDRESS, EXTCALL]);
        // status != 0 -> fail branch
        let succ = vec![PUSH1, 32, PUSH0, PUSH0, RETURNDATACOPY, PUSH1, 32, PUSH0, RETURN];
        c.extend([RJUMPI, 0, succ.len() as u8]);
        c.extend(succ);
        // refused (deepest level): an EOFCREATE from here is refused as well
        c.extend([PUSH0, PUSH0, PUSH0, PUSH0, EOFCREATE, 0, POP]);
        c.extend([PUSH0, CALLDATALOAD, PUSH0, MSTORE, PUSH1, 32, PUSH0, RETURN]);
        let init_rev = eof_container(vec![PUSH0, PUSH0, REVERT], 2, vec![]);
        self.deploy_eof(eof_container(c, 4, vec![init_rev]), 0)
    }
    /// forwarder: calls `next` with word 1 as calldata and returns its 32-byte answer
    fn forwarder(&mut self, next: Address) -> Address {
        use opcode::*;
        let mut a = Asm::default();
        a.pushn(1).pushn(0).op(MSTORE);
        a.pushn(32).pushn(0).pushn(32).pushn(0).pushn(0).push_addr(next);
        a.op(GAS).pushn(1000).op(SWAP1).op(SUB).op(CALL).op(POP);
        a.pushn(32).pushn(0).op(RETURN);
        self.deploy(a.0, 0)
    }
}

fn caller() -> Address {
    Address::with_last_byte(0x99)
}

struct Params {
    spec: SpecId,
    txkind: String,
    seed: u64,
    nscen: u64,
    launch: u64,
}

fn parse_begin(line: &str) -> Option<Params> {
    let t: Vec<&str> = line.split(' ').collect();
    if t.len() != 7 || t[0] != "begin" || t[1] != "frame" {
        return None;
    }
    let spec = t[2].parse::<u8>().ok().and_then(SpecId::try_from_u8)?;
    let txkind = t[3].to_string();
    if !["call", "create", "eoftx", "eofbad"].contains(&txkind.as_str()) {
        return None;
    }
    if txkind.starts_with("eof") && (spec as u8) < (SpecId::OSAKA as u8) {
        return None;
    }
    let seed = t[4].parse().ok()?;
    let nscen: u64 = t[5].parse().ok()?;
    let launch: u64 = t[6].parse().ok()?;
    if nscen > 400 || launch > 64 {
        return None;
    }
    Some(Params { spec, txkind, seed, nscen, launch })
}

fn res_name(r: InstructionResult) -> String {
    format!("{:?}", r)
}

/// the outcome classes the property speaks about (the exact error kind is not compared)
fn res_class(r: InstructionResult) -> &'static str {
    use InstructionResult::*;
    match r {
        Stop | Return | ReturnContract | SelfDestruct => "ok",
        CallTooDeep => "toodeep",
        OutOfFunds | OverflowPayment => "valuefail",
        PrecompileOOG | PrecompileError => "precompilefail",
        CreateCollision => "collision",
        InvalidExtDelegateCallTarget | CreateInitCodeStartingEF00 | InvalidEOFInitCode => "rejected",
        _ => "other",
    }
}

/// runs the transaction of a case; returns (request, reply) lines after the `begin` line
fn exec_case(p: &Params, out: &mut Out) -> Result<Vec<(String, String)>, String> {
    use opcode::*;
    let z = Address::ZERO;
    let mut w = World {
        db: MapDb::default(),
        next: 0,
        spec: p.spec,
        rng: Rng::new(p.seed ^ 0xC07),
        okc: z,
        revc: z,
        invc: z,
        empty: z,
        rich: z,
        sdc: z,
        maxn: z,
        col: z,
        dep: z,
        xok: z,
        xrev: z,
        dlg: z,
        dlg2: z,
        bad_eof: false,
    };
    w.put(caller(), None, U256::from(1u64 << 50), 0);
    w.setup();
    // main program: scenarios, then the probe chain
    let mut m = Asm::default();
    for _ in 0..p.nscen {
        let s = w.scenario(0, out);
        let v = if w.rng.chance(1, 4) { U256::from(3) } else { U256::ZERO };
        let kind = if w.en(SpecId::BYZANTIUM) && w.rng.chance(1, 8) { STATICCALL } else { CALL };
        m.call(kind, 3_000_000, s, v, 0, 0);
    }
    let use_eof_probe = w.en(SpecId::OSAKA) && w.rng.chance(1, 2);
    let mut next = if use_eof_probe { w.eof_probe() } else { w.probe() };
    for _ in 0..p.launch {
        next = w.forwarder(next);
    }
    m.pushn(1).pushn(0).op(MSTORE);
    m.pushn(32).pushn(0).pushn(32).pushn(0).pushn(0).push_addr(next);
    m.op(GAS).pushn(1000).op(SWAP1).op(SUB).op(CALL).op(POP);
    m.pushn(32).pushn(0).op(RETURN);
    let main = w.deploy(m.0, 1000);
    if w.bad_eof {
        return Err("bad-eof".into());
    }
    // the transaction
    let (to, data): (TxKind, Vec<u8>) = match p.txkind.as_str() {
        "call" => (TxKind::Call(main), vec![]),
        "create" => {
            // legacy create transaction: init code calls main, then returns one byte of code
            let mut a = Asm::default();
            a.call(CALL, 1u64 << 61, main, U256::ZERO, 0, 0);
            a.pushn(1).pushn(0).op(RETURN);
            (TxKind::Create, a.0)
        }
        "eoftx" => {
            let runtime = eof_container(vec![STOP], 0, vec![]);
            let mut a = Asm::default();
            a.op(PUSH0).op(PUSH0).op(PUSH0).push_addr(main).op(EXTCALL).op(POP);
            a.op(PUSH0).op(PUSH0).op(RETURNCONTRACT).op(0);
            let init = eof_container(a.0, 4, vec![runtime]);
            let mut d = init.to_vec();
            d.extend_from_slice(&[1, 2, 3]);
            (TxKind::Create, d)
        }
        _ => {
            // EOF create transaction with an unusable container: truncated, or undefined opcode
            let good = eof_container(vec![PUSH0, PUSH0, REVERT], 2, vec![]);
            let d = if w.rng.chance(1, 2) {
                good[..good.len() - 2].to_vec()
            } else {
                eof_container(vec![0x0c, STOP], 0, vec![]).to_vec()
            };
            (TxKind::Create, d)
        }
    };
    let with_nonce = w.rng.chance(1, 2);
    let rec = Rec {
        evs: vec![],
        open: vec![],
        last_depth: 0,
        last_res: InstructionResult::Stop,
        last_out_len: 0,
        pre: w.db.clone(),
        spec: p.spec,
    };
    let mut evm = Evm::builder()
        .with_db(w.db.clone())
        .with_external_context(rec)
        .with_spec_id(p.spec)
        .append_handler_register(inspector_handle_register)
        .modify_block_env(|b| {
            b.gas_limit = U256::MAX;
            b.basefee = U256::ZERO;
        })
        .modify_tx_env(|tx| {
            tx.caller = caller();
            tx.gas_limit = TX_GAS;
            tx.gas_price = U256::ZERO;
            tx.transact_to = to;
            tx.data = Bytes::from(data);
            tx.value = U256::ZERO;
            tx.nonce = if with_nonce { Some(0) } else { None };
        })
        .build();
    let rs = evm.transact().map_err(|e| format!("evm-error:{}", format!("{:?}", e).chars().take(50).collect::<String>().replace(' ', "_")))?;
    let final_depth = evm.context.evm.journaled_state.depth();
    let rec = &evm.context.external;
    let _ = rec.spec;
    let mut lines = vec![];
    let mut deepest_begin = 0u64;
    for ev in &rec.evs {
        match ev {
            Ev::Begin { req, d0, pcflag, ext, opened, imm, kind } => {
                deepest_begin = deepest_begin.max(*d0);
                let pc = if *kind != 'c' {
                    ""
                } else if !*pcflag {
                    "n"
                } else if *ext {
                    "ok"
                } else {
                    match imm {
                        Some((InstructionResult::PrecompileOOG, _)) => "oog",
                        Some((InstructionResult::PrecompileError, _)) => "err",
                        _ => "ok",
                    }
                };
                let req = req.replace("@PC@", pc);
                let rep = match (opened, imm) {
                    (Some(d1), _) => {
                        out.count(&format!("path:{kind}:frame"));
                        format!("frame d={}>{}", d0, d1)
                    }
                    (None, Some((r, d1))) => {
                        out.count(&format!("path:{kind}:{}", res_name(*r)));
                        format!("res {} d={}>{}", res_class(*r), d0, d1)
                    }
                    (None, None) => "unresolved".to_string(),
                };
                lines.push((req, rep));
            }
            Ev::End { kind, req, class, dbefore, dafter, neutral } => {
                out.count(&format!("end:{kind}:{class}"));
                let coarse = if ["ok", "ret", "retc"].contains(&class.as_str()) { "ok" } else { "fail" };
                lines.push((req.clone(), format!("ret {} {} d={}>{} neutral={}", kind, coarse, dbefore, dafter, b01(*neutral))));
            }
        }
    }
    out.count(&format!("deepest:{}", deepest_begin));
    if p.txkind == "call" {
        let reported = match &rs.result {
            ExecutionResult::Success { output: Output::Call(b), .. } if b.len() == 32 => U256::from_be_slice(b).to_string(),
            other => format!("no-answer:{}", format!("{:?}", other).chars().take(30).collect::<String>().replace(' ', "_")),
        };
        out.count(&format!("probe:{}", reported));
        lines.push((format!("frame probe {}", p.launch), reported));
    }
    lines.push(("frame end".to_string(), format!("depth={} open={}", rec.last_depth, rec.open.len())));
    let _ = final_depth;
    Ok(lines)
}

pub fn gen(seed: u64, n: usize) -> Vec<String> {
    let mut rng = Rng::new(seed ^ 0xC07C07);
    let specs = crate::act::all_specs();
    let specs: Vec<SpecId> = specs.into_iter().filter(|s| (*s as u8) <= (SpecId::OSAKA as u8)).collect();
    let mut v = vec![];
    // every spec once with a short prefix, launch level 0
    for s in &specs {
        v.push(format!("begin frame {} call {} 3 0", *s as u8, rng.next() % 1_000_000));
    }
    v.push(format!("begin frame {} eoftx {} 2 0", SpecId::OSAKA as u8, rng.next() % 1_000_000));
    v.push(format!("begin frame {} eofbad {} 0 0", SpecId::OSAKA as u8, rng.next() % 1_000_000));
    v.push(format!("begin frame {} eofbad {} 0 0", SpecId::OSAKA as u8, rng.next() % 1_000_000));
    v.push(format!("begin frame {} create {} 2 1", SpecId::CANCUN as u8, rng.next() % 1_000_000));
    for _ in 0..n {
        let s = if rng.chance(2, 5) { SpecId::OSAKA } else { *rng.pick(&specs) };
        let kind = match rng.below(10) {
            0 => "create",
            1 | 2 if s == SpecId::OSAKA => "eoftx",
            3 if s == SpecId::OSAKA && rng.chance(1, 3) => "eofbad",
            _ => "call",
        };
        let nscen = match rng.below(4) {
            0 => rng.range(0, 3),
            1 | 2 => rng.range(4, 20),
            _ => rng.range(20, 60),
        };
        let launch = *rng.pick(&[0u64, 0, 1, 2, 5, 17]);
        v.push(format!("begin frame {} {} {} {} {}", s as u8, kind, rng.next() % 1_000_000_000, nscen, launch));
    }
    v.push("begin frame 300 call 1 1 0".into());
    v.push("begin frame 5 eoftx 1 1 0".into());
    v
}

pub fn run(seed: u64, n: usize, replay: Option<Vec<String>>, out: &mut Out) {
    let lines: Vec<String> = match replay {
        Some(l) => l.into_iter().filter(|l| l.starts_with("begin ")).collect(),
        None => gen(seed, n),
    };
    for l in lines {
        let Some(p) = parse_begin(&l) else {
            out.push(l, "bad-op".into());
            continue;
        };
        out.count(&format!("spec:{}", p.spec as u8));
        out.count(&format!("tx:{}", p.txkind));
        let mut sub = Out::new();
        let r = std::panic::catch_unwind(std::panic::AssertUnwindSafe(|| exec_case(&p, &mut sub)));
        match r {
            Ok(Ok(ls)) => {
                out.push(l, "ok".into());
                for (q, a) in ls {
                    out.push(q, a);
                }
                for (k, c) in sub.dist {
                    *out.dist.entry(k).or_insert(0) += c;
                }
            }
            Ok(Err(e)) => out.push(l, e),
            Err(_) => out.push(l, "panic".into()),
        }
    }
}
