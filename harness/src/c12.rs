//! C12: the EVM stack (`revm::interpreter::Stack`) driven through its public API, and the stack
//! opcode handlers of `instructions/stack.rs` driven through `Interpreter::run`.
//!
//! requests (stateful, a case starts with `begin stack`):
//!   stack push <hexword> | push_b256 <64 hex digits> | pop | peek <n> | dup <n> | swap <n>
//!       | exchange <n> <m> | set <n> <hexword> | push_slice <hexbytes or -> | dump
//!       | popn <k>  (the `pop!` macro: len check, then pop_unsafe / pop2_unsafe .. pop5_unsafe; k = 1..5)
//!       | poptop <k> <hexword>  (the `pop_top!` macro: len check, then top_unsafe / pop_top_unsafe /
//!         pop2_top_unsafe, and `*top = word`; k = 1..3)
//!       | instr <opcode hex> <immediate hexbytes or ->
//! reply: `<res> len=<len> top=<up to 4 words, top first> h=<digest of the whole stack>`
//!   `<res>` = ok | ok:<word> | ok:<w1>,<w2>.. (popn) | ok:<w1>,..;<old top> (poptop) | StackOverflow | StackUnderflow | panic | ub ; `instr` adds ` g=<gas>`
//!   `dump` replies with every word, bottom to top.
//! `dup 0`, `swap 0`, `exchange n 0` violate `assume!` (undefined behaviour in a release build): they
//! are not executed in a release build, the reply is `ub` (what the model says); in a build with debug
//! assertions they are executed and the expected panic is reported as `ub`.
use crate::*;
use revm::interpreter::{
    opcode::make_instruction_table, Contract, DummyHost, InstructionResult, Interpreter,
    InterpreterAction, SharedMemory, Stack,
};
use revm::primitives::{Address, Bytecode, Bytes, LatestSpec, B256, U256};
use std::panic::AssertUnwindSafe;

const P: u64 = 0x100000001b3;

fn digest(st: &Stack) -> u64 {
    let mut h = st.len() as u64;
    for w in st.data() {
        for l in w.as_limbs() {
            h = h.wrapping_add(*l).wrapping_mul(P);
        }
    }
    h
}

fn view(st: &Stack) -> String {
    let d = st.data();
    let n = d.len();
    let top: Vec<String> = (0..n.min(4)).map(|i| hx(d[n - 1 - i])).collect();
    format!(
        "len={} top={} h={:x}",
        st.len(),
        if top.is_empty() { "-".to_string() } else { top.join(",") },
        digest(st)
    )
}

fn res_unit(r: Result<(), InstructionResult>) -> String {
    match r {
        Ok(()) => "ok".into(),
        Err(e) => format!("{:?}", e),
    }
}
fn res_word(r: Result<U256, InstructionResult>) -> String {
    match r {
        Ok(w) => format!("ok:{}", hx(w)),
        Err(e) => format!("{:?}", e),
    }
}

fn parse_word(s: &str) -> Option<U256> {
    if s.is_empty() || s.len() > 64 || !s.bytes().all(|c| c.is_ascii_hexdigit()) {
        return None;
    }
    U256::from_str_radix(s, 16).ok()
}
fn parse_idx(s: &str) -> Option<usize> {
    if s.is_empty() || s.len() > 10 || !s.bytes().all(|c| c.is_ascii_digit()) {
        return None;
    }
    let v: u64 = s.parse().ok()?;
    if v < (1u64 << 32) { Some(v as usize) } else { None }
}
fn parse_bytes(s: &str) -> Option<Vec<u8>> {
    if s == "-" {
        return Some(vec![]);
    }
    if s.is_empty() || s.len() % 2 != 0 || !s.bytes().all(|c| c.is_ascii_hexdigit()) {
        return None;
    }
    Some((0..s.len() / 2).map(|i| u8::from_str_radix(&s[2 * i..2 * i + 2], 16).unwrap()).collect())
}

/// immediate bytes read by the handler of a stack opcode; None = not a stack opcode
fn imm_len(op: u8) -> Option<usize> {
    match op {
        0x50 | 0x5f => Some(0),
        0x60..=0x7f => Some((op - 0x5f) as usize),
        0x80..=0x9f => Some(0),
        0xe6..=0xe8 => Some(1),
        _ => None,
    }
}

/// run one stack opcode of `instructions/stack.rs` on the given stack through `Interpreter::run`
fn run_instr(st: &mut Stack, op: u8, imm: &[u8]) -> String {
    let mut code = vec![op];
    code.extend_from_slice(imm);
    code.push(0x00);
    let contract = Contract::new(
        Bytes::new(),
        Bytecode::new_raw(Bytes::from(code)),
        None,
        Address::ZERO,
        None,
        Address::ZERO,
        U256::ZERO,
    );
    let mut interp = Interpreter::new(contract, 1000, false);
    interp.is_eof = op >= 0xe6;
    std::mem::swap(&mut interp.stack, st);
    let mut host = DummyHost::default();
    let table = make_instruction_table::<DummyHost, LatestSpec>();
    let action = interp.run(SharedMemory::new(), &table, &mut host);
    std::mem::swap(&mut interp.stack, st);
    let res = match action {
        InterpreterAction::Return { result } => result.result,
        _ => return "unexpected-action".into(),
    };
    let r = match res {
        InstructionResult::Stop => "ok".to_string(),
        e => format!("{:?}", e),
    };
    format!("{} g={}", r, interp.gas.spent())
}

/// executes one request line on the stack; pure function of (state, line)
pub fn exec_line(st: &mut Stack, line: &str) -> String {
    let t: Vec<&str> = line.split(' ').collect();
    if t.len() >= 2 && t[0] == "begin" && t[1] == "stack" {
        *st = Stack::new();
        return format!("ok {}", view(st));
    }
    if t.is_empty() || t[0] != "stack" {
        return "bad-op".into();
    }
    let ub = |st: &mut Stack, f: &dyn Fn(&mut Stack) -> Result<(), InstructionResult>| -> String {
        if cfg!(debug_assertions) {
            let r = std::panic::catch_unwind(AssertUnwindSafe(|| f(st)));
            if r.is_err() { "ub".to_string() } else { "no-panic".to_string() }
        } else {
            "ub".to_string()
        }
    };
    let head: String = match &t[1..] {
        ["dump"] => {
            let d = st.data();
            return if d.is_empty() {
                "-".into()
            } else {
                d.iter().map(|w| hx(*w)).collect::<Vec<_>>().join(",")
            };
        }
        ["push", w] => match parse_word(w) {
            Some(w) => res_unit(st.push(w)),
            None => return "bad-op".into(),
        },
        ["push_b256", b] => match parse_bytes(b) {
            Some(bs) if bs.len() == 32 => res_unit(st.push_b256(B256::from_slice(&bs))),
            _ => return "bad-op".into(),
        },
        ["pop"] => res_word(st.pop()),
        ["peek", n] => match parse_idx(n) {
            Some(n) => res_word(st.peek(n)),
            None => return "bad-op".into(),
        },
        ["dup", n] => match parse_idx(n) {
            Some(0) => ub(st, &|s| s.dup(0)),
            Some(n) => res_unit(st.dup(n)),
            None => return "bad-op".into(),
        },
        ["swap", n] => match parse_idx(n) {
            Some(0) => ub(st, &|s| s.swap(0)),
            Some(n) => res_unit(st.swap(n)),
            None => return "bad-op".into(),
        },
        ["exchange", n, m] => match (parse_idx(n), parse_idx(m)) {
            (Some(n), Some(0)) => ub(st, &move |s| s.exchange(n, 0)),
            (Some(n), Some(m)) => res_unit(st.exchange(n, m)),
            _ => return "bad-op".into(),
        },
        ["set", n, w] => match (parse_idx(n), parse_word(w)) {
            (Some(n), Some(w)) => res_unit(st.set(n, w)),
            _ => return "bad-op".into(),
        },
        ["popn", k] => match parse_idx(k) {
            // the `pop!` macro of instructions/macros.rs: length check, then pop<k>_unsafe
            Some(k) if (1..=5).contains(&k) => {
                if st.len() < k {
                    "StackUnderflow".to_string()
                } else {
                    // SAFETY: length is checked above (as the macro does)
                    let ws: Vec<U256> = unsafe {
                        match k {
                            1 => vec![st.pop_unsafe()],
                            2 => {
                                let (a, b) = st.pop2_unsafe();
                                vec![a, b]
                            }
                            3 => {
                                let (a, b, c) = st.pop3_unsafe();
                                vec![a, b, c]
                            }
                            4 => {
                                let (a, b, c, d) = st.pop4_unsafe();
                                vec![a, b, c, d]
                            }
                            _ => {
                                let (a, b, c, d, e) = st.pop5_unsafe();
                                vec![a, b, c, d, e]
                            }
                        }
                    };
                    format!("ok:{}", ws.iter().map(|w| hx(*w)).collect::<Vec<_>>().join(","))
                }
            }
            _ => return "bad-op".into(),
        },
        ["poptop", k, w] => match (parse_idx(k), parse_word(w)) {
            // the `pop_top!` macro: length check, then top_unsafe / pop_top_unsafe / pop2_top_unsafe,
            // and the instruction stores its result through the returned reference
            (Some(k), Some(w)) if (1..=3).contains(&k) => {
                if st.len() < k {
                    "StackUnderflow".to_string()
                } else {
                    // SAFETY: length is checked above (as the macro does)
                    let (ws, old) = unsafe {
                        match k {
                            1 => {
                                let t = st.top_unsafe();
                                let old = *t;
                                *t = w;
                                (vec![], old)
                            }
                            2 => {
                                let (a, t) = st.pop_top_unsafe();
                                let old = *t;
                                *t = w;
                                (vec![a], old)
                            }
                            _ => {
                                let (a, b, t) = st.pop2_top_unsafe();
                                let old = *t;
                                *t = w;
                                (vec![a, b], old)
                            }
                        }
                    };
                    format!("ok:{};{}", ws.iter().map(|w| hx(*w)).collect::<Vec<_>>().join(","), hx(old))
                }
            }
            _ => return "bad-op".into(),
        },
        ["push_slice", b] => match parse_bytes(b) {
            Some(bs) => res_unit(st.push_slice(&bs)),
            None => return "bad-op".into(),
        },
        ["instr", o, imm] => {
            let (Some(o), Some(bs)) = (parse_word(o), parse_bytes(imm)) else { return "bad-op".into() };
            if o > U256::from(255u64) {
                return "bad-op".into();
            }
            let o = o.as_limbs()[0] as u8;
            match imm_len(o) {
                Some(k) if k == bs.len() => run_instr(st, o, &bs),
                _ => return "bad-op".into(),
            }
        }
        _ => return "bad-op".into(),
    };
    format!("{} {}", head, view(st))
}

// ------------------------------------------------------------------ generator

struct Gen {
    rng: Rng,
    lines: Vec<String>,
}

impl Gen {
    fn l(&mut self, s: String) {
        self.lines.push(s);
    }
    fn begin(&mut self) {
        self.l("begin stack".into());
    }
    fn word(&mut self) -> String {
        hx(self.rng.word())
    }
    fn slice(&mut self, len: usize) -> String {
        // three byte patterns: random, counting (position visible in the value), sparse zeros/ff
        let b: Vec<u8> = match self.rng.below(4) {
            0 => (0..len).map(|i| (i % 251) as u8 + 1).collect(),
            1 => (0..len).map(|_| *self.rng.pick(&[0u8, 0, 0xff, 0x80, 1])).collect(),
            _ => self.rng.bytes(len),
        };
        hxb(&b)
    }
    /// fill the (fresh) stack to exactly `k` words with one or two slices
    fn fill(&mut self, k: usize) {
        if k == 0 {
            return;
        }
        let cut = self.rng.below(32) as usize;
        let s = self.slice(k * 32 - cut);
        self.l(format!("stack push_slice {s}"));
    }
    fn idx(&mut self, len_hint: usize) -> usize {
        match self.rng.below(10) {
            0..=4 => self.rng.range(0, 17) as usize,
            5..=6 => (len_hint as u64 + 2).saturating_sub(self.rng.below(5)) as usize,
            7 => self.rng.range(1020, 1026) as usize,
            8 => self.rng.below(1100) as usize,
            _ => *self.rng.pick(&[0usize, 1, 16, 17, 1023, 1024, 1025, 4294967295]),
        }
    }
    fn random_op(&mut self, len_hint: &mut usize) {
        let lh = *len_hint;
        let s = match self.rng.below(20) {
            0..=3 => {
                *len_hint += 1;
                format!("stack push {}", self.word())
            }
            4 => {
                *len_hint += 1;
                format!("stack push_b256 {}", hxb(&self.rng.u256().to_be_bytes::<32>()))
            }
            5..=7 => {
                *len_hint = len_hint.saturating_sub(1);
                "stack pop".into()
            }
            8 => format!("stack peek {}", self.idx(lh)),
            9..=10 => {
                *len_hint += 1;
                format!("stack dup {}", self.idx(lh).max(1))
            }
            11..=12 => format!("stack swap {}", self.idx(lh).max(1)),
            13..=14 => {
                let n = self.idx(lh);
                let m = if self.rng.chance(1, 2) { self.rng.range(1, 17) as usize } else { self.idx(lh).max(1) };
                format!("stack exchange {} {}", n, m)
            }
            15 => match self.rng.below(3) {
                0 => format!("stack set {} {}", self.idx(lh), self.word()),
                1 => {
                    let k = self.rng.range(1, 5) as usize;
                    if lh >= k {
                        *len_hint -= k;
                    }
                    format!("stack popn {k}")
                }
                _ => {
                    let k = self.rng.range(1, 3) as usize;
                    if lh >= k {
                        *len_hint -= k - 1;
                    }
                    format!("stack poptop {k} {}", self.word())
                }
            },
            16..=17 => {
                let len = match self.rng.below(6) {
                    0 => self.rng.below(34) as usize,
                    1 => (self.rng.range(1, 6) * 32 + self.rng.below(3)).saturating_sub(1) as usize,
                    2 => self.rng.below(200) as usize,
                    3 => {
                        // around what still fits
                        let room = 1024usize.saturating_sub(lh);
                        (room * 32 + self.rng.below(70) as usize).saturating_sub(35)
                    }
                    _ => self.rng.below(100) as usize,
                };
                *len_hint += (len + 31) / 32;
                format!("stack push_slice {}", self.slice(len))
            }
            _ => {
                let op = *self.rng.pick(&[0x50u8, 0x5f, 0x60, 0x61, 0x67, 0x68, 0x7e, 0x7f, 0x80, 0x81, 0x8f, 0x90, 0x9f, 0xe6, 0xe7, 0xe8]);
                let op = if self.rng.chance(1, 2) { op } else { *self.rng.pick(&[0x60u8, 0x80, 0x90]) + self.rng.below(16) as u8 };
                let k = imm_len(op).unwrap();
                let imm = if op >= 0xe6 && self.rng.chance(1, 2) { vec![*self.rng.pick(&[0u8, 1, 0x0f, 0x10, 0x11, 0xff, 0xf0])] } else { self.rng.bytes(k) };
                format!("stack instr {:x} {}", op, hxb(&imm))
            }
        };
        if *len_hint > 1024 {
            *len_hint = 1024;
        }
        self.l(s);
    }
}

pub fn gen(seed: u64, n: usize) -> Vec<String> {
    let mut g = Gen { rng: Rng::new(seed ^ 0xC12), lines: Vec::new() };
    let thorough = n >= 2000;

    // ---- boundary stream 1: push_slice of every small length and the boundary lengths, on an empty
    // stack (with a dump), and on a stack with a few words
    let mut lens: Vec<usize> = (0..=100).collect();
    for k in [4usize, 5, 8, 16, 31, 32, 33, 64, 100, 512, 1000, 1022, 1023, 1024, 1025] {
        for d in [31usize, 32, 33] {
            lens.push(k * 32 + d - 32);
        }
    }
    lens.extend_from_slice(&[32 * 1024 + 2, 32 * 1024 + 31, 32 * 1024 + 32, 32 * 1024 + 33, 32 * 1024 + 40]);
    if thorough {
        lens.extend(101..=2100);
        let mut k = 2100;
        while k < 32 * 1024 + 40 {
            k += 1 + g.rng.below(97) as usize;
            lens.push(k);
        }
    } else {
        for _ in 0..40 {
            lens.push(g.rng.range(101, 32 * 1024 + 40) as usize);
        }
    }
    for &len in &lens {
        g.begin();
        let s = g.slice(len);
        g.l(format!("stack push_slice {s}"));
        if len <= 200 || len % 7 == 0 {
            g.l("stack dump".into());
        }
        g.l("stack pop".into());
        g.l("stack peek 0".into());
        // a second slice on top of the first
        let len2 = g.rng.below(70) as usize;
        let s2 = g.slice(len2);
        g.l(format!("stack push_slice {s2}"));
    }
    // ---- boundary stream 2: slices against a nearly full stack: exact fit / one word too many
    for fillk in [1024usize, 1023, 1022, 1000, 993, 512, 1] {
        let room = 1024 - fillk;
        let mut cands = vec![0usize, 1, 31, 32, 33, 64, 65];
        for d in [0usize, 1, 2, 31, 32, 33, 34, 63, 64, 65] {
            cands.push((room * 32 + d).saturating_sub(33));
        }
        cands.sort();
        cands.dedup();
        for len in cands {
            g.begin();
            g.fill(fillk);
            let s = g.slice(len);
            g.l(format!("stack push_slice {s}"));
            g.l("stack peek 0".into());
            g.l(format!("stack peek {}", fillk.saturating_sub(1)));
            g.l(format!("stack peek {}", fillk));
            if len % 3 == 0 {
                g.l("stack dump".into());
            }
        }
    }
    // ---- boundary stream 3: dup / swap / exchange / peek / set at every index 0..=18 on every size 0..=18
    for size in 0..=18usize {
        g.begin();
        for i in 0..size {
            g.l(format!("stack push {:x}", 0xa000 + i));
        }
        for k in 0..=18usize {
            g.l(format!("stack peek {k}"));
        }
        for k in 1..=18usize {
            g.l(format!("stack swap {k}"));
        }
        for nn in 0..=17usize {
            for m in 1..=17usize {
                g.l(format!("stack exchange {nn} {m}"));
            }
        }
        for k in 0..=18usize {
            g.l(format!("stack set {k} {:x}", 0xb000 + k));
        }
        g.l("stack dump".into());
        for k in 1..=18usize {
            g.l(format!("stack dup {k}"));
            g.l("stack pop".into());
        }
        g.l("stack dump".into());
    }
    // the pop! / pop_top! macros (pop_unsafe family) with every arity on every size 0..=7
    for size in 0..=7usize {
        for k in 1..=5usize {
            g.begin();
            for i in 0..size {
                g.l(format!("stack push {:x}", 0xd000 + i));
            }
            g.l(format!("stack popn {k}"));
            g.l("stack dump".into());
            if k <= 3 {
                g.begin();
                for i in 0..size {
                    g.l(format!("stack push {:x}", 0xe000 + i));
                }
                g.l(format!("stack poptop {k} {:x}", 0xf000 + k));
                g.l("stack dump".into());
            }
        }
    }
    // ---- boundary stream 4: the limits
    for fillk in [1024usize, 1023, 1022, 1007] {
        g.begin();
        g.fill(fillk);
        g.l("stack dump".into());
        for k in (1..=17).chain([fillk - 1, fillk, fillk + 1, 1023, 1024, 1025]) {
            g.l(format!("stack dup {k}"));
            g.l(format!("stack swap {k}"));
            g.l(format!("stack peek {k}"));
            g.l(format!("stack set {k} {:x}", 0xc000 + k));
            g.l(format!("stack exchange 0 {k}"));
            g.l(format!("stack exchange {k} 1"));
            g.l(format!("stack exchange {} {}", k / 2, k - k / 2));
        }
        g.l("stack push 1".into());
        g.l(format!("stack push_b256 {}", hxb(&[0x11u8; 32])));
        g.l("stack push_slice -".into());
        g.l("stack push_slice 01".into());
        g.l("stack poptop 1 abcd".into());
        g.l("stack poptop 3 abce".into());
        g.l("stack push 3".into());
        g.l("stack push 4".into());
        g.l("stack popn 5".into());
        g.l("stack push_slice 0102030405060708091011121314151617181920212223242526272829303132333435363738394041424344454647484950515253545556575859606162636465666768697071727374757677787980818283848586878889909192939495969798990001020304050607080910111213141516171819202122232425262728293031323334353637383940414243444546474849505152535455565758596061".into());
        g.l("stack instr 5f -".into());
        g.l("stack instr 60 ff".into());
        g.l("stack instr 7f 000102030405060708090a0b0c0d0e0f101112131415161718191a1b1c1d1e1f".into());
        g.l("stack instr 80 -".into());
        g.l("stack instr 8f -".into());
        g.l("stack instr 9f -".into());
        g.l("stack instr e6 ff".into());
        g.l("stack instr e7 ff".into());
        g.l("stack instr e8 ff".into());
        g.l("stack dump".into());
        for _ in 0..3 {
            g.l("stack pop".into());
            g.l("stack dup 1".into());
            g.l("stack dup 1".into());
            g.l("stack push 2".into());
        }
        g.l("stack dump".into());
    }
    // pop down to empty and below, push up to the limit and above, one word at a time
    g.begin();
    for i in 0..1030usize {
        g.l(format!("stack push {:x}", i * i + 1));
    }
    g.l("stack dump".into());
    for _ in 0..1030usize {
        g.l("stack pop".into());
    }
    // ---- boundary stream 5: every stack opcode on stacks of size 0, 1, 2, 16, 17, 18, 255, 256, 257
    for size in [0usize, 1, 2, 15, 16, 17, 18, 255, 256, 257, 1023, 1024] {
        g.begin();
        g.fill(size);
        for op in (0x5fu8..=0x9f).chain([0x50u8]) {
            let k = imm_len(op).unwrap();
            let imm = g.rng.bytes(k);
            g.l(format!("stack instr {:x} {}", op, hxb(&imm)));
            if size >= 1023 && (0x5f..=0x8f).contains(&op) {
                g.l("stack pop".into());
            }
        }
        for imm in [0u8, 1, 2, 0x0e, 0x0f, 0x10, 0x11, 0x1f, 0x7f, 0x80, 0xef, 0xf0, 0xfe, 0xff] {
            g.l(format!("stack instr e6 {:02x}", imm));
            g.l("stack pop".into());
            g.l(format!("stack instr e7 {:02x}", imm));
            g.l(format!("stack instr e8 {:02x}", imm));
        }
        g.l("stack dump".into());
    }
    if thorough {
        // all 256 immediates of dupn / swapn / exchange on stacks of size 16, 33, 257
        for size in [16usize, 33, 257] {
            g.begin();
            g.fill(size);
            for imm in 0..=255u8 {
                g.l(format!("stack instr e6 {:02x}", imm));
                g.l("stack pop".into());
                g.l(format!("stack instr e7 {:02x}", imm));
                g.l(format!("stack instr e8 {:02x}", imm));
            }
            g.l("stack dump".into());
        }
    }
    // ---- malformed / precondition stream
    g.begin();
    g.l("stack push 1".into());
    g.l("stack push 2".into());
    for s in [
        "stack dup 0", "stack swap 0", "stack exchange 0 0", "stack exchange 1 0", "stack frob", "stack push",
        "stack push zz", "stack dup x", "stack peek 4294967296", "stack peek 4294967295", "stack dup 4294967295",
        "stack swap 4294967295", "stack exchange 4294967295 4294967295", "stack set 4294967295 1",
        "stack push_b256 00", "stack push_slice abc", "stack instr 01 -", "stack instr 60 -", "stack instr 60 0102",
        "stack instr e6 -", "stack instr 100 -", "stack pop 1", "arithx", "stack",
        "stack popn 0", "stack popn 6", "stack poptop 0 1", "stack poptop 4 1", "stack poptop 1",
        "stack push 10000000000000000000000000000000000000000000000000000000000000000",
        "stack push ffffffffffffffffffffffffffffffffffffffffffffffffffffffffffffffff",
        "stack dump",
    ] {
        g.l(s.to_string());
    }
    // ---- random stream: n cases
    for _ in 0..n {
        g.begin();
        let mut len_hint = 0usize;
        match g.rng.below(10) {
            0..=2 => {
                let k = g.rng.range(1000, 1024) as usize;
                g.fill(k);
                len_hint = k;
            }
            3 => {
                let k = g.rng.range(1, 40) as usize;
                g.fill(k);
                len_hint = k;
            }
            _ => {}
        }
        let maxops = if thorough { 300 } else { 60 };
        let ops = g.rng.range(3, maxops) as usize;
        for i in 0..ops {
            g.random_op(&mut len_hint);
            if i % 64 == 63 && (len_hint <= 200 || g.rng.chance(1, 4)) {
                g.l("stack dump".into());
            }
        }
        if g.rng.chance(1, 4) && (len_hint <= 200 || g.rng.chance(1, 4)) {
            g.l("stack dump".into());
        }
    }
    g.lines
}

pub fn run(seed: u64, n: usize, replay: Option<Vec<String>>, out: &mut Out) {
    let lines = replay.unwrap_or_else(|| gen(seed, n));
    let mut st = Stack::new();
    for l in lines {
        let r = {
            let stref = &mut st;
            let lref = &l;
            guarded(AssertUnwindSafe(move || exec_line(stref, lref)))
        };
        let mut it = l.split(' ');
        let a = it.next().unwrap_or("?");
        let b = it.next().unwrap_or("?");
        if a == "begin" {
            out.count("cases");
        } else {
            out.count(&format!("op:{b}"));
            if b == "push_slice" {
                let len = l.split(' ').nth(2).map(|s| if s == "-" { 0 } else { s.len() / 2 }).unwrap_or(0);
                out.count(match len {
                    0 => "slice:len0",
                    1..=31 => "slice:len1-31",
                    32 => "slice:len32",
                    33..=64 => "slice:len33-64",
                    65..=1024 => "slice:len65-1024",
                    1025..=32767 => "slice:len1025-32767",
                    _ => "slice:len>=32768",
                });
                if len % 32 != 0 {
                    out.count("slice:partial-last-word");
                }
            }
        }
        let res = r.split(' ').next().unwrap_or("?");
        match res {
            "StackOverflow" | "StackUnderflow" | "panic" | "ub" | "bad-op" | "ok" => out.count(&format!("res:{res}")),
            x if x.starts_with("ok:") => out.count("res:ok-words"),
            _ => out.count("res:other"),
        }
        if let Some(p) = r.find("len=") {
            let v: usize = r[p + 4..].split(' ').next().unwrap_or("0").parse().unwrap_or(0);
            out.count(match v {
                0 => "len:0",
                1..=17 => "len:1-17",
                18..=1000 => "len:18-1000",
                1001..=1023 => "len:1001-1023",
                _ => "len:1024",
            });
        }
        out.push(l, r);
    }
}
