//! C28: observing inspectors do not change execution.
//!
//! Component `inspwrap`. Request lines (all stateless, each replays alone):
//!
//! `inspwrap tx spec=<u8> ty=<0..4> gas=<hex> price=<hex> tip=<hex|-> basefee=<hex> value=<hex> to=<addr hex|create>
//!           data=<hex> acl=<0|1> auth=<n> col=<0|1> tr=<0..3> a=<code> b=<code> c=<code> rec=<…|->`
//!     the transaction is executed FIVE times on the real `Evm` (plus three reuse runs, below), each time over a fresh copy of the same
//!     database: plain (no handler register), `NoOpInspector`, `GasInspector`, `TracerEip3155` (writer = sink;
//!     `tr` bit0 = with_memory, bit1 = without_summary) and a recording wrapper around `GasInspector` (pure
//!     delegation) - the last four with `inspector_handle_register`. Compared pairwise with the plain run:
//!     the `Result<ExecutionResult, EVMError>` (status, reason, gas_used, gas_refunded, output, logs) and the
//!     returned `EvmState` (every account: info, status flags, every slot original/present/cold), both in a
//!     canonical sorted text form. Then the transaction is run TWICE on one reused `Evm` (plain, GasInspector,
//!     tracer: inspector state and the register's input stacks survive) and the second results are compared. reply = `same used=<gas_used> refunded=<gas_refunded|->` (or `same` for
//!     `rec=-`, used when the transaction is rejected) or `differ <which run> <result|state> <excerpt>`.
//!     `rec=<kind>,<InstructionResult>,<limit>,<remaining>,<refunded>,<eip7702 refund>,<floor gas>,<tx gas limit>,<london>`
//!     is the first-frame outcome as `call_end`/`create_end` received it at depth 0 (recorded by the generator);
//!     the model applies GasInspector's transformation, last_frame_return, refund and the floor to it and
//!     predicts `used` / `refunded`.
//! `inspwrap cls <InstructionResult>`                     -> `ok=<b> revert=<b> error=<b>`
//! `inspwrap end <noop|gas|tracer> <call|create|eofcreate> <IR> <l> <r> <f> <depth>`
//!     the real `call_end` / `create_end` / `eofcreate_end` of that inspector -> `<IR> l=<..> r=<..> f=<..>`
//! `inspwrap lfr <call|create|eofcreate> <IR> <l> <r> <f> <txgas>`  real mainnet `last_frame_return` -> `l=.. r=.. f=..`
//! `inspwrap ico <IR> <cl> <cr> <cf> <pl> <pr> <pf> <eof> <stack> <memlen> <start> <end> <output>`
//!     real `Interpreter::insert_call_outcome` -> `res=<IR> gas=<l>,<r>,<f> n=<stack len> top=<hex|-> rd=<hex> mem=<hex>`
//! `inspwrap icr|ieo <IR> <cl> <cr> <cf> <pl> <pr> <pf> <stack> <addr|-> <output>`  insert_create / insert_eofcreate
//! `inspwrap pipe <london> <txgas> <kind> <IR> <l> <r> <f> <refund7702> <floor>`
//!     real GasInspector end callback -> last_frame_return -> refund -> floor -> `used=<..> refunded=<..>`
use crate::*;
use revm::db::{CacheDB, EmptyDB};
use revm::handler::mainnet;
use revm::inspectors::{GasInspector, NoOpInspector, TracerEip3155};
use revm::interpreter::{
    CallInputs, CallOutcome, CallScheme, CallValue, Contract, CreateInputs, CreateOutcome, EOFCreateInputs, Gas,
    InstructionResult, Interpreter, InterpreterResult, SharedMemory,
};
use revm::primitives::{
    AccessListItem, AccountInfo, Address, Authorization, BerlinSpec, Bytecode, Bytes, CancunSpec, CreateScheme, Env,
    EvmState, LondonSpec, RecoveredAuthority, RecoveredAuthorization, ResultAndState, SpecId, TxKind, B256, U256,
};
use revm::{inspector_handle_register, Context, Database, Evm, EvmContext, FrameResult, Inspector};
use std::collections::BTreeMap;

// ------------------------------------------------------------------------------------------ helpers

pub fn all_ir() -> Vec<InstructionResult> {
    use InstructionResult::*;
    vec![
        Continue, Stop, Return, SelfDestruct, ReturnContract, Revert, CallTooDeep, OutOfFunds,
        CreateInitCodeStartingEF00, InvalidEOFInitCode, InvalidExtDelegateCallTarget, CallOrCreate, OutOfGas,
        MemoryOOG, MemoryLimitOOG, PrecompileOOG, InvalidOperandOOG, OpcodeNotFound, CallNotAllowedInsideStatic,
        StateChangeDuringStaticCall, InvalidFEOpcode, InvalidJump, NotActivated, StackUnderflow, StackOverflow,
        OutOfOffset, CreateCollision, OverflowPayment, PrecompileError, NonceOverflow, CreateContractSizeLimit,
        CreateContractStartingWithEF, CreateInitCodeSizeLimit, FatalExternalError, ReturnContractInNotInitEOF,
        EOFOpcodeDisabledInLegacy, EOFFunctionStackOverflow, EofAuxDataOverflow, EofAuxDataTooSmall,
        InvalidEXTCALLTarget,
    ]
}
fn ir_of(name: &str) -> Option<InstructionResult> {
    all_ir().into_iter().find(|r| format!("{:?}", r) == name)
}
fn u64h(s: &str) -> Option<u64> {
    u64::from_str_radix(s, 16).ok()
}
fn i64d(s: &str) -> Option<i64> {
    s.parse::<i64>().ok()
}
fn bytes_of(s: &str) -> Option<Vec<u8>> {
    if s == "-" {
        return Some(vec![]);
    }
    if s.len() % 2 != 0 {
        return None;
    }
    (0..s.len() / 2).map(|i| u8::from_str_radix(&s[2 * i..2 * i + 2], 16).ok()).collect()
}
/// a `Gas` with the given fields (they are private): only wrapping-free paths are used
fn mk_gas(l: u64, r: u64, f: i64) -> Option<Gas> {
    if r > l {
        return None;
    }
    let mut g = Gas::new(l);
    if !g.record_cost(l - r) {
        return None;
    }
    g.record_refund(f);
    Some(g)
}
fn gas_str(g: &Gas) -> String {
    format!("l={:x} r={:x} f={}", g.limit(), g.remaining(), g.refunded())
}
fn dummy_call_inputs() -> CallInputs {
    CallInputs {
        input: Bytes::new(),
        return_memory_offset: 0..0,
        gas_limit: 0,
        bytecode_address: Address::ZERO,
        target_address: Address::ZERO,
        caller: Address::ZERO,
        value: CallValue::Transfer(U256::ZERO),
        scheme: CallScheme::Call,
        is_static: false,
        is_eof: false,
    }
}
fn dummy_create_inputs() -> CreateInputs {
    CreateInputs { caller: Address::ZERO, scheme: CreateScheme::Create, value: U256::ZERO, init_code: Bytes::new(), gas_limit: 0 }
}
fn ires(r: InstructionResult, out: Vec<u8>, g: Gas) -> InterpreterResult {
    InterpreterResult { result: r, output: Bytes::from(out), gas: g }
}

// ------------------------------------------------------------------------------------------ small lines

fn exec_cls(t: &[&str]) -> String {
    if t.len() != 1 {
        return "bad-op".into();
    }
    match ir_of(t[0]) {
        Some(r) => format!("ok={} revert={} error={}", b01(r.is_ok()), b01(r.is_revert()), b01(r.is_error())),
        None => "bad-op".into(),
    }
}

/// the real `*_end` callback of one of the three inspectors on a hand-made outcome
fn end_with<I: Inspector<EmptyDB>>(insp: &mut I, kind: &str, r: InterpreterResult, depth: usize) -> Option<InterpreterResult> {
    let mut ctx: EvmContext<EmptyDB> = EvmContext::new(EmptyDB::new());
    ctx.inner.journaled_state.depth = depth;
    Some(match kind {
        "call" => insp.call_end(&mut ctx, &dummy_call_inputs(), CallOutcome::new(r, 0..0)).result,
        "create" => insp.create_end(&mut ctx, &dummy_create_inputs(), CreateOutcome::new(r, None)).result,
        "eofcreate" => insp.eofcreate_end(&mut ctx, &EOFCreateInputs::default(), CreateOutcome::new(r, None)).result,
        _ => return None,
    })
}
fn exec_end(t: &[&str]) -> String {
    if t.len() != 7 {
        return "bad-op".into();
    }
    let (Some(r), Some(l), Some(rem), Some(f), Some(depth)) = (ir_of(t[2]), u64h(t[3]), u64h(t[4]), i64d(t[5]), u64h(t[6])) else {
        return "bad-op".into();
    };
    let Some(g) = mk_gas(l, rem, f) else { return "bad-op".into() };
    if depth > 1 {
        return "bad-op".into();
    }
    let res = ires(r, vec![0xab], g);
    let out = match t[0] {
        "noop" => end_with(&mut NoOpInspector, t[1], res, depth as usize),
        "gas" => end_with(&mut GasInspector::default(), t[1], res, depth as usize),
        "tracer" => end_with(&mut TracerEip3155::new(Box::new(std::io::sink())), t[1], res, depth as usize),
        _ => None,
    };
    match out {
        Some(o) => format!("{:?} {} out={}", o.result, gas_str(&o.gas), hxb(&o.output)),
        None => "bad-op".into(),
    }
}

fn frame_result(kind: &str, r: InterpreterResult) -> Option<FrameResult> {
    Some(match kind {
        "call" => FrameResult::Call(CallOutcome::new(r, 0..0)),
        "create" => FrameResult::Create(CreateOutcome::new(r, None)),
        "eofcreate" => FrameResult::EOFCreate(CreateOutcome::new(r, None)),
        _ => return None,
    })
}
fn exec_lfr(t: &[&str]) -> String {
    if t.len() != 6 {
        return "bad-op".into();
    }
    let (Some(r), Some(l), Some(rem), Some(f), Some(txgas)) = (ir_of(t[1]), u64h(t[2]), u64h(t[3]), i64d(t[4]), u64h(t[5])) else {
        return "bad-op".into();
    };
    let Some(g) = mk_gas(l, rem, f) else { return "bad-op".into() };
    let Some(mut fr) = frame_result(t[0], ires(r, vec![], g)) else { return "bad-op".into() };
    let mut ctx = Context::new_empty();
    ctx.evm.inner.env.tx.gas_limit = txgas;
    if mainnet::last_frame_return::<CancunSpec, _, _>(&mut ctx, &mut fr).is_err() {
        return "err".into();
    }
    format!("{:?} {}", fr.interpreter_result().result, gas_str(fr.gas()))
}

#[cfg(feature = "optimism")]
fn exec_lfrop(t: &[&str]) -> String {
    use revm::primitives::{BedrockSpec, RegolithSpec};
    if t.len() != 9 {
        return "bad-op".into();
    }
    let (Some(r), Some(l), Some(rem), Some(f), Some(txgas)) = (ir_of(t[1]), u64h(t[2]), u64h(t[3]), i64d(t[4]), u64h(t[5])) else {
        return "bad-op".into();
    };
    let Some(g) = mk_gas(l, rem, f) else { return "bad-op".into() };
    let Some(mut fr) = frame_result(t[0], ires(r, vec![], g)) else { return "bad-op".into() };
    let mut ctx = Context::new_empty();
    ctx.evm.inner.env.tx.gas_limit = txgas;
    ctx.evm.inner.env.tx.optimism.source_hash = if t[6] == "1" { Some(B256::ZERO) } else { None };
    ctx.evm.inner.env.tx.optimism.is_system_transaction = match t[7] {
        "-" => None,
        "1" => Some(true),
        _ => Some(false),
    };
    let ok = if t[8] == "1" {
        revm::optimism::last_frame_return::<RegolithSpec, _, _>(&mut ctx, &mut fr).is_ok()
    } else {
        revm::optimism::last_frame_return::<BedrockSpec, _, _>(&mut ctx, &mut fr).is_ok()
    };
    if !ok {
        return "err".into();
    }
    format!("{:?} {}", fr.interpreter_result().result, gas_str(fr.gas()))
}
#[cfg(not(feature = "optimism"))]
fn exec_lfrop(_t: &[&str]) -> String {
    "bad-op".into()
}

fn mk_interp(pl: u64, pr: u64, pf: i64, eof: bool, stack: usize) -> Option<Interpreter> {
    let mut i = Interpreter::new(Contract::default(), pl, false);
    i.gas = mk_gas(pl, pr, pf)?;
    i.is_eof = eof;
    i.instruction_result = InstructionResult::CallOrCreate;
    if stack > 1024 {
        return None;
    }
    for k in 0..stack {
        i.stack.push(U256::from(k as u64 + 7)).ok()?;
    }
    Some(i)
}
fn interp_str(i: &Interpreter) -> String {
    format!(
        "res={:?} gas={:x},{:x},{} n={} top={} rd={}",
        i.instruction_result,
        i.gas.limit(),
        i.gas.remaining(),
        i.gas.refunded(),
        i.stack.len(),
        i.stack.data().last().map(|w| hx(*w)).unwrap_or("-".into()),
        hxb(&i.return_data_buffer)
    )
}
fn exec_ico(t: &[&str]) -> String {
    if t.len() != 13 {
        return "bad-op".into();
    }
    let (Some(r), Some(cl), Some(cr), Some(cf), Some(pl), Some(pr), Some(pf)) =
        (ir_of(t[0]), u64h(t[1]), u64h(t[2]), i64d(t[3]), u64h(t[4]), u64h(t[5]), i64d(t[6]))
    else {
        return "bad-op".into();
    };
    let eof = t[7] == "1";
    let (Some(stack), Some(memlen), Some(start), Some(end), Some(output)) =
        (u64h(t[8]), u64h(t[9]), u64h(t[10]), u64h(t[11]), bytes_of(t[12]))
    else {
        return "bad-op".into();
    };
    if t[7] != "0" && t[7] != "1" || memlen > 4096 || start > end || end > memlen || output.len() > 4096 {
        return "bad-op".into();
    }
    let (Some(cg), Some(mut interp)) = (mk_gas(cl, cr, cf), mk_interp(pl, pr, pf, eof, stack as usize)) else {
        return "bad-op".into();
    };
    if r == InstructionResult::FatalExternalError {
        // the Rust panics deliberately; the model predicts it
    }
    let mut sm = SharedMemory::new();
    sm.new_context();
    sm.resize(memlen as usize);
    for b in sm.context_memory_mut() {
        *b = 0xaa;
    }
    interp.insert_call_outcome(&mut sm, CallOutcome::new(ires(r, output, cg), start as usize..end as usize));
    format!("{} mem={}", interp_str(&interp), hxb(sm.context_memory()))
}
fn exec_icr(eofc: bool, t: &[&str]) -> String {
    if t.len() != 10 {
        return "bad-op".into();
    }
    let (Some(r), Some(cl), Some(cr), Some(cf), Some(pl), Some(pr), Some(pf), Some(stack), Some(output)) = (
        ir_of(t[0]),
        u64h(t[1]),
        u64h(t[2]),
        i64d(t[3]),
        u64h(t[4]),
        u64h(t[5]),
        i64d(t[6]),
        u64h(t[7]),
        bytes_of(t[9]),
    ) else {
        return "bad-op".into();
    };
    let addr = if t[8] == "-" {
        None
    } else {
        match u64h(t[8]) {
            Some(a) => Some(Address::from_word(B256::from(U256::from(a)))),
            None => return "bad-op".into(),
        }
    };
    let (Some(cg), Some(mut interp)) = (mk_gas(cl, cr, cf), mk_interp(pl, pr, pf, false, stack as usize)) else {
        return "bad-op".into();
    };
    let o = CreateOutcome::new(ires(r, output, cg), addr);
    if eofc {
        interp.insert_eofcreate_outcome(o);
    } else {
        interp.insert_create_outcome(o);
    }
    interp_str(&interp)
}

/// GasInspector end callback -> last_frame_return -> refund -> EIP-7623 floor -> what `output` reports
fn pipe(london: bool, txgas: u64, kind: &str, r: InstructionResult, g: Gas, refund7702: i64, floor: u64) -> Option<(u64, u64, bool)> {
    let after = end_with(&mut GasInspector::default(), kind, ires(r, vec![], g), 0)?;
    let mut fr = frame_result(kind, after)?;
    let mut ctx = Context::new_empty();
    ctx.evm.inner.env.tx.gas_limit = txgas;
    mainnet::last_frame_return::<CancunSpec, _, _>(&mut ctx, &mut fr).ok()?;
    if london {
        mainnet::refund::<LondonSpec, _, _>(&mut ctx, fr.gas_mut(), refund7702);
    } else {
        mainnet::refund::<BerlinSpec, _, _>(&mut ctx, fr.gas_mut(), refund7702);
    }
    if fr.gas().spent_sub_refunded() < floor {
        fr.gas_mut().set_spent(floor);
        fr.gas_mut().set_refund(0);
    }
    let refunded = fr.gas().refunded() as u64;
    Some((fr.gas().spent().wrapping_sub(refunded), refunded, r.is_ok()))
}
fn exec_pipe(t: &[&str]) -> String {
    if t.len() != 9 {
        return "bad-op".into();
    }
    let (Some(txgas), Some(r), Some(l), Some(rem), Some(f), Some(r77), Some(floor)) =
        (u64h(t[1]), ir_of(t[3]), u64h(t[4]), u64h(t[5]), i64d(t[6]), i64d(t[7]), u64h(t[8]))
    else {
        return "bad-op".into();
    };
    if t[0] != "0" && t[0] != "1" || l > txgas || r77 < 0 {
        return "bad-op".into();
    }
    let Some(g) = mk_gas(l, rem, f) else { return "bad-op".into() };
    match pipe(t[0] == "1", txgas, t[2], r, g, r77, floor) {
        Some((u, rf, _)) => format!("used={:x} refunded={:x}", u, rf),
        None => "bad-op".into(),
    }
}

// ------------------------------------------------------------------------------------------ transactions

fn addr(n: u8) -> Address {
    Address::with_last_byte(n)
}
const CALLER: u8 = 0xc0;
const A: u8 = 0xa0;
const B: u8 = 0xb0;
const C: u8 = 0xc1;
const EOA: u8 = 0xe0;
const AUTH1: u8 = 0xf1; // existing funded account (refund)
const AUTH2: u8 = 0xf2; // not in the database
const COINBASE: u8 = 0xcb;

#[derive(Clone, Debug)]
pub struct TxReq {
    spec: SpecId,
    ty: u8,
    gas: u64,
    price: U256,
    tip: Option<U256>,
    basefee: U256,
    value: U256,
    to: Option<Address>,
    data: Vec<u8>,
    acl: bool,
    auth: u8,
    col: bool,
    tr: u8,
    a: Vec<u8>,
    b: Vec<u8>,
    c: Vec<u8>,
}

fn parse_tx(t: &[&str]) -> Option<(TxReq, String)> {
    const KEYS: [&str; 17] =
        ["spec", "ty", "gas", "price", "tip", "basefee", "value", "to", "data", "acl", "auth", "col", "tr", "a", "b", "c", "rec"];
    let mut m: BTreeMap<&str, &str> = BTreeMap::new();
    if t.len() != 17 {
        return None;
    }
    for (i, kv) in t.iter().enumerate() {
        let (k, v) = kv.split_once('=')?;
        if k != KEYS[i] || v.contains('=') {
            return None;
        }
        m.insert(k, v);
    }
    let hexw = |k: &str| U256::from_str_radix(m.get(k)?, 16).ok();
    let spec = SpecId::try_from_u8(m.get("spec")?.parse::<u8>().ok()?)?;
    let to = match *m.get("to")? {
        "create" => None,
        s => Some(Address::from_word(B256::from(U256::from_str_radix(s, 16).ok()?))),
    };
    let tip = match *m.get("tip")? {
        "-" => None,
        s => Some(U256::from_str_radix(s, 16).ok()?),
    };
    let b = |k: &str| match *m.get(k)? {
        "0" => Some(false),
        "1" => Some(true),
        _ => None,
    };
    let r = TxReq {
        spec,
        ty: m.get("ty")?.parse().ok()?,
        gas: u64h(m.get("gas")?)?,
        price: hexw("price")?,
        tip,
        basefee: hexw("basefee")?,
        value: hexw("value")?,
        to,
        data: bytes_of(m.get("data")?)?,
        acl: b("acl")?,
        auth: m.get("auth")?.parse().ok()?,
        col: b("col")?,
        tr: m.get("tr")?.parse().ok()?,
        a: bytes_of(m.get("a")?)?,
        b: bytes_of(m.get("b")?)?,
        c: bytes_of(m.get("c")?)?,
    };
    if r.ty > 4 || r.auth > 3 || r.tr > 3 {
        return None;
    }
    Some((r, m.get("rec")?.to_string()))
}

fn fmt_tx(r: &TxReq, rec: &str) -> String {
    format!(
        "inspwrap tx spec={} ty={} gas={:x} price={} tip={} basefee={} value={} to={} data={} acl={} auth={} col={} tr={} a={} b={} c={} rec={}",
        r.spec as u8,
        r.ty,
        r.gas,
        hx(r.price),
        r.tip.map(hx).unwrap_or("-".into()),
        hx(r.basefee),
        hx(r.value),
        r.to.map(|a| hx(U256::from_be_slice(a.as_slice()))).unwrap_or("create".into()),
        hxb(&r.data),
        b01(r.acl),
        r.auth,
        b01(r.col),
        r.tr,
        hxb(&r.a),
        hxb(&r.b),
        hxb(&r.c),
        rec
    )
}

fn code_acc(code: &[u8], balance: u64, nonce: u64) -> AccountInfo {
    let bc = Bytecode::new_raw(Bytes::from(code.to_vec()));
    AccountInfo { balance: U256::from(balance), nonce, code_hash: bc.hash_slow(), code: Some(bc) }
}

fn build_db(r: &TxReq) -> CacheDB<EmptyDB> {
    let mut db = CacheDB::new(EmptyDB::new());
    db.insert_account_info(addr(CALLER), AccountInfo { balance: U256::from(1u128 << 100), nonce: 0, ..Default::default() });
    db.insert_account_info(addr(A), code_acc(&r.a, 1000, 1));
    db.insert_account_info(addr(B), code_acc(&r.b, 5, 1));
    db.insert_account_info(addr(C), code_acc(&r.c, 0, 1));
    db.insert_account_info(addr(EOA), AccountInfo { balance: U256::from(3), nonce: 0, ..Default::default() });
    db.insert_account_info(addr(AUTH1), AccountInfo { balance: U256::from(9), nonce: 0, ..Default::default() });
    db.insert_account_storage(addr(A), U256::from(1), U256::from(0x11)).unwrap();
    db.insert_account_storage(addr(B), U256::from(1), U256::from(0x22)).unwrap();
    if r.col {
        // an account with a nonce at the address a create transaction of the caller would use
        db.insert_account_info(addr(CALLER).create(0), AccountInfo { balance: U256::ZERO, nonce: 1, ..Default::default() });
    }
    db
}

fn access_list() -> Vec<AccessListItem> {
    vec![
        AccessListItem { address: addr(B), storage_keys: vec![B256::with_last_byte(1), B256::with_last_byte(2)] },
        AccessListItem { address: addr(A), storage_keys: vec![B256::with_last_byte(1)] },
    ]
}

fn fill_env(env: &mut Env, r: &TxReq) {
    env.block.number = U256::from(1000);
    env.block.timestamp = U256::from(1_700_000_000u64);
    env.block.coinbase = addr(COINBASE);
    env.block.basefee = r.basefee;
    env.block.gas_limit = U256::MAX;
    env.block.prevrandao = Some(B256::with_last_byte(0x77));
    env.block.difficulty = U256::from(0x20000);
    env.block.set_blob_excess_gas_and_price(0, SpecId::enabled(r.spec, SpecId::PRAGUE));
    let tx = &mut env.tx;
    tx.caller = addr(CALLER);
    tx.gas_limit = r.gas;
    tx.gas_price = r.price;
    tx.gas_priority_fee = r.tip;
    tx.value = r.value;
    tx.data = Bytes::from(r.data.clone());
    tx.transact_to = match r.to {
        Some(a) => TxKind::Call(a),
        None => TxKind::Create,
    };
    tx.nonce = None;
    tx.chain_id = None;
    if r.acl {
        tx.access_list = access_list();
    }
    if r.ty == 3 {
        let mut h = B256::with_last_byte(0x42);
        h.0[0] = 0x01;
        tx.blob_hashes = vec![h];
        tx.max_fee_per_blob_gas = Some(U256::from(1000));
    }
    if r.ty == 4 {
        let mut v = vec![];
        for k in 0..r.auth {
            // 0: existing account -> refund; 1: fresh account; 2: wrong nonce (skipped)
            let (authority, nonce) = match k {
                0 => (addr(AUTH1), 0),
                1 => (addr(AUTH2), 0),
                _ => (addr(EOA), 5),
            };
            v.push(RecoveredAuthorization::new_unchecked(
                Authorization { chain_id: U256::from(1), address: addr(B), nonce },
                RecoveredAuthority::Valid(authority),
            ));
        }
        tx.authorization_list = Some(v.into());
    }
}

fn canon_state(st: &EvmState) -> String {
    let mut v: Vec<_> = st.iter().collect();
    v.sort_by_key(|(a, _)| **a);
    let mut s = String::new();
    for (a, acc) in v {
        let mut slots: Vec<_> = acc.storage.iter().collect();
        slots.sort_by_key(|(k, _)| **k);
        let sl: Vec<String> = slots
            .iter()
            .map(|(k, v)| format!("{:x}:{:x}>{:x}{}", k, v.original_value, v.present_value, if v.is_cold { "c" } else { "" }))
            .collect();
        s.push_str(&format!(
            "{:x}(b={:x},n={},h={:x},code={},st={:?})[{}];",
            a,
            acc.info.balance,
            acc.info.nonce,
            acc.info.code_hash,
            acc.info.code.as_ref().map(|c| hxb(c.original_byte_slice())).unwrap_or("none".into()),
            acc.status,
            sl.join(",")
        ));
    }
    s
}

/// (canonical result text, canonical state text, gas_used, gas_refunded) or the rejection
type RunOut = Result<(String, String, u64, Option<u64>), String>;

fn canon(res: Result<ResultAndState, String>) -> RunOut {
    match res {
        Err(e) => Err(e),
        Ok(rs) => {
            let rf = match &rs.result {
                revm::primitives::ExecutionResult::Success { gas_refunded, .. } => Some(*gas_refunded),
                _ => None,
            };
            Ok((format!("{:?}", rs.result), canon_state(&rs.state), rs.result.gas_used(), rf))
        }
    }
}

fn run_plain(r: &TxReq) -> RunOut {
    let mut evm = Evm::builder().with_db(build_db(r)).with_spec_id(r.spec).modify_env(|e| fill_env(e, r)).build();
    canon(evm.transact().map_err(|e| format!("{:?}", e)))
}

/// the same transaction twice on ONE `Evm` (nothing is committed in between): the second result
fn run_plain_twice(r: &TxReq) -> RunOut {
    let mut evm = Evm::builder().with_db(build_db(r)).with_spec_id(r.spec).modify_env(|e| fill_env(e, r)).build();
    let _ = evm.transact();
    canon(evm.transact().map_err(|e| format!("{:?}", e)))
}
/// the same with an inspector: its state and the register's input stacks survive the first transaction
fn run_insp_twice<I: Inspector<CacheDB<EmptyDB>>>(r: &TxReq, insp: I) -> RunOut {
    let mut evm = Evm::builder()
        .with_db(build_db(r))
        .with_external_context(insp)
        .with_spec_id(r.spec)
        .modify_env(|e| fill_env(e, r))
        .append_handler_register(inspector_handle_register)
        .build();
    let _ = evm.transact();
    canon(evm.transact().map_err(|e| format!("{:?}", e)))
}

fn run_insp<I: Inspector<CacheDB<EmptyDB>>>(r: &TxReq, insp: I) -> (RunOut, I) {
    let mut evm = Evm::builder()
        .with_db(build_db(r))
        .with_external_context(insp)
        .with_spec_id(r.spec)
        .modify_env(|e| fill_env(e, r))
        .append_handler_register(inspector_handle_register)
        .build();
    let out = canon(evm.transact().map_err(|e| format!("{:?}", e)));
    (out, evm.into_context().external)
}

/// pure delegation to a `GasInspector`, recording what passes through
#[derive(Default)]
pub struct RecGas {
    inner: GasInspector,
    first: Option<(&'static str, InstructionResult, Gas)>,
    ends: u64,
    modified: u64,
    max_depth: u64,
    steps: u64,
    logs: u64,
    selfdestructs: u64,
    nonok_ends: u64,
    /// test switch (env VERIF_C28_MUTANT, never set by ./check): `revert` makes call_end spend the gas of
    /// REVERT-class outcomes too, `step` charges 1 gas in every `step` - both are NOT observing and must be
    /// reported as `differ recgas …`
    mutant: u8,
}
impl RecGas {
    fn note(&mut self, depth: u64, kind: &'static str, r: &InterpreterResult) {
        self.ends += 1;
        if !r.result.is_ok() {
            self.nonok_ends += 1;
        }
        if r.result.is_error() && r.gas.remaining() > 0 {
            self.modified += 1;
        }
        if depth == 0 {
            self.first = Some((kind, r.result, r.gas));
        }
    }
}
impl<DB: Database> Inspector<DB> for RecGas {
    fn initialize_interp(&mut self, interp: &mut Interpreter, context: &mut EvmContext<DB>) {
        self.max_depth = self.max_depth.max(context.journaled_state.depth());
        self.inner.initialize_interp(interp, context)
    }
    fn step(&mut self, interp: &mut Interpreter, context: &mut EvmContext<DB>) {
        self.steps += 1;
        if self.mutant == 2 {
            let _ = interp.gas.record_cost(1);
        }
        self.inner.step(interp, context)
    }
    fn step_end(&mut self, interp: &mut Interpreter, context: &mut EvmContext<DB>) {
        self.inner.step_end(interp, context)
    }
    fn log(&mut self, interp: &mut Interpreter, context: &mut EvmContext<DB>, log: &revm::primitives::Log) {
        self.logs += 1;
        self.inner.log(interp, context, log)
    }
    fn call(&mut self, context: &mut EvmContext<DB>, inputs: &mut CallInputs) -> Option<CallOutcome> {
        self.inner.call(context, inputs)
    }
    fn call_end(&mut self, context: &mut EvmContext<DB>, inputs: &CallInputs, outcome: CallOutcome) -> CallOutcome {
        self.note(context.journaled_state.depth(), "call", &outcome.result);
        let mut outcome = self.inner.call_end(context, inputs, outcome);
        if self.mutant == 1 && outcome.result.result.is_revert() {
            outcome.result.gas.spend_all();
        }
        outcome
    }
    fn create(&mut self, context: &mut EvmContext<DB>, inputs: &mut CreateInputs) -> Option<CreateOutcome> {
        self.inner.create(context, inputs)
    }
    fn create_end(&mut self, context: &mut EvmContext<DB>, inputs: &CreateInputs, outcome: CreateOutcome) -> CreateOutcome {
        self.note(context.journaled_state.depth(), "create", &outcome.result);
        self.inner.create_end(context, inputs, outcome)
    }
    fn eofcreate(&mut self, context: &mut EvmContext<DB>, inputs: &mut EOFCreateInputs) -> Option<CreateOutcome> {
        self.inner.eofcreate(context, inputs)
    }
    fn eofcreate_end(&mut self, context: &mut EvmContext<DB>, inputs: &EOFCreateInputs, outcome: CreateOutcome) -> CreateOutcome {
        self.note(context.journaled_state.depth(), "eofcreate", &outcome.result);
        self.inner.eofcreate_end(context, inputs, outcome)
    }
    fn selfdestruct(&mut self, contract: Address, target: Address, value: U256) {
        self.selfdestructs += 1;
        Inspector::<DB>::selfdestruct(&mut self.inner, contract, target, value)
    }
}

fn excerpt(a: &str, b: &str) -> String {
    let pos = a.bytes().zip(b.bytes()).position(|(x, y)| x != y).unwrap_or(a.len().min(b.len()));
    let from = pos.saturating_sub(30);
    let cut = |s: &str| s.chars().skip(from).take(90).collect::<String>().replace(' ', "_");
    format!("at={} plain={} inspected={}", pos, cut(a), cut(b))
}
fn diff(name: &str, plain: &RunOut, other: &RunOut) -> Option<String> {
    match (plain, other) {
        (Err(a), Err(b)) if a == b => None,
        (Ok(a), Ok(b)) => {
            if a.0 != b.0 {
                Some(format!("differ {name} result {}", excerpt(&a.0, &b.0)))
            } else if a.1 != b.1 {
                Some(format!("differ {name} state {}", excerpt(&a.1, &b.1)))
            } else {
                None
            }
        }
        (a, b) => {
            let s = |x: &RunOut| match x {
                Ok(v) => v.0.clone(),
                Err(e) => format!("Err({e})"),
            };
            Some(format!("differ {name} result {}", excerpt(&s(a), &s(b))))
        }
    }
}

/// the `rec=` field: first-frame outcome as seen by the end callback at depth 0 + the numbers the tail needs
fn rec_of(r: &TxReq, rg: &RecGas) -> String {
    let Some((kind, res, g)) = rg.first else { return "-".into() };
    let acl: Vec<AccessListItem> = if r.acl { access_list() } else { vec![] };
    let nauth = if r.ty == 4 { r.auth as u64 } else { 0 };
    let ig = revm::interpreter::gas::calculate_initial_tx_gas(r.spec, &r.data, r.to.is_none(), &acl, nauth);
    // authority 0 (AUTH1) exists and is not empty: one refund of PER_EMPTY_ACCOUNT_COST - PER_AUTH_BASE_COST
    let refund7702: i64 = if r.ty == 4 && r.auth >= 1 && SpecId::enabled(r.spec, SpecId::PRAGUE) { 12500 } else { 0 };
    format!(
        "{kind},{:?},{:x},{:x},{},{},{:x},{:x},{}",
        res,
        g.limit(),
        g.remaining(),
        g.refunded(),
        refund7702,
        ig.floor_gas,
        r.gas,
        b01(SpecId::enabled(r.spec, SpecId::LONDON))
    )
}

pub struct TxStats {
    pub rg: Option<RecGas>,
    pub class: String,
}

fn exec_tx_req(r: &TxReq, rec: &str) -> (String, TxStats) {
    let plain = run_plain(r);
    let (noop, _) = run_insp(r, NoOpInspector);
    let (gas, _) = run_insp(r, GasInspector::default());
    let mut tr = TracerEip3155::new(Box::new(std::io::sink()));
    if r.tr & 1 == 1 {
        tr = tr.with_memory();
    }
    if r.tr & 2 == 2 {
        tr = tr.without_summary();
    }
    let (tracer, _) = run_insp(r, tr);
    let mutant = match std::env::var("VERIF_C28_MUTANT").as_deref() {
        Ok("revert") => 1,
        Ok("step") => 2,
        _ => 0,
    };
    let (recd, rg) = run_insp(r, RecGas { mutant, ..Default::default() });
    let class = match &plain {
        Err(e) => format!("rejected:{}", e.split(|c: char| !c.is_alphanumeric()).filter(|x| !x.is_empty()).nth(1).unwrap_or("?")),
        Ok(v) => v.0.split(|c: char| !c.is_alphanumeric()).next().unwrap_or("?").to_string(),
    };
    let stats = TxStats { rg: Some(rg), class };
    for (name, other) in [("noop", &noop), ("gas", &gas), ("tracer", &tracer), ("recgas", &recd)] {
        if let Some(d) = diff(name, &plain, other) {
            return (d, stats);
        }
    }
    // second transaction on a reused Evm: plain against GasInspector and tracer (state and stacks survive)
    let plain2 = run_plain_twice(r);
    let gas2 = run_insp_twice(r, GasInspector::default());
    let tracer2 = run_insp_twice(r, TracerEip3155::new(Box::new(std::io::sink())));
    for (name, b) in [("second-gas", &gas2), ("second-tracer", &tracer2)] {
        if let Some(d) = diff(name, &plain2, b) {
            return (d, stats);
        }
    }
    let reply = match (&plain, rec) {
        (_, "-") => "same".to_string(),
        (Ok(v), _) => format!("same used={:x} refunded={}", v.2, v.3.map(|x| format!("{:x}", x)).unwrap_or("-".into())),
        (Err(_), _) => "same rejected".to_string(),
    };
    (reply, stats)
}

fn exec_tx(t: &[&str]) -> (String, Option<TxStats>) {
    match parse_tx(t) {
        Some((r, rec)) => {
            let r2 = r.clone();
            let rec2 = rec.clone();
            let res = std::panic::catch_unwind(move || exec_tx_req(&r2, &rec2));
            match res {
                Ok((s, st)) => (s, Some(st)),
                Err(_) => ("panic".into(), None),
            }
        }
        None => ("bad-op".into(), None),
    }
}

pub fn exec_line(line: &str) -> (String, Option<TxStats>) {
    let t: Vec<&str> = line.split(' ').collect();
    if t.len() < 2 || t[0] != "inspwrap" {
        return ("bad-op".into(), None);
    }
    let rest: Vec<String> = t[2..].iter().map(|s| s.to_string()).collect();
    let op = t[1].to_string();
    if op == "tx" {
        return exec_tx(&t[2..]);
    }
    let s = guarded(move || {
        let rest: Vec<&str> = rest.iter().map(|s| s.as_str()).collect();
        match op.as_str() {
            "cls" => exec_cls(&rest),
            "end" => exec_end(&rest),
            "lfr" => exec_lfr(&rest),
            "lfrop" => exec_lfrop(&rest),
            "ico" => exec_ico(&rest),
            "icr" => exec_icr(false, &rest),
            "ieo" => exec_icr(true, &rest),
            "pipe" => exec_pipe(&rest),
            _ => "bad-op".into(),
        }
    });
    (s, None)
}

// ------------------------------------------------------------------------------------------ program generator

struct Asm(Vec<u8>);
impl Asm {
    fn op(&mut self, b: u8) -> &mut Self {
        self.0.push(b);
        self
    }
    fn push(&mut self, v: U256) -> &mut Self {
        let be = v.to_be_bytes::<32>();
        let skip = be.iter().position(|b| *b != 0).unwrap_or(31);
        let bytes = &be[skip..];
        self.0.push(0x5f + bytes.len() as u8);
        self.0.extend_from_slice(bytes);
        self
    }
    fn pu(&mut self, v: u64) -> &mut Self {
        self.push(U256::from(v))
    }
    /// PUSH32 of up to 32 bytes left-aligned (for MSTORE of init code)
    fn push_left(&mut self, bytes: &[u8]) -> &mut Self {
        let mut w = [0u8; 32];
        w[..bytes.len().min(32)].copy_from_slice(&bytes[..bytes.len().min(32)]);
        self.0.push(0x7f);
        self.0.extend_from_slice(&w);
        self
    }
}

fn en(spec: SpecId, s: SpecId) -> bool {
    SpecId::enabled(spec, s)
}

const INITCODES: &[&[u8]] = &[
    &[0x60, 0x00, 0x60, 0x00, 0x53, 0x60, 0x01, 0x60, 0x00, 0xf3],             // deploys `00`
    &[0x60, 0xfe, 0x60, 0x00, 0x53, 0x60, 0x01, 0x60, 0x00, 0xf3],             // deploys `fe`
    &[0x60, 0x00, 0x60, 0x00, 0xf3],                                           // deploys empty code
    &[0x60, 0x2a, 0x60, 0x00, 0x52, 0x60, 0x20, 0x60, 0x00, 0xfd],             // REVERT with 32 bytes
    &[0xfe],                                                                   // INVALID
    &[0x00],                                                                   // STOP
    &[0x33, 0xff],                                                             // SELFDESTRUCT(caller)
    &[0x60, 0xef, 0x60, 0x00, 0x53, 0x60, 0x01, 0x60, 0x00, 0xf3],             // deploys code starting with EF
    &[0x60, 0x01, 0x60, 0x01, 0x55, 0x60, 0x00, 0x60, 0x00, 0xf3],             // SSTORE then empty code
    &[0x5b, 0x60, 0x00, 0x56],                                                 // loop until out of gas
    &[0x60, 0x00, 0x60, 0x00, 0xa0, 0x00],                                     // LOG0 then STOP
    &[0x61, 0x60, 0x01, 0x60, 0x00, 0xf3],                                     // returns 0x6001 bytes (> max code size)
    &[0x60, 0x00, 0x60, 0x00, 0x60, 0x00, 0x60, 0x00, 0x60, 0x00, 0x60, 0xb0, 0x5a, 0xf1, 0x00], // CALL B then STOP
    &[0x50],                                                                   // stack underflow
    &[0x60, 0x05, 0x56],                                                       // invalid jump
    &[],                                                                       // empty init code
];

fn gas_arg(rng: &mut Rng, a: &mut Asm) {
    match rng.below(12) {
        0 => a.pu(0),
        1 => a.pu(1),
        2 => a.pu(700),
        3 => a.pu(2300),
        4 => a.pu(2301),
        5 => a.pu(9000),
        6 => a.pu(30000),
        7 => a.pu(100000),
        8 | 9 => a.op(0x5a),
        10 => a.push(U256::from(u64::MAX)),
        _ => a.push(U256::MAX),
    };
}

fn target(rng: &mut Rng, level: u8) -> U256 {
    let t = match rng.below(16) {
        0..=4 => {
            if level == 0 {
                B
            } else {
                C
            }
        }
        5 => A,
        6 => B,
        7 => C,
        8 => EOA,
        9 => 0xdd,
        10 => COINBASE,
        _ => rng.range(1, 10) as u8,
    };
    U256::from(t)
}

/// one balanced template (leaves the stack as it found it)
fn template(rng: &mut Rng, spec: SpecId, level: u8, a: &mut Asm, out: &mut Vec<&'static str>) {
    match rng.below(20) {
        0 | 1 => {
            a.push(rng.word()).push(rng.word()).op(*rng.pick(&[0x01u8, 0x02, 0x03, 0x04, 0x06, 0x0a, 0x10, 0x16, 0x1b])).op(0x50);
            out.push("arith");
        }
        2 | 3 => {
            a.push(U256::from(rng.below(4))).pu(rng.below(4)).op(0x55);
            out.push("sstore");
        }
        4 => {
            a.pu(rng.below(4)).op(0x54).op(0x50);
            out.push("sload");
        }
        5 => {
            a.push(rng.word()).pu(rng.below(96)).op(0x52);
            out.push("mstore");
        }
        6 | 7 => {
            let n = rng.below(5) as u8;
            for k in 0..n {
                a.pu(0x70 + k as u64);
            }
            a.pu(rng.below(40)).pu(rng.below(64)).op(0xa0 + n);
            out.push("log");
        }
        8..=13 => {
            // CALL family
            let kind = *rng.pick(&[0xf1u8, 0xf1, 0xf1, 0xf2, 0xf4, 0xfa]);
            let kind = if kind == 0xf4 && !en(spec, SpecId::HOMESTEAD) || kind == 0xfa && !en(spec, SpecId::BYZANTIUM) {
                0xf1
            } else {
                kind
            };
            a.pu(rng.below(40)).pu(rng.below(64)).pu(rng.below(40)).pu(rng.below(64));
            if kind == 0xf1 || kind == 0xf2 {
                match rng.below(6) {
                    0 | 1 | 2 => a.pu(0),
                    3 | 4 => a.pu(1),
                    _ => a.pu(1 << 40),
                };
            }
            a.push(target(rng, level));
            gas_arg(rng, a);
            a.op(kind);
            if rng.chance(1, 2) {
                a.op(0x50);
            } else {
                a.pu(2 + rng.below(2)).op(0x55);
            }
            if en(spec, SpecId::BYZANTIUM) && rng.chance(1, 4) {
                a.op(0x3d).pu(3).op(0x55);
            }
            out.push("call");
        }
        14 | 15 | 16 => {
            let code = *rng.pick(INITCODES);
            let two = en(spec, SpecId::PETERSBURG) && rng.chance(1, 2);
            a.push_left(code).pu(0).op(0x52);
            if two {
                a.pu(rng.below(3));
            }
            a.pu(code.len() as u64).pu(0);
            match rng.below(5) {
                0 | 1 | 2 => a.pu(0),
                3 => a.pu(1),
                _ => a.pu(1 << 40),
            };
            a.op(if two { 0xf5 } else { 0xf0 });
            if rng.chance(1, 2) {
                a.op(0x50);
            } else {
                a.pu(3).op(0x55);
            }
            out.push(if two { "create2" } else { "create" });
        }
        17 => {
            a.push(target(rng, level)).op(*rng.pick(&[0x31u8, 0x3b, 0x3f])).op(0x50);
            out.push("extacc");
        }
        18 => {
            if en(spec, SpecId::CANCUN) {
                a.pu(7).pu(rng.below(3)).op(0x5d).pu(rng.below(3)).op(0x5c).op(0x50);
                out.push("transient");
            } else {
                a.op(0x5a).op(0x50);
                out.push("gasop");
            }
        }
        _ => {
            a.pu(rng.below(64)).pu(rng.below(64)).op(0x20).op(0x50);
            out.push("keccak");
        }
    }
}

fn terminator(rng: &mut Rng, a: &mut Asm, out: &mut Vec<&'static str>) {
    match rng.below(14) {
        0 | 1 => {
            a.op(0x00);
            out.push("t:stop");
        }
        2 | 3 => {
            a.pu(rng.below(40)).pu(rng.below(32)).op(0xf3);
            out.push("t:return");
        }
        4 | 5 => {
            a.pu(rng.below(40)).pu(rng.below(32)).op(0xfd);
            out.push("t:revert");
        }
        6 => {
            a.op(0xfe);
            out.push("t:invalid");
        }
        7 => {
            a.push(U256::from(*rng.pick(&[EOA, A, B, 0xdd, CALLER, C]))).op(0xff);
            out.push("t:selfdestruct");
        }
        8 => {
            a.pu(3).op(0x56);
            out.push("t:badjump");
        }
        9 => {
            a.op(0x50);
            out.push("t:underflow");
        }
        10 => {
            a.op(0x0c);
            out.push("t:undefined");
        }
        11 => {
            a.pu(1).push(U256::from(*rng.pick(&[0xffff_ffffu64, 0x7fff_ffff, u64::MAX, 1 << 22]))).op(0x52);
            out.push("t:memoog");
        }
        12 => {
            // burn everything: JUMPDEST PUSH1 pc JUMP
            let pc = a.0.len() as u64;
            a.op(0x5b).pu(pc).op(0x56);
            out.push("t:loop");
        }
        _ => out.push("t:falloff"),
    }
}

fn program(rng: &mut Rng, spec: SpecId, level: u8, out: &mut Vec<&'static str>) -> Vec<u8> {
    let mut a = Asm(vec![]);
    let n = match level {
        0 => rng.range(1, 7),
        1 => rng.range(0, 4),
        _ => rng.range(0, 2),
    };
    for _ in 0..n {
        template(rng, spec, level, &mut a, out);
    }
    terminator(rng, &mut a, out);
    a.0
}

fn specs_pool() -> Vec<SpecId> {
    use SpecId::*;
    vec![
        FRONTIER, HOMESTEAD, TANGERINE, SPURIOUS_DRAGON, BYZANTIUM, CONSTANTINOPLE, PETERSBURG, ISTANBUL, BERLIN, LONDON,
        MERGE, SHANGHAI, CANCUN, CANCUN, PRAGUE, PRAGUE, OSAKA,
    ]
}

const GAS_LIMITS: &[u64] = &[
    21000, 21001, 21016, 21100, 22000, 23000, 25000, 30000, 32000, 53000, 53500, 60000, 100000, 300000, 1_000_000,
    5_000_000,
];

fn gen_tx(rng: &mut Rng, tags: &mut Vec<&'static str>) -> TxReq {
    let spec = *rng.pick(&specs_pool());
    let mut ty = match rng.below(10) {
        0..=3 => 0,
        4 => 1,
        5 | 6 => 2,
        7 => 3,
        _ => 4,
    };
    // keep the type admissible for the fork (5% stay inadmissible: rejected transactions)
    if !rng.chance(1, 20) {
        if ty == 4 && !en(spec, SpecId::PRAGUE) {
            ty = 3;
        }
        if ty == 3 && !en(spec, SpecId::CANCUN) {
            ty = 2;
        }
        if ty == 2 && !en(spec, SpecId::LONDON) {
            ty = 1;
        }
        if ty == 1 && !en(spec, SpecId::BERLIN) {
            ty = 0;
        }
    }
    let a = program(rng, spec, 0, tags);
    let b = program(rng, spec, 1, tags);
    let c = program(rng, spec, 2, tags);
    let basefee = if en(spec, SpecId::LONDON) { U256::from(rng.below(3) * 7) } else { U256::ZERO };
    let tip = if ty >= 2 { Some(U256::from(rng.below(3))) } else { None };
    // max fee >= basefee + tip except in 1 of 25 cases
    let price = basefee + U256::from(*rng.pick(&[0u64, 0, 1, 10])) + if rng.chance(24, 25) { tip.unwrap_or(U256::ZERO) } else { U256::ZERO };
    let (to, data): (Option<Address>, Vec<u8>) = match rng.below(20) {
        0..=11 => {
            let k = rng.below(40) as usize;
            (Some(addr(A)), rng.bytes(k))
        }
        12 | 13 => {
            let p = rng.range(1, 10) as u8;
            let k = *rng.pick(&[0usize, 1, 32, 64, 128, 213]);
            (Some(addr(p)), rng.bytes(k))
        }
        14 => (Some(addr(EOA)), vec![]),
        15 => (Some(addr(0xdd)), rng.bytes(3)),
        16 => (Some(addr(B)), vec![]),
        _ => {
            if ty >= 3 {
                (Some(addr(A)), vec![])
            } else {
                (None, rng.pick(INITCODES).to_vec())
            }
        }
    };
    let value = match rng.below(30) {
        0..=19 => U256::ZERO,
        20..=28 => U256::from(1),
        _ => U256::from(1u128 << 101),
    };
    let acl = ty >= 1 && rng.chance(2, 3);
    let auth = if ty == 4 { rng.range(1, 3) as u8 } else { 0 };
    // mostly: intrinsic gas (of the real calculation) plus a boundary amount, so that execution starts
    let gas = if rng.chance(1, 12) {
        rng.range(20_990, 80_000)
    } else if rng.chance(1, 8) {
        *rng.pick(GAS_LIMITS)
    } else {
        let al: Vec<AccessListItem> = if acl { access_list() } else { vec![] };
        let ig = revm::interpreter::gas::calculate_initial_tx_gas(spec, &data, to.is_none(), &al, auth as u64);
        ig.initial_gas.max(ig.floor_gas)
            + *rng.pick(&[0u64, 1, 2, 3, 9, 20, 100, 700, 2300, 2600, 5000, 9000, 25000, 32000, 60000, 100000, 300000, 1_000_000, 5_000_000])
    };
    TxReq {
        spec,
        ty,
        gas,
        price,
        tip,
        basefee,
        value,
        to,
        data,
        acl,
        auth,
        col: to.is_none() && rng.chance(1, 4),
        tr: rng.below(4) as u8,
        a,
        b,
        c,
    }
}

/// hand-written boundary transactions: the first frame ends in every class with gas left
fn boundary_txs() -> Vec<TxReq> {
    let base = |spec: SpecId, a: Vec<u8>, gas: u64| TxReq {
        spec,
        ty: 0,
        gas,
        price: U256::ZERO,
        tip: None,
        basefee: U256::ZERO,
        value: U256::ZERO,
        to: Some(addr(A)),
        data: vec![],
        acl: false,
        auth: 0,
        col: false,
        tr: 0,
        a,
        b: vec![0xfe],
        c: vec![0x00],
    };
    let mut v = vec![];
    let firsts: Vec<Vec<u8>> = vec![
        vec![0x00],                                     // STOP
        vec![0xfe],                                     // INVALID with gas left
        vec![0x60, 0x03, 0x56],                         // invalid jump with gas left
        vec![0x50],                                     // stack underflow
        vec![0x0c],                                     // undefined opcode
        vec![0x60, 0x00, 0x60, 0x00, 0xfd],             // REVERT with gas left
        vec![0x60, 0x01, 0x60, 0x01, 0x55, 0xfe],       // SSTORE then INVALID
        vec![0x60, 0x00, 0x60, 0x01, 0x55, 0x60, 0x00, 0x60, 0x00, 0xfd], // clear a slot (refund) then REVERT
        vec![0x60, 0x00, 0x60, 0x01, 0x55, 0x00],       // clear a slot (refund) then STOP
        vec![0x60, 0x01, 0x63, 0xff, 0xff, 0xff, 0xff, 0x52], // memory OOG
        vec![0x5b, 0x60, 0x00, 0x56],                   // out of gas
        vec![0x60, 0xe0, 0xff],                         // SELFDESTRUCT
        vec![0x60, 0x00, 0x60, 0x00, 0xa0, 0xfe],       // LOG0 then INVALID
        // CALL B (which is INVALID) with all gas, store the flag, then invalid jump
        vec![0x60, 0x00, 0x60, 0x00, 0x60, 0x00, 0x60, 0x00, 0x60, 0x00, 0x60, 0xb0, 0x5a, 0xf1, 0x60, 0x02, 0x55, 0x60, 0x03, 0x56],
        // CALL B with 5000 gas then STOP
        vec![0x60, 0x00, 0x60, 0x00, 0x60, 0x00, 0x60, 0x00, 0x60, 0x00, 0x60, 0xb0, 0x61, 0x13, 0x88, 0xf1, 0x50, 0x00],
    ];
    for spec in [SpecId::FRONTIER, SpecId::BYZANTIUM, SpecId::BERLIN, SpecId::LONDON, SpecId::CANCUN, SpecId::PRAGUE] {
        for f in &firsts {
            for gas in [21000u64, 21010, 30000, 100000] {
                v.push(base(spec, f.clone(), gas));
            }
        }
        // first frame is a precompile / an account without code / a create
        for p in 1..=9u8 {
            for gas in [21000u64, 21050, 25000, 200000] {
                let mut r = base(spec, vec![0x00], gas);
                r.to = Some(addr(p));
                r.data = vec![0x01; 64];
                v.push(r);
            }
        }
        let mut r = base(spec, vec![0x00], 21000);
        r.to = Some(addr(EOA));
        r.value = U256::from(5);
        v.push(r);
        for (i, ic) in INITCODES.iter().enumerate() {
            for col in [false, true] {
                let mut r = base(spec, vec![0x00], if i % 2 == 0 { 100000 } else { 60000 });
                r.to = None;
                r.data = ic.to_vec();
                r.col = col;
                v.push(r);
            }
        }
    }
    // recursion: A calls itself forwarding all gas; depth limit reached with the large limit
    let rec: Vec<u8> = vec![0x60, 0x00, 0x60, 0x00, 0x60, 0x00, 0x60, 0x00, 0x60, 0x00, 0x30, 0x5a, 0xf1, 0x60, 0x02, 0x55, 0x00];
    for (spec, gas) in [(SpecId::FRONTIER, 3_000_000u64), (SpecId::CANCUN, 3_000_000), (SpecId::CANCUN, 2_000_000_000_000)] {
        v.push(base(spec, rec.clone(), gas));
    }
    // all five transaction types on Prague
    for ty in 0..=4u8 {
        let mut r = base(SpecId::PRAGUE, firsts[13].clone(), 200000);
        r.ty = ty;
        r.acl = ty >= 1;
        r.basefee = U256::from(7);
        r.price = U256::from(9);
        r.tip = if ty >= 2 { Some(U256::from(1)) } else { None };
        r.auth = if ty == 4 { 3 } else { 0 };
        r.data = vec![0, 1, 0, 2];
        v.push(r);
    }
    v
}

fn gen_small(rng: &mut Rng, n: usize) -> Vec<String> {
    let irs = all_ir();
    let mut v = vec![];
    for r in &irs {
        v.push(format!("inspwrap cls {:?}", r));
    }
    v.push("inspwrap cls Nonsense".into());
    let gases: &[(u64, u64, i64)] = &[(100, 40, 0), (100, 100, 0), (100, 0, 0), (0, 0, 0), (50000, 1, 4800), (u64::MAX, u64::MAX, -5), (90, 30, 30)];
    for r in &irs {
        for insp in ["noop", "gas", "tracer"] {
            for kind in ["call", "create", "eofcreate"] {
                let (l, rem, f) = gases[rng.below(gases.len() as u64) as usize];
                v.push(format!("inspwrap end {insp} {kind} {:?} {:x} {:x} {} {}", r, l, rem, f, rng.below(2)));
            }
        }
        for kind in ["call", "create", "eofcreate"] {
            for (l, rem, f) in gases.iter().take(5) {
                v.push(format!("inspwrap lfr {kind} {:?} {:x} {:x} {} {:x}", r, l, rem, f, l + rng.below(3) * 21000));
                v.push(format!(
                    "inspwrap pipe {} {:x} {kind} {:?} {:x} {:x} {} {} {:x}",
                    rng.below(2),
                    l + 21000,
                    r,
                    l,
                    rem,
                    f,
                    rng.below(2) * 12500,
                    *rng.pick(&[0u64, 0, 21000, 21400, 60000])
                ));
                #[cfg(feature = "optimism")]
                v.push(format!(
                    "inspwrap lfrop {kind} {:?} {:x} {:x} {} {:x} {} {} {}",
                    r,
                    l,
                    rem,
                    f,
                    l + 21000,
                    rng.below(2),
                    rng.pick(&["-", "0", "1"]),
                    rng.below(2)
                ));
            }
        }
        if *r != InstructionResult::FatalExternalError || rng.chance(1, 2) {
            for _ in 0..3 {
                let (cl, cr, cf) = gases[rng.below(5) as usize];
                let (pl, pr) = (200_000u64, rng.below(150_000));
                let memlen = 64u64;
                let start = rng.below(40);
                let end = start + rng.below(memlen - start + 1);
                let k = rng.below(48) as usize;
                let out = rng.bytes(k);
                let stack = *rng.pick(&[0u64, 1, 5, 1023, 1024]);
                v.push(format!(
                    "inspwrap ico {:?} {:x} {:x} {} {:x} {:x} {} {} {:x} {:x} {:x} {:x} {}",
                    r,
                    cl,
                    cr,
                    cf,
                    pl,
                    pr,
                    rng.below(100),
                    rng.below(2),
                    stack,
                    memlen,
                    start,
                    end,
                    hxb(&out)
                ));
                let a = if rng.chance(1, 4) { "-".to_string() } else { format!("{:x}", rng.below(1 << 40)) };
                v.push(format!(
                    "inspwrap {} {:?} {:x} {:x} {} {:x} {:x} {} {:x} {} {}",
                    if rng.chance(1, 2) { "icr" } else { "ieo" },
                    r,
                    cl,
                    cr,
                    cf,
                    pl,
                    pr,
                    rng.below(100),
                    stack,
                    a,
                    hxb(&out)
                ));
            }
        }
    }
    // random extra of the small lines, then malformed
    for _ in 0..n {
        let r = *rng.pick(&irs);
        let l = rng.below(1 << 40);
        let rem = rng.below(l + 1);
        v.push(format!(
            "inspwrap pipe {} {:x} {} {:?} {:x} {:x} {} {} {:x}",
            rng.below(2),
            l + rng.below(100000),
            rng.pick(&["call", "create", "eofcreate"]),
            r,
            l,
            rem,
            rng.below(1 << 20) as i64 - 1000,
            rng.below(2) * 12500,
            rng.below(3) * rng.below(l + 1)
        ));
    }
    v.push("inspwrap end gas call Stop 10 20 0 0".into());
    v.push("inspwrap lfr call Stop zz 0 0 0".into());
    v.push("inspwrap nothing".into());
    v.push("inspwrap ico Stop 1 1 0 1 1 0 0 0 10 8 4 -".into());
    v.push("inspwrap tx spec=17".into());
    v
}

pub fn run(seed: u64, n: usize, replay: Option<Vec<String>>, out: &mut Out) {
    let lines: Vec<String> = match replay {
        Some(l) => l,
        None => {
            let mut rng = Rng::new(seed ^ 0xC28);
            let mut v = gen_small(&mut rng, n);
            let mut reqs: Vec<(TxReq, Vec<&'static str>)> = boundary_txs().into_iter().map(|r| (r, vec!["boundary"])).collect();
            for _ in 0..n {
                let mut tags = vec![];
                let r = gen_tx(&mut rng, &mut tags);
                reqs.push((r, tags));
            }
            for (r, tags) in reqs {
                // record the first-frame outcome for the model's prediction (generator side)
                let r2 = r.clone();
                let rec = std::panic::catch_unwind(move || {
                    let (o, rg) = run_insp(&r2, RecGas::default());
                    if o.is_err() {
                        "-".to_string()
                    } else {
                        rec_of(&r2, &rg)
                    }
                })
                .unwrap_or("-".into());
                for t in tags {
                    out.count(&format!("tpl:{t}"));
                }
                v.push(fmt_tx(&r, &rec));
            }
            v
        }
    };
    for l in lines {
        let (reply, stats) = exec_line(&l);
        let t: Vec<&str> = l.split(' ').collect();
        out.count(&format!("op:{}", t.get(1).unwrap_or(&"?")));
        if let Some(st) = stats {
            out.count(&format!("tx:{}", st.class));
            if let Some((r, _)) = parse_tx(&t[2..]) {
                out.count(&format!("spec:{:?}", r.spec));
                out.count(&format!("type:{}", r.ty));
                out.count(if r.to.is_none() { "to:create" } else { "to:call" });
            }
            if let Some(rg) = st.rg {
                if let Some((k, res, g)) = rg.first {
                    out.count(&format!("first:{k}:{}", if res.is_ok() { "ok" } else if res.is_revert() { "revert" } else { "error" }));
                    if res.is_error() && g.remaining() > 0 {
                        out.count("first_frame_error_with_gas_left");
                    }
                    if !res.is_ok() && g.remaining() > 0 {
                        out.count("first_frame_not_ok_with_gas_left");
                    }
                }
                if rg.modified > 0 {
                    out.count("tx_where_gas_inspector_modified_an_outcome");
                }
                if rg.ends > 1 {
                    out.count("tx_with_subcalls");
                }
                if rg.nonok_ends > 0 {
                    out.count("tx_with_failing_frame");
                }
                if rg.logs > 0 {
                    out.count("tx_with_log_callback");
                }
                if rg.selfdestructs > 0 {
                    out.count("tx_with_selfdestruct_callback");
                }
                out.count(&format!(
                    "depth:{}",
                    match rg.max_depth {
                        0 => "0",
                        1 => "1",
                        2 => "2",
                        3..=9 => "3-9",
                        10..=1023 => "10-1023",
                        _ => "1024",
                    }
                ));
            }
        }
        let first = reply.split(' ').next().unwrap_or("?");
        let first = first.split('=').next().unwrap_or("?");
        out.count(&format!("reply:{}", if ir_of(first).is_some() { "<InstructionResult>" } else { first }));
        out.push(l, reply);
    }
}
