//! C16 / C17 / C18: bundle state (crates/revm/src/db/states). Stateful component `bundle`.
//!
//! Grammar (tokens hex, single spaces):
//!   begin bundle <r|w> <sc> <nacc> {<addr> <bal> <nonce> <code> <nslots> {<k> <v>}}
//!   bundle commit <nacc> {<addr> <flags> <bal> <nonce> <code> <hascode> <nslots> {<k> <orig> <present>}}
//!          (flags: 1 created, 2 selfdestructed, 4 touched)
//!   bundle incr <n> {<addr> <amount>}      bundle drain <n> {<addr>}
//!   bundle merge <1|0>                      (BundleRetention::Reverts | PlainState)
//!   bundle take | fresh | extend | prepend
//!   bundle plain <m|s|t> <known>            bundle reverts <m|s|t>
//!   bundle check <m|s|t>                    bundle revert <m|s|t> <j>      bundle taken <m|s|t> <n>
//! Two real `State`s get the same history: `mono` (bundle never taken) and `split` (take / fresh);
//! taken bundles go to a stash (`t` = its top) where `extend` / `prepend` combine the two newest.
//! Oracles are evaluated on the implementation's own output with an in-harness plain map.
use crate::*;
use revm::db::states::bundle_state::BundleRetention;
use revm::db::states::reverts::AccountInfoRevert;
use revm::db::states::{PlainStorageRevert, StateChangeset, StorageSlot};
use revm::db::{
    AccountRevert, AccountStatus, BundleAccount, BundleState, OriginalValuesKnown, RevertToSlot, State,
    TransitionAccount,
};
use revm::primitives::{
    keccak256, Account, AccountInfo, Address, Bytecode, Bytes, EvmStorageSlot, HashMap, B256,
    KECCAK_EMPTY, U256,
};
use revm::{Database, DatabaseCommit};
use std::collections::BTreeMap;
use std::panic::{catch_unwind, AssertUnwindSafe};

// ---------------------------------------------------------------- plain reference state
#[derive(Clone, PartialEq, Debug)]
pub struct PInfo {
    bal: U256,
    nonce: u64,
    code: u64,
}
impl PInfo {
    fn empty() -> Self {
        PInfo { bal: U256::ZERO, nonce: 0, code: 0 }
    }
    fn is_empty(&self) -> bool {
        self.code == 0 && self.bal.is_zero() && self.nonce == 0
    }
}
#[derive(Clone, PartialEq, Default, Debug)]
pub struct Plain {
    accts: BTreeMap<u64, PInfo>,
    stor: BTreeMap<(u64, U256), U256>,
}
impl Plain {
    fn set_slot(&mut self, a: u64, k: U256, v: U256) {
        if v.is_zero() {
            self.stor.remove(&(a, k));
        } else {
            self.stor.insert((a, k), v);
        }
    }
    fn wipe(&mut self, a: u64) {
        self.stor.retain(|(x, _), _| *x != a);
    }
    fn slot(&self, a: u64, k: U256) -> U256 {
        self.stor.get(&(a, k)).copied().unwrap_or_default()
    }
}

pub fn addr(id: u64) -> Address {
    let mut b = [0u8; 20];
    b[12..].copy_from_slice(&id.to_be_bytes());
    Address::from(b)
}
pub fn addr_id(a: &Address) -> u64 {
    let mut b = [0u8; 8];
    b.copy_from_slice(&a.0[12..]);
    u64::from_be_bytes(b)
}
fn code_bytes(id: u64) -> Vec<u8> {
    vec![0x60, id as u8, 0x00]
}
pub fn code_hash(id: u64) -> B256 {
    if id == 0 { KECCAK_EMPTY } else { keccak256(code_bytes(id)) }
}
pub fn code_id(h: &B256) -> u64 {
    for i in 0..32u64 {
        if code_hash(i) == *h {
            return i;
        }
    }
    0xffff
}
fn mk_info(bal: U256, nonce: u64, code: u64, has_code: bool) -> AccountInfo {
    AccountInfo {
        balance: bal,
        nonce,
        code_hash: code_hash(code),
        code: if !has_code {
            None
        } else if code == 0 {
            Some(Bytecode::default())
        } else {
            Some(Bytecode::new_raw(Bytes::from(code_bytes(code))))
        },
    }
}
fn pinfo(i: &AccountInfo) -> PInfo {
    PInfo { bal: i.balance, nonce: i.nonce, code: code_id(&i.code_hash) }
}

#[derive(Clone, Default)]
pub struct MapDb(BTreeMap<Address, AccountInfo>);
impl Database for MapDb {
    type Error = std::convert::Infallible;
    fn basic(&mut self, a: Address) -> Result<Option<AccountInfo>, Self::Error> {
        Ok(self.0.get(&a).cloned())
    }
    fn code_by_hash(&mut self, _h: B256) -> Result<Bytecode, Self::Error> {
        Ok(Bytecode::default())
    }
    fn storage(&mut self, _a: Address, _k: U256) -> Result<U256, Self::Error> {
        Ok(U256::ZERO)
    }
    fn block_hash(&mut self, _n: u64) -> Result<B256, Self::Error> {
        Ok(B256::ZERO)
    }
}

// ---------------------------------------------------------------- canonical text
fn join_or(v: Vec<String>, sep: &str, empty: &str) -> String {
    if v.is_empty() { empty.to_string() } else { v.join(sep) }
}
fn fmt_pinfo(i: Option<&PInfo>) -> String {
    match i {
        None => "-".into(),
        Some(i) => format!("{:x}.{:x}.{:x}", i.bal, i.nonce, i.code),
    }
}
fn fmt_info(i: Option<&AccountInfo>) -> String {
    fmt_pinfo(i.map(pinfo).as_ref())
}
fn fmt_status(s: AccountStatus) -> &'static str {
    match s {
        AccountStatus::LoadedNotExisting => "LNE",
        AccountStatus::Loaded => "L",
        AccountStatus::LoadedEmptyEIP161 => "LE",
        AccountStatus::InMemoryChange => "IMC",
        AccountStatus::Changed => "C",
        AccountStatus::Destroyed => "D",
        AccountStatus::DestroyedChanged => "DC",
        AccountStatus::DestroyedAgain => "DA",
    }
}
fn fmt_slots(m: &HashMap<U256, StorageSlot>) -> String {
    let mut v: Vec<_> = m.iter().collect();
    v.sort_by_key(|(k, _)| **k);
    join_or(
        v.iter().map(|(k, s)| format!("{:x}:{:x}>{:x}", k, s.previous_or_original_value, s.present_value)).collect(),
        ",",
        "",
    )
}
fn fmt_rev_slots<'a>(it: impl Iterator<Item = (&'a U256, &'a RevertToSlot)>) -> String {
    let mut v: Vec<_> = it.collect();
    v.sort_by_key(|(k, _)| **k);
    join_or(
        v.iter()
            .map(|(k, s)| match s {
                RevertToSlot::Some(x) => format!("{:x}:{:x}", k, x),
                RevertToSlot::Destroyed => format!("{:x}:X", k),
            })
            .collect(),
        ",",
        "",
    )
}
fn fmt_t(a: &Address, t: &TransitionAccount) -> String {
    format!(
        "{:x}[{}>{} {}>{} d={} s={}]",
        addr_id(a),
        fmt_status(t.previous_status),
        fmt_status(t.status),
        fmt_info(t.previous_info.as_ref()),
        fmt_info(t.info.as_ref()),
        b01(t.storage_was_destroyed),
        fmt_slots(&t.storage)
    )
}
fn fmt_ts(st: &State<MapDb>) -> String {
    match &st.transition_state {
        None => "-".into(),
        Some(ts) => {
            let mut v: Vec<_> = ts.transitions.iter().collect();
            v.sort_by_key(|(a, _)| addr_id(a));
            join_or(v.iter().map(|(a, t)| fmt_t(a, t)).collect(), " ", "-")
        }
    }
}
fn fmt_bacct(a: &Address, b: &BundleAccount) -> String {
    format!(
        "{:x}[{} {}>{} s={}]",
        addr_id(a),
        fmt_status(b.status),
        fmt_info(b.original_info.as_ref()),
        fmt_info(b.info.as_ref()),
        fmt_slots(&b.storage)
    )
}
fn fmt_rev(a: &Address, r: &AccountRevert) -> String {
    let acc = match &r.account {
        AccountInfoRevert::DoNothing => "N".to_string(),
        AccountInfoRevert::DeleteIt => "D".to_string(),
        AccountInfoRevert::RevertTo(i) => format!("R{}", fmt_info(Some(i))),
    };
    format!(
        "{:x}[{} {} w={} s={}]",
        addr_id(a),
        acc,
        fmt_status(r.previous_status),
        b01(r.wipe_storage),
        fmt_rev_slots(r.storage.iter())
    )
}
fn fmt_block(blk: &[(Address, AccountRevert)]) -> String {
    let mut v: Vec<_> = blk.iter().collect();
    v.sort_by_key(|(a, _)| addr_id(a));
    join_or(v.iter().map(|(a, r)| fmt_rev(a, r)).collect(), " ", "-")
}
fn fmt_reverts(r: &[Vec<(Address, AccountRevert)>]) -> String {
    join_or(r.iter().map(|b| fmt_block(b)).collect(), " / ", "none")
}
fn fmt_ids(mut v: Vec<u64>) -> String {
    v.sort();
    join_or(v.iter().map(|x| format!("{:x}", x)).collect(), ",", "-")
}
fn fmt_bundle(b: &BundleState) -> String {
    let mut v: Vec<_> = b.state.iter().collect();
    v.sort_by_key(|(a, _)| addr_id(a));
    format!(
        "A {} C {} R{} {}",
        join_or(v.iter().map(|(a, x)| fmt_bacct(a, x)).collect(), " ", "-"),
        fmt_ids(b.contracts.keys().map(code_id).collect()),
        b.reverts.len(),
        match b.reverts.last() {
            Some(blk) => fmt_block(blk),
            None => "none".into(),
        }
    )
}
fn fmt_changeset(c: &StateChangeset) -> String {
    let mut acc: Vec<_> = c.accounts.iter().collect();
    acc.sort_by_key(|(a, _)| addr_id(a));
    let mut st: Vec<_> = c.storage.iter().collect();
    st.sort_by_key(|s| addr_id(&s.address));
    format!(
        "acc {} st {} co {}",
        join_or(acc.iter().map(|(a, i)| format!("{:x}={}", addr_id(a), fmt_info(i.as_ref()))).collect(), ",", "-"),
        join_or(
            st.iter()
                .map(|s| {
                    let mut sl = s.storage.clone();
                    sl.sort_by_key(|(k, _)| *k);
                    format!(
                        "{:x}:{}:[{}]",
                        addr_id(&s.address),
                        b01(s.wipe_storage),
                        join_or(sl.iter().map(|(k, v)| format!("{:x}={:x}", k, v)).collect(), ",", "")
                    )
                })
                .collect(),
            " ",
            "-"
        ),
        fmt_ids(c.contracts.iter().map(|(h, _)| code_id(h)).collect())
    )
}
fn fmt_plain_rev_block(accs: &[(Address, Option<AccountInfo>)], st: &[PlainStorageRevert]) -> String {
    let mut acc: Vec<_> = accs.iter().collect();
    acc.sort_by_key(|(a, _)| addr_id(a));
    let mut st: Vec<_> = st.iter().collect();
    st.sort_by_key(|s| addr_id(&s.address));
    format!(
        "acc {} st {}",
        join_or(acc.iter().map(|(a, i)| format!("{:x}={}", addr_id(a), fmt_info(i.as_ref()))).collect(), ",", "-"),
        join_or(
            st.iter()
                .map(|s| {
                    format!(
                        "{:x}:{}:[{}]",
                        addr_id(&s.address),
                        b01(s.wiped),
                        fmt_rev_slots(s.storage_revert.iter().map(|(k, v)| (k, v)))
                    )
                })
                .collect(),
            " ",
            "-"
        )
    )
}

// ---------------------------------------------------------------- spec-side functions on Plain
fn apply_changeset(cs: &StateChangeset, p: &Plain) -> Plain {
    let mut p = p.clone();
    for (a, i) in &cs.accounts {
        match i {
            Some(i) => {
                p.accts.insert(addr_id(a), pinfo(i));
            }
            None => {
                p.accts.remove(&addr_id(a));
            }
        }
    }
    for s in &cs.storage {
        let a = addr_id(&s.address);
        if s.wipe_storage {
            p.wipe(a);
        }
        for (k, v) in &s.storage {
            p.set_slot(a, *k, *v);
        }
    }
    p
}
fn apply_revert_block(db_reading: bool, p0: &Plain, accs: &[(Address, Option<AccountInfo>)], st: &[PlainStorageRevert], p: &Plain) -> Plain {
    let mut p = p.clone();
    for (a, i) in accs {
        match i {
            Some(i) => {
                p.accts.insert(addr_id(a), pinfo(i));
            }
            None => {
                p.accts.remove(&addr_id(a));
            }
        }
    }
    for s in st {
        let a = addr_id(&s.address);
        if s.wiped {
            p.wipe(a);
            for ((x, k), v) in p0.stor.iter() {
                if *x == a {
                    p.stor.insert((a, *k), *v);
                }
            }
        }
        for (k, v) in &s.storage_revert {
            let val = match v {
                RevertToSlot::Some(x) => *x,
                RevertToSlot::Destroyed => if db_reading && s.wiped { p0.slot(a, *k) } else { v.to_previous_value() },
            };
            p.set_slot(a, *k, val);
        }
    }
    p
}

pub struct EvmAcct {
    a: u64,
    flags: u64,
    bal: U256,
    nonce: u64,
    code: u64,
    has_code: bool,
    slots: Vec<(U256, U256, U256)>,
}
impl EvmAcct {
    pub fn line(&self) -> String {
        let mut s = format!(
            "{:x} {:x} {:x} {:x} {:x} {} {:x}",
            self.a, self.flags, self.bal, self.nonce, self.code, b01(self.has_code), self.slots.len()
        );
        for (k, o, p) in &self.slots {
            s += &format!(" {:x} {:x} {:x}", k, o, p);
        }
        s
    }
}
fn apply_commit_acct(sc: bool, p: &mut Plain, e: &EvmAcct) {
    if e.flags & 4 == 0 {
        return;
    }
    let info = PInfo { bal: e.bal, nonce: e.nonce, code: e.code };
    let changed: Vec<_> = e.slots.iter().filter(|(_, o, n)| o != n).collect();
    if e.flags & 2 != 0 {
        p.wipe(e.a);
        p.accts.remove(&e.a);
    } else if e.flags & 1 != 0 {
        p.wipe(e.a);
        for (k, _, v) in &changed {
            p.set_slot(e.a, *k, *v);
        }
        p.accts.insert(e.a, info);
    } else if info.is_empty() {
        if sc {
            p.wipe(e.a);
            p.accts.remove(&e.a);
        } else {
            for (k, _, v) in &changed {
                p.set_slot(e.a, *k, *v);
            }
            p.accts.insert(e.a, PInfo::empty());
        }
    } else {
        for (k, _, v) in &changed {
            p.set_slot(e.a, *k, *v);
        }
        p.accts.insert(e.a, info);
    }
}

// ---------------------------------------------------------------- executor
#[derive(Clone)]
struct Stashed {
    b: BundleState,
    snaps: Vec<Plain>,
    valid: bool,
}
pub struct Exec {
    active: bool,
    dead: bool,
    sc: bool,
    mono: State<MapDb>,
    split: State<MapDb>,
    refp: Plain,
    mono_snaps: Vec<Plain>,
    split_snaps: Vec<Plain>,
    mono_valid: bool,
    split_valid: bool,
    mono_hist: Vec<BundleState>,
    stash: Vec<Stashed>,
}
fn new_state(db: MapDb, sc: bool) -> State<MapDb> {
    let b = State::builder().with_database(db).with_bundle_update();
    if sc { b.build() } else { b.without_state_clear().build() }
}
struct Toks<'a>(std::slice::Iter<'a, &'a str>);
impl<'a> Toks<'a> {
    fn u256(&mut self) -> Option<U256> {
        let t = self.0.next()?;
        if t.is_empty() || t.len() > 64 {
            return None;
        }
        U256::from_str_radix(t, 16).ok()
    }
    fn u64(&mut self) -> Option<u64> {
        let w = self.u256()?;
        if w > U256::from(u64::MAX) { None } else { Some(w.as_limbs()[0]) }
    }
    fn done(&mut self) -> Option<()> {
        if self.0.next().is_none() { Some(()) } else { None }
    }
}
fn parse_evm_accts(t: &mut Toks) -> Option<Vec<EvmAcct>> {
    let n = t.u64()?;
    let mut v = vec![];
    for _ in 0..n {
        let a = t.u64()?;
        let flags = t.u64()?;
        let bal = t.u256()?;
        let nonce = t.u64()?;
        let code = t.u64()?;
        let has_code = t.u64()? != 0;
        let ns = t.u64()?;
        let mut slots = vec![];
        for _ in 0..ns {
            slots.push((t.u256()?, t.u256()?, t.u256()?));
        }
        v.push(EvmAcct { a, flags, bal, nonce, code, has_code, slots });
    }
    t.done()?;
    Some(v)
}

impl Exec {
    pub fn new() -> Self {
        Exec {
            active: false,
            dead: false,
            sc: true,
            mono: new_state(MapDb::default(), true),
            split: new_state(MapDb::default(), true),
            refp: Plain::default(),
            mono_snaps: vec![],
            split_snaps: vec![],
            mono_valid: true,
            split_valid: true,
            mono_hist: vec![],
            stash: vec![],
        }
    }
    fn begin(&mut self, t: &[&str]) -> Option<()> {
        let mut it = Toks(t.iter());
        let sc = it.u64()? != 0;
        let n = it.u64()?;
        let mut db = MapDb::default();
        let mut p = Plain::default();
        for _ in 0..n {
            let a = it.u64()?;
            let bal = it.u256()?;
            let nonce = it.u64()?;
            let code = it.u64()?;
            let ns = it.u64()?;
            for _ in 0..ns {
                let k = it.u256()?;
                let v = it.u256()?;
                p.set_slot(a, k, v);
            }
            db.0.insert(addr(a), mk_info(bal, nonce, code, false));
            p.accts.insert(a, PInfo { bal, nonce, code });
        }
        it.done()?;
        *self = Exec::new();
        self.active = true;
        self.sc = sc;
        self.mono = new_state(db.clone(), sc);
        self.split = new_state(db, sc);
        self.refp = p.clone();
        self.mono_snaps = vec![p.clone()];
        self.split_snaps = vec![p];
        Some(())
    }
    fn ts_reply(&self) -> String {
        let a = fmt_ts(&self.mono);
        let b = fmt_ts(&self.split);
        format!("ts {} ts2 {}", a, if a == b { "=".to_string() } else { b })
    }
    fn target(&self, t: &str) -> Option<Stashed> {
        match t {
            "m" => Some(Stashed { b: self.mono.bundle_state.clone(), snaps: self.mono_snaps.clone(), valid: self.mono_valid }),
            "s" => Some(Stashed { b: self.split.bundle_state.clone(), snaps: self.split_snaps.clone(), valid: self.split_valid }),
            "t" => self.stash.last().cloned(),
            _ => None,
        }
    }
    fn op(&mut self, t: &[&str]) -> Option<String> {
        match t[0] {
            "commit" => {
                let l = parse_evm_accts(&mut Toks(t[1..].iter()))?;
                let mut es: HashMap<Address, Account> = HashMap::default();
                for e in &l {
                    let mut storage = HashMap::default();
                    for (k, o, p) in &e.slots {
                        storage.insert(*k, EvmStorageSlot { original_value: *o, present_value: *p, is_cold: false });
                    }
                    let acc = Account {
                        info: mk_info(e.bal, e.nonce, e.code, e.has_code),
                        storage,
                        status: revm::primitives::AccountStatus::from_bits_truncate(e.flags as u8),
                    };
                    es.insert(addr(e.a), acc);
                }
                for st in [&mut self.mono, &mut self.split] {
                    for e in &l {
                        let _ = st.basic(addr(e.a));
                    }
                    st.commit(es.clone());
                }
                for e in &l {
                    apply_commit_acct(self.sc, &mut self.refp, e);
                }
                Some(self.ts_reply())
            }
            "incr" => {
                let mut it = Toks(t[1..].iter());
                let n = it.u64()?;
                let mut l = vec![];
                for _ in 0..n {
                    let a = it.u64()?;
                    let v = it.u256()?;
                    if v > U256::from(u128::MAX) {
                        return None;
                    }
                    l.push((a, v));
                }
                it.done()?;
                for st in [&mut self.mono, &mut self.split] {
                    st.increment_balances(l.iter().map(|(a, v)| (addr(*a), v.to::<u128>()))).unwrap();
                }
                for (a, v) in &l {
                    if v.is_zero() {
                        continue;
                    }
                    let mut i = self.refp.accts.get(a).cloned().unwrap_or(PInfo::empty());
                    i.bal = i.bal.saturating_add(*v);
                    self.refp.accts.insert(*a, i);
                }
                Some(self.ts_reply())
            }
            "drain" => {
                let mut it = Toks(t[1..].iter());
                let n = it.u64()?;
                let mut l = vec![];
                for _ in 0..n {
                    l.push(it.u64()?);
                }
                it.done()?;
                let bals = self.mono.drain_balances(l.iter().map(|a| addr(*a))).unwrap();
                let _ = self.split.drain_balances(l.iter().map(|a| addr(*a))).unwrap();
                for a in &l {
                    let mut i = self.refp.accts.get(a).cloned().unwrap_or(PInfo::empty());
                    i.bal = U256::ZERO;
                    self.refp.accts.insert(*a, i);
                }
                Some(format!(
                    "bal {} {}",
                    join_or(bals.iter().map(|b| format!("{:x}", b)).collect(), ",", "-"),
                    self.ts_reply()
                ))
            }
            "merge" => {
                if t.len() != 2 {
                    return None;
                }
                let inc = t[1] == "1";
                for st in [&mut self.mono, &mut self.split] {
                    st.merge_transitions(if inc { BundleRetention::Reverts } else { BundleRetention::PlainState });
                }
                self.mono_snaps.push(self.refp.clone());
                self.split_snaps.push(self.refp.clone());
                self.mono_valid &= inc;
                self.split_valid &= inc;
                self.mono_hist.push(self.mono.bundle_state.clone());
                let a = fmt_bundle(&self.mono.bundle_state);
                let b = fmt_bundle(&self.split.bundle_state);
                Some(format!("b {} b2 {}", a, if a == b { "=".to_string() } else { b }))
            }
            "take" if t.len() == 1 => {
                let b = self.split.take_bundle();
                let last = self.split_snaps.last().cloned();
                let snaps = std::mem::replace(&mut self.split_snaps, last.into_iter().collect());
                self.stash.push(Stashed { b, snaps, valid: self.split_valid });
                self.split_valid = true;
                Some(format!("stash={}", self.stash.len()))
            }
            "fresh" if t.len() == 1 => {
                let mut db = MapDb::default();
                for (a, i) in &self.refp.accts {
                    db.0.insert(addr(*a), mk_info(i.bal, i.nonce, i.code, false));
                }
                self.split = new_state(db, self.sc);
                self.split_snaps = vec![self.refp.clone()];
                self.split_valid = true;
                Some("ok".into())
            }
            "extend" if t.len() == 1 => {
                if self.stash.len() < 2 {
                    return None;
                }
                let b = self.stash.pop().unwrap();
                let mut a = self.stash.pop().unwrap();
                a.b.extend(b.b);
                a.snaps.extend(b.snaps.into_iter().skip(1));
                a.valid &= b.valid;
                let out = fmt_bundle(&a.b);
                self.stash.push(a);
                Some(out)
            }
            "prepend" if t.len() == 1 => {
                if self.stash.len() < 2 {
                    return None;
                }
                let b = self.stash.pop().unwrap();
                let a = self.stash.pop().unwrap();
                let mut res = b.b.clone();
                res.prepend_state(a.b.clone());
                let nov = b.b.state.iter().all(|(ad, na)| match res.state.get(ad) {
                    None => false,
                    Some(ra) => {
                        ra.info == na.info
                            && na.storage.iter().all(|(k, s)| {
                                ra.storage.get(k).map(|r| r.present_value == s.present_value).unwrap_or(false)
                            })
                    }
                });
                let out = format!("nov={} {}", b01(nov), fmt_bundle(&res));
                let mut snaps = a.snaps;
                snaps.extend(b.snaps.into_iter().skip(1));
                self.stash.push(Stashed { b: res, snaps, valid: false });
                Some(out)
            }
            "plain" if t.len() == 3 => {
                let s = self.target(t[1])?;
                let k = if t[2] == "1" { OriginalValuesKnown::Yes } else { OriginalValuesKnown::No };
                Some(fmt_changeset(&s.b.to_plain_state(k)))
            }
            "reverts" if t.len() == 2 => {
                let s = self.target(t[1])?;
                let r = s.b.reverts.to_plain_state_reverts();
                Some(join_or(
                    r.accounts.iter().zip(r.storage.iter()).map(|(a, s)| fmt_plain_rev_block(a, s)).collect(),
                    " / ",
                    "none",
                ))
            }
            "check" if t.len() == 2 => {
                let s = self.target(t[1])?;
                let c16 = |k| match (s.snaps.first(), s.snaps.last()) {
                    (Some(p0), Some(pn)) => apply_changeset(&s.b.to_plain_state(k), p0) == *pn,
                    _ => false,
                };
                let usable = s.valid && s.b.reverts.len() + 1 == s.snaps.len();
                let c17 = |dbr: bool| if !usable {
                    "na".to_string()
                } else {
                    let r = s.b.reverts.to_plain_state_reverts();
                    let p0 = &s.snaps[0];
                    let ok = (0..r.accounts.len())
                        .all(|k| apply_revert_block(dbr, p0, &r.accounts[k], &r.storage[k], &s.snaps[k + 1]) == s.snaps[k]);
                    b01(ok).to_string()
                };
                Some(format!(
                    "c16y={} c16n={} c17={} c17d={}",
                    b01(c16(OriginalValuesKnown::Yes)),
                    b01(c16(OriginalValuesKnown::No)),
                    c17(false),
                    c17(true)
                ))
            }
            "revert" if t.len() == 3 => {
                let s = self.target(t[1])?;
                let j = Toks(t[2..].iter()).u64()? as usize;
                let mut b2 = s.b.clone();
                b2.revert(j);
                let n = s.b.reverts.len();
                let j2 = j.min(n);
                let usable = s.valid && n + 1 == s.snaps.len();
                let (ry, rn) = if usable {
                    let p0 = &s.snaps[0];
                    let tgt = &s.snaps[n - j2];
                    (
                        b01(apply_changeset(&b2.to_plain_state(OriginalValuesKnown::Yes), p0) == *tgt).to_string(),
                        b01(apply_changeset(&b2.to_plain_state(OriginalValuesKnown::No), p0) == *tgt).to_string(),
                    )
                } else {
                    ("na".to_string(), "na".to_string())
                };
                let lit = if t[1] == "m" && usable {
                    let mine = fmt_changeset(&b2.to_plain_state(OriginalValuesKnown::Yes));
                    let other = if n - j2 == 0 {
                        Some(fmt_changeset(&BundleState::default().to_plain_state(OriginalValuesKnown::Yes)))
                    } else {
                        self.mono_hist.get(n - j2 - 1).map(|h| fmt_changeset(&h.to_plain_state(OriginalValuesKnown::Yes)))
                    };
                    match other {
                        Some(o) => b01(o == mine).to_string(),
                        None => "na".to_string(),
                    }
                } else {
                    "na".to_string()
                };
                Some(format!("ry={} rn={} lit={} {}", ry, rn, lit, fmt_bundle(&b2)))
            }
            "taken" if t.len() == 3 => {
                let s = self.target(t[1])?;
                let n = Toks(t[2..].iter()).u64()? as usize;
                let mut b2 = s.b.clone();
                let det = b2.take_n_reverts(n);
                let mut joined: Vec<Vec<(Address, AccountRevert)>> = det.to_vec();
                joined.extend(b2.reverts.iter().cloned());
                let ok = fmt_reverts(&joined) == fmt_reverts(&s.b.reverts)
                    && det.len() == n.min(s.b.reverts.len())
                    && det.len() + b2.reverts.len() == s.b.reverts.len();
                Some(format!(
                    "ok={} T{} {} R{} {}",
                    b01(ok),
                    det.len(),
                    fmt_reverts(&det),
                    b2.reverts.len(),
                    fmt_reverts(&b2.reverts)
                ))
            }
            _ => None,
        }
    }
    /// one request line -> one reply line
    pub fn exec_line(&mut self, line: &str) -> String {
        let t: Vec<&str> = line.split(' ').collect();
        if t.len() >= 3 && t[0] == "begin" && t[1] == "bundle" {
            return match self.begin(&t[3..]) {
                Some(()) => "ok".into(),
                None => {
                    self.active = false;
                    "bad-op".into()
                }
            };
        }
        if t.len() < 2 || t[0] != "bundle" || !self.active {
            return "bad-op".into();
        }
        if self.dead {
            return "dead".into();
        }
        match catch_unwind(AssertUnwindSafe(|| self.op(&t[1..]))) {
            Ok(Some(s)) => s,
            Ok(None) => "bad-op".into(),
            Err(_) => {
                self.dead = true;
                "panic".into()
            }
        }
    }
}

// ---------------------------------------------------------------- generator
const SLOT_VALS: [u64; 4] = [0, 5, 7, 9];
struct Gen<'a> {
    rng: &'a mut Rng,
    sc: bool,
    p0: Plain,
    refp: Plain,
}
impl<'a> Gen<'a> {
    fn bal(&mut self) -> U256 {
        match self.rng.below(10) {
            0 => U256::ZERO,
            1..=6 => U256::from(self.rng.range(1, 300)),
            7 => U256::from(u64::MAX),
            8 => U256::from(u128::MAX) - U256::from(self.rng.below(2000)),
            _ => U256::from(self.rng.next()),
        }
    }
    fn sval(&mut self, a: u64, k: U256) -> U256 {
        match self.rng.below(6) {
            0 => self.refp.slot(a, k),
            1 | 2 => self.p0.slot(a, k),
            _ => U256::from(*self.rng.pick(&SLOT_VALS)),
        }
    }
    fn writes(&mut self, a: u64, from_zero: bool) -> Vec<(U256, U256, U256)> {
        let mut v = vec![];
        for k in 1..=4u64 {
            if self.rng.chance(1, 2) {
                let k = U256::from(k);
                let o = if from_zero { U256::ZERO } else { self.refp.slot(a, k) };
                v.push((k, o, self.sval(a, k)));
            }
        }
        v
    }
    /// one account of an EVM-reachable commit, chosen from the reference state of `a`
    fn reach_acct(&mut self, a: u64, out: &mut Out) -> EvmAcct {
        let cur = self.refp.accts.get(&a).cloned();
        let r = self.rng.below(100);
        let mk = |flags: u64, i: &PInfo, has_code: bool, slots| EvmAcct { a, flags, bal: i.bal, nonce: i.nonce, code: i.code, has_code, slots };
        let creat_nonce = if self.sc { 1 } else { 0 };
        match cur {
            None => {
                if r < 40 {
                    out.count("ev.create");
                    let code = if self.rng.chance(1, 6) { 0 } else { self.rng.range(1, 3) };
                    let has_code = !self.rng.chance(1, 10);
                    let bal = if self.rng.chance(1, 2) { U256::ZERO } else { self.bal() };
                    let sl = self.writes(a, true);
                    mk(5, &PInfo { bal, nonce: creat_nonce, code }, has_code, sl)
                } else if r < 62 {
                    out.count("ev.receive-new");
                    let mut bal = self.bal();
                    if bal.is_zero() { bal = U256::from(1); }
                    mk(4, &PInfo { bal, nonce: 0, code: 0 }, self.rng.chance(1, 2), vec![])
                } else if r < 77 {
                    out.count("ev.touch-absent");
                    mk(4, &PInfo::empty(), true, vec![])
                } else if r < 90 {
                    out.count("ev.create-and-destroy");
                    let sl = self.writes(a, true);
                    mk(7, &PInfo { bal: U256::ZERO, nonce: creat_nonce, code: self.rng.range(1, 3) }, true, sl)
                } else {
                    out.count("ev.untouched");
                    mk(0, &PInfo::empty(), false, vec![])
                }
            }
            Some(i) if i.is_empty() => {
                if r < 40 {
                    out.count("ev.touch-empty");
                    mk(4, &i, self.rng.chance(1, 2), vec![])
                } else if r < 70 {
                    out.count("ev.receive-empty");
                    let mut bal = self.bal();
                    if bal.is_zero() { bal = U256::from(1); }
                    mk(4, &PInfo { bal, nonce: 0, code: 0 }, false, vec![])
                } else if r < 90 && !self.refp.stor.keys().any(|(x, _)| *x == a) {
                    out.count("ev.create-over-empty");
                    let sl = self.writes(a, true);
                    mk(5, &PInfo { bal: U256::ZERO, nonce: creat_nonce, code: self.rng.range(1, 3) }, true, sl)
                } else {
                    out.count("ev.untouched");
                    mk(0, &i, false, vec![])
                }
            }
            Some(i) if i.code != 0 => {
                if r < 45 {
                    out.count("ev.contract-change");
                    let sl = self.writes(a, false);
                    let bal = if self.rng.chance(1, 2) { i.bal } else { self.bal() };
                    mk(4, &PInfo { bal, nonce: i.nonce + self.rng.below(2), code: i.code }, self.rng.chance(2, 3), sl)
                } else if r < 72 {
                    out.count("ev.selfdestruct");
                    let sl = self.writes(a, false);
                    mk(6, &PInfo { bal: U256::ZERO, nonce: i.nonce, code: i.code }, true, sl)
                } else if r < 85 {
                    out.count("ev.touch-only");
                    mk(4, &i, self.rng.chance(1, 2), vec![])
                } else if r < 95 && i.nonce >= 1 && self.rng.chance(1, 2) {
                    out.count("ev.7702-clear");
                    mk(4, &PInfo { bal: i.bal, nonce: i.nonce + 1, code: 0 }, true, vec![])
                } else {
                    out.count("ev.untouched");
                    mk(0, &i, false, vec![])
                }
            }
            Some(i) => {
                // no code, not empty
                if i.nonce == 0 && r < 20 && !self.refp.stor.keys().any(|(x, _)| *x == a) {
                    out.count("ev.create-over-balance");
                    let sl = self.writes(a, true);
                    mk(5, &PInfo { bal: i.bal, nonce: creat_nonce, code: self.rng.range(1, 3) }, true, sl)
                } else if r < 60 {
                    out.count("ev.eoa-change");
                    let mut bal = self.bal();
                    let nonce = if i.nonce == 0 { 0 } else { i.nonce + self.rng.below(2) };
                    if nonce == 0 && bal.is_zero() { bal = U256::from(3); }
                    mk(4, &PInfo { bal, nonce, code: 0 }, self.rng.chance(1, 2), vec![])
                } else if r < 70 && i.nonce >= 1 {
                    out.count("ev.7702-set");
                    mk(4, &PInfo { bal: i.bal, nonce: i.nonce + 1, code: self.rng.range(1, 3) }, true, vec![])
                } else if r < 88 {
                    out.count("ev.touch-only");
                    mk(4, &i, false, vec![])
                } else {
                    out.count("ev.untouched");
                    mk(0, &i, false, vec![])
                }
            }
        }
    }
    fn wild_acct(&mut self, a: u64) -> EvmAcct {
        let flags = self.rng.below(8);
        let mut slots = vec![];
        for k in 1..=3u64 {
            if self.rng.chance(1, 3) {
                slots.push((U256::from(k), U256::from(*self.rng.pick(&SLOT_VALS)), U256::from(*self.rng.pick(&SLOT_VALS))));
            }
        }
        if self.rng.chance(2, 5) {
            // empty info: drives the touched-empty arms (incl. the `unreachable!` ones from Loaded / Changed)
            return EvmAcct { a, flags: flags | 4, bal: U256::ZERO, nonce: 0, code: 0, has_code: self.rng.chance(1, 2), slots };
        }
        let bal = if self.rng.chance(1, 3) { U256::ZERO } else { self.bal() };
        EvmAcct { a, flags, bal, nonce: self.rng.below(3), code: self.rng.below(3), has_code: self.rng.chance(1, 2), slots }
    }
}

fn gen_case(rng: &mut Rng, ex: &mut Exec, out: &mut Out) {
    let reach = !rng.chance(1, 5);
    let sc = rng.chance(4, 5);
    out.count(if reach { "mode.reach" } else { "mode.wild" });
    out.count(if sc { "state_clear.on" } else { "state_clear.off" });
    let naddr = 5u64;
    // database
    let mut line = format!("begin bundle {} {}", if reach { "r" } else { "w" }, b01(sc));
    let mut accts = vec![];
    let mut p = Plain::default();
    for a in 1..=naddr {
        let r = rng.below(100);
        let (info, slots): (Option<PInfo>, Vec<(u64, u64)>) = if r < 35 {
            (None, vec![])
        } else if r < 52 {
            (Some(PInfo { bal: U256::from(rng.range(0, 200)), nonce: rng.range(1, 3), code: 0 }), vec![])
        } else if r < 62 {
            (Some(PInfo { bal: U256::from(rng.range(1, 200)), nonce: 0, code: 0 }), vec![])
        } else if r < 93 {
            let mut sl = vec![];
            for k in 1..=4u64 {
                if rng.chance(1, 2) {
                    sl.push((k, *rng.pick(&[5u64, 7, 9])));
                }
            }
            (Some(PInfo { bal: U256::from(rng.range(0, 200)), nonce: 1, code: rng.range(1, 3) }), sl)
        } else {
            let sl = if !sc && rng.chance(1, 2) { vec![(1, 5)] } else { vec![] };
            (Some(PInfo::empty()), sl)
        };
        if let Some(i) = info {
            let mut s = format!("{:x} {:x} {:x} {:x} {:x}", a, i.bal, i.nonce, i.code, slots.len());
            for (k, v) in &slots {
                s += &format!(" {:x} {:x}", k, v);
                p.set_slot(a, U256::from(*k), U256::from(*v));
            }
            p.accts.insert(a, i);
            accts.push(s);
        }
    }
    line += &format!(" {:x}", accts.len());
    for s in accts {
        line += " ";
        line += &s;
    }
    let send = |ex: &mut Exec, out: &mut Out, l: String| -> String {
        let r = ex.exec_line(&l);
        out.push(l, r.clone());
        r
    };
    send(ex, out, line);
    let mut g = Gen { rng, sc, p0: p.clone(), refp: p };
    let steps = g.rng.range(2, 12);
    let sched = g.rng.below(3); // 0 per tx, 1 per block, 2 mixed
    out.count(["schedule.per-tx", "schedule.per-block", "schedule.mixed"][sched as usize]);
    let splits = g.rng.below(3);
    let mut split_at: Vec<u64> = (0..splits).map(|_| g.rng.range(1, steps)).collect();
    split_at.sort();
    split_at.dedup();
    let use_prepend = g.rng.chance(1, 4);
    let mut since_merge = 0;
    let mut merges = 0u64;
    let mut takes = 0;
    for step in 1..=steps {
        let r = g.rng.below(100);
        let reply = if r < 8 {
            out.count("op.incr");
            let n = g.rng.range(1, 2);
            let mut l = format!("bundle incr {:x}", n);
            let mut used = vec![];
            for _ in 0..n {
                let a = g.rng.range(1, naddr);
                if used.contains(&a) { used.push(0); l += " 0 0"; continue; }
                used.push(a);
                let v = if g.rng.chance(1, 6) { 0 } else { g.rng.range(1, 1000) };
                l += &format!(" {:x} {:x}", a, v);
                if v != 0 {
                    let mut i = g.refp.accts.get(&a).cloned().unwrap_or(PInfo::empty());
                    i.bal = i.bal.saturating_add(U256::from(v));
                    g.refp.accts.insert(a, i);
                }
            }
            send(ex, out, l)
        } else if r < 11 {
            out.count("op.drain");
            let a = g.rng.range(1, naddr);
            let mut i = g.refp.accts.get(&a).cloned().unwrap_or(PInfo::empty());
            i.bal = U256::ZERO;
            g.refp.accts.insert(a, i);
            send(ex, out, format!("bundle drain 1 {:x}", a))
        } else {
            out.count("op.commit");
            let n = g.rng.range(1, 3);
            let mut used: Vec<u64> = vec![];
            let mut es = vec![];
            for _ in 0..n {
                let a = g.rng.range(1, naddr);
                if used.contains(&a) { continue; }
                used.push(a);
                let e = if reach { g.reach_acct(a, out) } else { g.wild_acct(a) };
                es.push(e);
            }
            let mut l = format!("bundle commit {:x}", es.len());
            for e in &es {
                l += " ";
                l += &e.line();
                apply_commit_acct(sc, &mut g.refp, e);
            }
            send(ex, out, l)
        };
        if reply == "panic" {
            out.count("reply.panic.commit");
            return;
        }
        since_merge += 1;
        let do_merge = match sched {
            0 => true,
            1 => since_merge >= 3,
            _ => g.rng.chance(2, 5),
        } || step == steps || split_at.contains(&step);
        if do_merge {
            let ret = if g.rng.chance(1, 25) { "0" } else { "1" };
            let r = send(ex, out, format!("bundle merge {}", ret));
            if r == "panic" {
                out.count("reply.panic.merge");
                return;
            }
            since_merge = 0;
            merges += 1;
            if r.contains("[DC ") { out.count("bundle.saw-destroyed-changed"); }
            if r.contains("[DA ") { out.count("bundle.saw-destroyed-again"); }
            if r.contains("[D ") { out.count("bundle.saw-destroyed"); }
            if r.contains("w=1") { out.count("revert.saw-wipe"); }
            if r.contains(":X") { out.count("revert.saw-destroyed-slot"); }
        }
        if split_at.contains(&step) && step != steps {
            send(ex, out, "bundle take".into());
            let r = send(ex, out, "bundle check t".into());
            for key in ["c16y=0", "c16n=0", "c17=0", "c17d=0"] {
                if r.contains(key) { out.count(&format!("oracle.part.{}", key)); }
            }
            takes += 1;
            if g.rng.chance(1, 2) {
                out.count("op.fresh");
                send(ex, out, "bundle fresh".into());
            }
        }
    }
    // inspections of the monolithic bundle
    let tally = |out: &mut Out, r: &str| {
        for key in ["c16y=0", "c16n=0", "c17=0", "c17d=0", "ry=0", "rn=0", "ok=0", "nov=0", "lit=0"] {
            if r.contains(key) { out.count(&format!("oracle.{}", key)); }
        }
    };
    let r = send(ex, out, "bundle check m".into());
    tally(out, &r);
    send(ex, out, "bundle plain m 1".into());
    send(ex, out, "bundle plain m 0".into());
    send(ex, out, "bundle reverts m".into());
    for j in 0..=(merges + 1).min(6) {
        let r = send(ex, out, format!("bundle revert m {:x}", j));
        tally(out, &r);
    }
    for k in [0, 1, merges / 2, merges, merges + 2] {
        let r = send(ex, out, format!("bundle taken m {:x}", k));
        tally(out, &r);
    }
    if takes > 0 {
        send(ex, out, "bundle take".into());
        let r = send(ex, out, "bundle check t".into());
        tally(out, &r);
        takes += 1;
        if use_prepend {
            out.count("op.prepend");
            for _ in 1..takes {
                let r = send(ex, out, "bundle prepend".into());
                tally(out, &r);
            }
            let r = send(ex, out, "bundle check t".into());
            tally(out, &r);
            send(ex, out, "bundle plain t 0".into());
        } else {
            out.count("op.extend");
            for _ in 1..takes {
                send(ex, out, "bundle extend".into());
            }
            let r = send(ex, out, "bundle check t".into());
            tally(out, &r);
            send(ex, out, "bundle plain t 1".into());
            send(ex, out, "bundle plain t 0".into());
            send(ex, out, "bundle reverts t".into());
            for j in [1, merges / 2, merges] {
                let r = send(ex, out, format!("bundle revert t {:x}", j));
                tally(out, &r);
            }
            let r = send(ex, out, format!("bundle taken t {:x}", merges / 2));
            tally(out, &r);
        }
    }
}

pub fn run(seed: u64, n: usize, replay: Option<Vec<String>>, out: &mut Out) {
    let mut ex = Exec::new();
    if let Some(lines) = replay {
        for l in lines {
            if l.trim().is_empty() || l.starts_with('#') { continue; }
            let r = ex.exec_line(&l);
            out.push(l, r);
        }
        return;
    }
    let mut rng = Rng::new(seed ^ 0xB0_0D1E);
    for _ in 0..n {
        gen_case(&mut rng, &mut ex, out);
    }
}
