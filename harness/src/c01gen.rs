//! C01 generator: multi-contract worlds (call graphs of up to 6 contracts assembled from instruction templates) and
//! transactions of all five types on every SpecId Frontier … Prague, with boundary gas limits.
use crate::c01::*;
use crate::c01bnd::{compile, floor_points, sstore_plan, window_script, End, It, Kind, Script};
use crate::*;
use revm::interpreter::gas::calculate_initial_tx_gas;
use revm::primitives::{AccessListItem, Address, SpecId, B256, U256};

pub const SPECS: [SpecId; 19] = [
    SpecId::FRONTIER,
    SpecId::FRONTIER_THAWING,
    SpecId::HOMESTEAD,
    SpecId::DAO_FORK,
    SpecId::TANGERINE,
    SpecId::SPURIOUS_DRAGON,
    SpecId::BYZANTIUM,
    SpecId::CONSTANTINOPLE,
    SpecId::PETERSBURG,
    SpecId::ISTANBUL,
    SpecId::MUIR_GLACIER,
    SpecId::BERLIN,
    SpecId::LONDON,
    SpecId::ARROW_GLACIER,
    SpecId::GRAY_GLACIER,
    SpecId::MERGE,
    SpecId::SHANGHAI,
    SpecId::CANCUN,
    SpecId::PRAGUE,
];

fn a_n(n: u64) -> Address {
    ua(U256::from(n))
}
pub fn sender() -> Address {
    a_n(0xaaaa01)
}
fn eoa2() -> Address {
    a_n(0xaaaa02)
}
fn eoa3() -> Address {
    a_n(0xaaaa03)
}
fn coinbase() -> Address {
    a_n(0xc01bba5e)
}
fn nobody() -> Address {
    a_n(0xdead00)
}
fn contract(i: usize) -> Address {
    a_n(0x1000 + i as u64)
}

pub struct Asm {
    pub code: Vec<u8>,
}
impl Asm {
    pub fn new() -> Self {
        Asm { code: vec![] }
    }
    pub fn op(&mut self, b: u8) -> &mut Self {
        self.code.push(b);
        self
    }
    /// minimal PUSHn (PUSH1 0 for zero)
    pub fn push(&mut self, v: U256) -> &mut Self {
        let bytes = v.to_be_bytes::<32>();
        let skip = bytes.iter().take_while(|b| **b == 0).count().min(31);
        let n = 32 - skip;
        self.code.push(0x5f + n as u8);
        self.code.extend_from_slice(&bytes[skip..]);
        self
    }
    pub fn push_u(&mut self, v: u64) -> &mut Self {
        self.push(U256::from(v))
    }
    pub fn push_addr(&mut self, a: Address) -> &mut Self {
        self.push(au(a))
    }
    /// PUSH2 with a placeholder; returns the position of the two bytes
    pub fn push_label(&mut self) -> usize {
        self.code.push(0x61);
        self.code.extend_from_slice(&[0, 0]);
        self.code.len() - 2
    }
    pub fn patch(&mut self, pos: usize, target: usize) {
        self.code[pos] = (target >> 8) as u8;
        self.code[pos + 1] = target as u8;
    }
    pub fn here(&self) -> usize {
        self.code.len()
    }
}

pub struct Ctx {
    pub spec: SpecId,
    pub targets: Vec<Address>,
    pub number: u64,
    /// thorough tier: initcode of the real EIP-3860 size (the list-based Lean model needs ~10 s for each such run)
    pub big: bool,
}

fn small_off(rng: &mut Rng) -> u64 {
    match rng.below(200) {
        0 => 0xffff_ffff_ffff,
        1 => 1 << 20,
        2..=50 => rng.below(4) * 32,
        _ => rng.below(200),
    }
}
fn small_len(rng: &mut Rng) -> u64 {
    match rng.below(12) {
        0 => 0,
        1 => 1,
        2 => 32,
        3 => 33,
        4 => 64,
        _ => rng.below(70),
    }
}

/// consume the word on top of the stack
fn sink(rng: &mut Rng, a: &mut Asm) {
    match rng.below(10) {
        0..=4 => {
            a.op(0x50);
        }
        5..=7 => {
            a.push_u(rng.below(5)).op(0x55);
        }
        _ => {
            a.push_u(rng.below(6) * 32).op(0x52);
        }
    }
}

fn pick_addr(rng: &mut Rng, cx: &Ctx) -> Address {
    match rng.below(12) {
        0 => sender(),
        1 => eoa2(),
        2 => coinbase(),
        3 => nobody(),
        4 => a_n(rng.range(1, 18)),
        5 => a_n(rng.below(3) * 0x100),
        _ => *rng.pick(&cx.targets),
    }
}

/// initcode of at most 32 bytes; the tag names the variant
pub fn small_initcode(rng: &mut Rng, cx: &Ctx) -> (Vec<u8>, &'static str) {
    let mut a = Asm::new();
    match rng.below(12) {
        0 | 1 | 2 => {
            // returns a small runtime code
            let rt: Vec<u8> = match rng.below(5) {
                0 => vec![0x33, 0xff],                                           // CALLER SELFDESTRUCT
                1 => vec![0x60, 0x01, 0x60, 0x00, 0x55, 0x00],                   // SSTORE(0,1)
                2 => vec![0x60, 0x2a, 0x60, 0x00, 0x52, 0x60, 0x20, 0x60, 0x00, 0xf3], // return 42
                3 => vec![0x60, 0x00, 0x60, 0x00, 0xfd],                         // revert
                _ => vec![0x00],
            };
            let l = rt.len() as u64;
            a.push(U256::from_be_slice(&rt)).push_u(0).op(0x52).push_u(l).push_u(32 - l).op(0xf3);
            (a.code, "init-runtime")
        }
        3 => {
            a.push_u(0xaa).push_u(0).op(0x53).push_u(rng.below(3)).push_u(0).op(0xfd);
            (a.code, "init-revert")
        }
        4 => {
            a.push_u(0xef).push_u(0).op(0x53).push_u(1).push_u(0).op(0xf3);
            (a.code, "init-ef")
        }
        5 => {
            a.push_u(*rng.pick(&[0x6000u64, 0x6001, 0x6002])).push_u(0).op(0xf3);
            (a.code, "init-oversize")
        }
        6 => {
            a.push_u(1).push_u(rng.below(3)).op(0x55).op(0x33).op(0xff);
            (a.code, "init-sstore-selfdestruct")
        }
        7 => (vec![], "init-empty"),
        8 => (vec![0xfe], "init-invalid"),
        9 => {
            let t = *rng.pick(&cx.targets);
            a.push_u(0).push_u(0).push_u(0).push_u(0).push_u(0).push_addr(t).op(0x5a).op(0xf1).op(0x00);
            (a.code, "init-calls")
        }
        10 => {
            // nested create of an empty contract, then return 1 byte of code
            a.push_u(0).push_u(0).push_u(0).op(0xf0).op(0x50).push_u(1).push_u(0).op(0xf3);
            (a.code, "init-nested-create")
        }
        _ => {
            a.push_u(1).push_u(0).op(0x55).push_u(0).push_u(0).op(0xf3);
            (a.code, "init-sstore-empty-code")
        }
    }
}

fn emit_call(rng: &mut Rng, a: &mut Asm, cx: &Ctx, out: &mut Out) {
    let kind = *rng.pick(&[0xf1u8, 0xf1, 0xf1, 0xf2, 0xf4, 0xfa]);
    let to = pick_addr(rng, cx);
    // sometimes prepare input in memory
    if rng.chance(1, 3) {
        a.push(rng.word()).push_u(0).op(0x52);
    }
    let in_len = *rng.pick(&[0u64, 0, 4, 32, 36, 64, 128, 213]);
    let out_len = *rng.pick(&[0u64, 0, 1, 32, 64]);
    a.push_u(out_len).push_u(rng.below(3) * 32).push_u(in_len).push_u(rng.below(2) * 32);
    if kind == 0xf1 || kind == 0xf2 {
        let v = match rng.below(8) {
            0 | 1 => U256::from(1),
            2 => U256::from(rng.below(1000)),
            3 => U256::MAX,
            _ => U256::ZERO,
        };
        a.push(v);
    }
    a.push_addr(to);
    match rng.below(10) {
        0 => {
            a.push_u(0);
        }
        1 => {
            a.push_u(*rng.pick(&[1u64, 2299, 2300, 2301]));
        }
        2 | 3 => {
            a.push_u(rng.range(100, 60000));
        }
        4 => {
            a.push(U256::MAX);
        }
        _ => {
            a.op(0x5a);
        }
    }
    a.op(kind);
    out.count(match kind {
        0xf1 => "op-call",
        0xf2 => "op-callcode",
        0xf4 => "op-delegatecall",
        _ => "op-staticcall",
    });
    sink(rng, a);
    if rng.chance(1, 3) {
        a.op(0x3d);
        sink(rng, a);
    }
    if rng.chance(1, 5) {
        // RETURNDATACOPY(0, 0, RETURNDATASIZE) (+1 sometimes: OutOfOffset)
        a.op(0x3d);
        if rng.chance(1, 6) {
            a.push_u(1).op(0x01);
        }
        a.push_u(0).push_u(0).op(0x3e);
    }
}

fn emit_create(rng: &mut Rng, a: &mut Asm, cx: &Ctx, out: &mut Out) {
    let create2 = rng.chance(1, 2);
    let times = if create2 && rng.chance(1, 3) { 2 } else { 1 };
    let salt = rng.below(3);
    if rng.chance(1, 10) {
        // large zero initcode straight from fresh memory (EIP-3860 limit / word cost)
        let len = if cx.big { *rng.pick(&[0xc000u64, 0xc001, 0x8000, 100]) } else { *rng.pick(&[0x800u64, 0x7e1, 0x400, 100]) };
        if create2 {
            a.push_u(salt);
        }
        a.push_u(len).push_u(0).push_u(0).op(if create2 { 0xf5 } else { 0xf0 });
        out.count("create-large-initcode");
        sink(rng, a);
        return;
    }
    let (init, tag) = small_initcode(rng, cx);
    out.count(tag);
    let l = init.len() as u64;
    let mut w = [0u8; 32];
    w[..init.len()].copy_from_slice(&init);
    for _ in 0..times {
        a.push(U256::from_be_bytes(w)).push_u(0).op(0x52);
        if create2 {
            a.push_u(salt);
        }
        let v = match rng.below(6) {
            0 => U256::from(1),
            1 => U256::MAX,
            _ => U256::ZERO,
        };
        a.push_u(l).push_u(0).push(v).op(if create2 { 0xf5 } else { 0xf0 });
        out.count(if create2 { "op-create2" } else { "op-create" });
        if rng.chance(1, 2) {
            // call the created address
            a.push_u(0).push_u(0).push_u(0).push_u(0).push_u(0).op(0x85).op(0x5a).op(0xf1).op(0x50);
            out.count("call-created");
        }
        if rng.chance(1, 4) {
            a.op(0x80).op(0x3b);
            sink(rng, a);
        }
        sink(rng, a);
    }
}

fn emit_env(rng: &mut Rng, a: &mut Asm, cx: &Ctx, out: &mut Out) {
    match rng.below(22) {
        0 => {
            let n = match rng.below(7) {
                0 => cx.number.wrapping_sub(1),
                1 => cx.number.wrapping_sub(256),
                2 => cx.number.wrapping_sub(257),
                3 => cx.number,
                4 => cx.number + 1,
                5 => 0,
                _ => cx.number.wrapping_sub(rng.range(1, 300)),
            };
            a.push_u(n).op(0x40);
            out.count("op-blockhash");
        }
        1 => {
            a.push_u(*rng.pick(&[0u64, 1, 2, 7])).op(0x49);
            out.count("op-blobhash");
        }
        2 => {
            a.push_u(small_off(rng)).op(0x35);
        }
        3 => {
            a.push_addr(pick_addr(rng, cx)).op(0x31);
            out.count("op-balance");
        }
        4 => {
            a.push_addr(pick_addr(rng, cx)).op(0x3b);
            out.count("op-extcodesize");
        }
        5 => {
            a.push_addr(pick_addr(rng, cx)).op(0x3f);
            out.count("op-extcodehash");
        }
        6 => {
            a.push_u(small_len(rng)).push_u(rng.below(40)).push_u(small_off(rng)).push_addr(pick_addr(rng, cx)).op(0x3c);
            out.count("op-extcodecopy");
            return;
        }
        7 => {
            a.push_u(small_len(rng)).push_u(rng.below(40)).push_u(small_off(rng)).op(*rng.pick(&[0x37u8, 0x39]));
            return;
        }
        8 => {
            a.push_u(small_len(rng)).push_u(small_off(rng)).op(0x20);
            out.count("op-keccak");
        }
        9 => {
            a.op(0x47);
        }
        10 => {
            a.op(0x5f);
            out.count("op-push0");
        }
        11 => {
            a.push_u(rng.below(3)).op(0x5c);
            out.count("op-tload");
        }
        12 => {
            a.push(*rng.pick(&[U256::ZERO, U256::from(1), U256::from(7)])).push_u(rng.below(3)).op(0x5d);
            out.count("op-tstore");
            return;
        }
        13 => {
            a.push_u(small_len(rng)).push_u(small_off(rng)).push_u(small_off(rng)).op(0x5e);
            out.count("op-mcopy");
            return;
        }
        _ => {
            a.op(*rng.pick(&[
                0x30u8, 0x32, 0x33, 0x34, 0x36, 0x38, 0x3a, 0x3d, 0x41, 0x42, 0x43, 0x44, 0x45, 0x46, 0x48, 0x4a, 0x58, 0x59,
                0x5a,
            ]));
        }
    }
    sink(rng, a);
}

fn emit_arith(rng: &mut Rng, a: &mut Asm) {
    match rng.below(10) {
        0 => {
            a.push(rng.word()).op(*rng.pick(&[0x15u8, 0x19]));
        }
        1 => {
            a.push(rng.word()).push(rng.word()).push(rng.word()).op(*rng.pick(&[0x08u8, 0x09]));
        }
        2 => {
            a.push(rng.word()).push(rng.word()).op(0x0a);
        }
        3 => {
            // DUP / SWAP
            let n = rng.range(1, 4) as u8;
            for _ in 0..=n {
                a.push(rng.word());
            }
            a.op(if rng.chance(1, 2) { 0x80 + n - 1 } else { 0x90 + n - 1 });
            for _ in 0..n {
                a.op(0x50);
            }
        }
        _ => {
            let ops: [u8; 21] = [
                0x01, 0x02, 0x03, 0x04, 0x05, 0x06, 0x07, 0x0b, 0x10, 0x11, 0x12, 0x13, 0x14, 0x16, 0x17, 0x18, 0x1a, 0x1b,
                0x1c, 0x1d, 0x01,
            ];
            a.push(rng.word()).push(rng.word()).op(*rng.pick(&ops));
        }
    }
    sink(rng, a);
}

fn emit_mem(rng: &mut Rng, a: &mut Asm) {
    match rng.below(5) {
        0 => {
            a.push(rng.word()).push_u(small_off(rng)).op(0x52);
        }
        1 => {
            a.push(rng.word()).push_u(small_off(rng)).op(0x53);
        }
        2 => {
            a.push_u(small_off(rng)).op(0x51);
            sink(rng, a);
        }
        3 => {
            a.op(0x59);
            sink(rng, a);
        }
        _ => {
            a.push(rng.word()).push_u(rng.below(8) * 32).op(0x52);
        }
    }
}

fn emit_storage(rng: &mut Rng, a: &mut Asm, out: &mut Out) {
    if rng.chance(2, 3) {
        let v = match rng.below(5) {
            0 | 1 => U256::ZERO,
            2 => U256::from(1),
            3 => U256::from(2),
            _ => rng.word(),
        };
        a.push(v).push_u(rng.below(5)).op(0x55);
        out.count("op-sstore");
    } else {
        a.push_u(rng.below(5)).op(0x54);
        out.count("op-sload");
        sink(rng, a);
    }
}

fn emit_log(rng: &mut Rng, a: &mut Asm, out: &mut Out) {
    let n = rng.below(5) as u8;
    for _ in 0..n {
        a.push(rng.word());
    }
    a.push_u(small_len(rng)).push_u(rng.below(100)).op(0xa0 + n);
    out.count("op-log");
}

fn emit_snippet(rng: &mut Rng, a: &mut Asm, cx: &Ctx, out: &mut Out, depth: u32) {
    match rng.below(20) {
        0..=2 => emit_arith(rng, a),
        3..=4 => emit_mem(rng, a),
        5..=7 => emit_storage(rng, a, out),
        8 => emit_log(rng, a, out),
        9..=11 => emit_env(rng, a, cx, out),
        12..=15 => emit_call(rng, a, cx, out),
        16..=17 => emit_create(rng, a, cx, out),
        18 if depth < 2 => {
            // conditional forward jump over a snippet
            a.push(*rng.pick(&[U256::ZERO, U256::from(1), U256::MAX]));
            let p = a.push_label();
            a.op(0x57);
            emit_snippet(rng, a, cx, out, depth + 1);
            let t = a.here();
            a.patch(p, t);
            a.op(0x5b);
            out.count("jumpi-forward");
        }
        19 if depth < 2 => {
            // counted loop
            a.push_u(rng.range(1, 4));
            let top = a.here();
            a.op(0x5b);
            emit_snippet(rng, a, cx, out, depth + 1);
            a.push_u(1).op(0x90).op(0x03).op(0x80);
            let p = a.push_label();
            a.patch(p, top);
            a.op(0x57).op(0x50);
            out.count("loop");
        }
        _ => emit_arith(rng, a),
    }
}

fn emit_end(rng: &mut Rng, a: &mut Asm, cx: &Ctx, out: &mut Out) {
    match rng.below(24) {
        0..=3 | 16..=23 => {
            a.op(0x00);
        }
        4..=6 => {
            a.push_u(small_len(rng)).push_u(rng.below(64)).op(0xf3);
            out.count("end-return");
        }
        7..=8 => {
            a.push_u(small_len(rng)).push_u(rng.below(64)).op(0xfd);
            out.count("end-revert");
        }
        9 => {
            a.op(0xfe);
            out.count("end-invalid");
        }
        10..=11 => {
            a.push_addr(pick_addr(rng, cx)).op(0xff);
            out.count("end-selfdestruct");
        }
        12 => {
            a.push_u(rng.below(4)).op(0x56);
            out.count("end-bad-jump");
        }
        13 => {
            a.op(*rng.pick(&[0x0cu8, 0x21, 0x4b, 0xa5, 0xef, 0xf6, 0xe0, 0xd0, 0xee, 0xf7, 0x50, 0x01]));
            out.count("end-odd-opcode");
        }
        _ => {}
    }
}

pub fn gen_code(rng: &mut Rng, cx: &Ctx, out: &mut Out) -> Vec<u8> {
    let mut a = Asm::new();
    let k = rng.range(1, 7);
    for _ in 0..k {
        emit_snippet(rng, &mut a, cx, out, 0);
    }
    emit_end(rng, &mut a, cx, out);
    a.code
}

fn ether(n: u64) -> U256 {
    U256::from(n) * U256::from(1_000_000_000_000_000_000u128)
}

// ---------------------------------------------------------------------------------------------- cross-frame template
//
// A random frame script (c01bnd.rs): up to three nested frames entered by CALL-to-self / DELEGATECALL / CALLCODE /
// CALL / STATICCALL, each writing the same few slots (values 0 / X / Y over originals 0 / X / Y), transient slots,
// logs, creates and value calls, each ending in success / REVERT / a halt / SELFDESTRUCT: what a frame merges into its
// parent on success only (refund counter incl. negative contributions, logs, journal) is exercised from every depth.

const XV: [u64; 3] = [0, 5, 7];

fn xf_end(rng: &mut Rng, level: usize) -> End {
    if level == 0 {
        match rng.below(20) {
            0..=13 => End::Return,
            14..=15 => End::Revert,
            16 => End::Invalid,
            17 => End::Stop,
            18 => End::SelfDestruct(0xdead00),
            _ => End::SelfDestructSelf,
        }
    } else {
        match rng.below(20) {
            0..=8 => End::Stop,
            9 => End::Return,
            10..=14 => End::Revert,
            15..=16 => End::Invalid,
            17 => *rng.pick(&[End::Underflow, End::BadJump]),
            18 => End::SelfDestruct(*rng.pick(&[0xdead00u64, 0x1000, 0x1001])),
            _ => End::SelfDestructSelf,
        }
    }
}

fn xf_body(rng: &mut Rng, level: usize, sc: &mut Script, theme: u64, out: &mut Out) -> usize {
    let me = sc.bodies.len();
    sc.bodies.push((vec![], End::Stop));
    let mut items = vec![];
    let k = rng.range(1, 4);
    let mut called = false;
    let mut last_child: Option<usize> = None;
    for i in 0..k {
        let want_call = level < 2 && (rng.chance(2, 5) || (i + 1 == k && !called && level == 0));
        if want_call {
            let kind = *rng.pick(&[Kind::CallSelf, Kind::CallSelf, Kind::Delegate, Kind::Delegate, Kind::CallCode, Kind::CallOther, Kind::Static]);
            // mostly a fresh body; sometimes the same deeper body a second time
            let body = match last_child {
                Some(b) if rng.chance(1, 4) => b,
                _ => xf_body(rng, level + 1, sc, theme, out),
            };
            last_child = Some(body);
            let gas = match rng.below(10) {
                0 => None,
                1 => Some(*rng.pick(&[0u64, 2300, 2301, 5000, 20_000])),
                _ => Some(if level == 0 { 300_000 } else { 100_000 }),
            };
            let value = if rng.chance(1, 6) { rng.range(1, 3) } else { 0 };
            items.push(It::Call { kind, body, gas, value });
            out.count(&format!("xframe-enter-{}", kind.tag()));
            called = true;
            continue;
        }
        // the theme biases the per-frame accumulator under test
        let pick = if rng.chance(1, 2) { theme } else { rng.below(8) };
        items.push(match pick {
            0 | 1 => It::Sstore(if rng.chance(3, 4) { 0 } else { 1 }, *rng.pick(&XV)),
            2 => It::Log(rng.range(1, 9)),
            3 => {
                if rng.chance(1, 2) {
                    It::Tstore(rng.below(2), *rng.pick(&XV))
                } else {
                    It::Tload(rng.below(2))
                }
            }
            4 => match rng.below(4) {
                0 => It::Sload(rng.below(4)),
                1 => It::Balance(*rng.pick(&[0xbeefu64, 0x1001, 0xdead00])),
                2 => It::ExtCodeSize(*rng.pick(&[0xbeefu64, 0x1001])),
                _ => It::Gas,
            },
            5 => It::CallAddr { to: *rng.pick(&[0xe0au64, 0xaaaa02, 0xdead00, 4]), gas: Some(0), value: rng.below(3) },
            6 => {
                let init: Vec<u8> = match rng.below(5) {
                    0 => vec![0x60, 0x00, 0x60, 0x00, 0xfd],
                    1 => vec![0xfe],
                    2 => vec![0x33, 0xff],
                    _ => vec![0x60, 0x00, 0x60, 0x00, 0x53, 0x60, 0x01, 0x60, 0x00, 0xf3],
                };
                It::Create { salt: if rng.chance(1, 2) { Some(rng.below(2)) } else { None }, init, value: rng.below(2) }
            }
            _ => It::Sload(rng.below(2)),
        });
    }
    sc.bodies[me] = (items, xf_end(rng, level));
    me
}

/// replaces contract 0 (and its twin, contract 1) by a random frame script; returns the tag of the theme
fn xframe_world(rng: &mut Rng, c: &mut Case, out: &mut Out) {
    let theme = rng.below(8);
    let mut sc = Script { bodies: vec![], quiet: rng.chance(1, 3) };
    let mut st: Vec<(U256, U256)> =
        (0..2u64).filter_map(|k| { let v = *rng.pick(&XV); if v == 0 { None } else { Some((U256::from(k), U256::from(v))) } }).collect();
    if theme < 2 && rng.chance(3, 4) {
        // a random point of the cross product of c01bnd.rs `xframe_sstore`: two or three writes of 0 / original / other
        // on one slot at random places of the timeline outer - inner - inner-inner - inner - outer
        let orig = if rng.chance(3, 4) { 5 } else { 0 };
        let len = rng.range(2, 3) as usize;
        let mut pos: Vec<usize> = (0..len).map(|_| rng.below(5) as usize).collect();
        pos.sort();
        let vals: Vec<u64> = (0..len).map(|_| *rng.pick(&[0u64, 0, 5, 5, 7])).collect();
        let kinds = [Kind::CallSelf, Kind::CallSelf, Kind::Delegate, Kind::Delegate, Kind::CallCode, Kind::CallCode, Kind::CallOther, Kind::Static];
        let ends = [End::Stop, End::Stop, End::Stop, End::Return, End::Revert, End::Revert, End::Invalid, End::Underflow];
        sc = sstore_plan(*rng.pick(&kinds), *rng.pick(&kinds), &pos, &vals, *rng.pick(&ends), *rng.pick(&ends), rng.below(5));
        st = if orig == 0 { vec![] } else { vec![(U256::ZERO, U256::from(orig))] };
        out.count("xframe-sstore-lock-pattern");
    } else if theme == 7 {
        // output window of a call: random window, random amount returned / reverted, sometimes a RETURNDATACOPY after
        let kind = *rng.pick(&[Kind::CallSelf, Kind::Delegate, Kind::CallCode, Kind::CallOther, Kind::Static]);
        let out_len = *rng.pick(&[0u64, 1, 31, 32, 33, 64, 96]);
        let ret = match rng.below(5) {
            0 => 0,
            1 => out_len.saturating_sub(1),
            2 => out_len,
            3 => out_len + 1,
            _ => rng.below(97),
        }
        .min(96);
        let callee = match rng.below(8) {
            0..=3 => End::ReturnN(ret),
            4..=5 => End::RevertN(ret),
            6 => End::Stop,
            _ => End::Invalid,
        };
        let copy = if rng.chance(1, 3) { Some((0x100 + rng.below(0x60), rng.below(3).min(ret), if rng.chance(1, 8) { 1 } else { 0 })) } else { None };
        sc = window_script(kind, 0x100 + rng.below(0x41), out_len, callee, SpecId::enabled(c.spec, SpecId::BYZANTIUM), copy);
    } else {
        xf_body(rng, 0, &mut sc, theme, out);
    }
    let code = compile(&sc, 0x1001);
    for i in 0..2 {
        let a = c.accts.iter_mut().find(|a| a.addr == contract(i)).unwrap();
        a.code = code.clone();
        a.storage = st.clone();
        a.balance = *rng.pick(&[U256::ZERO, U256::from(2), U256::from(1000)]);
    }
    out.count(&format!(
        "xframe-theme-{}",
        ["sstore-refund", "sstore-refund", "logs", "transient", "warmth", "value", "create", "return-window"][theme as usize]
    ));
    out.count(&format!("xframe-frames-{}", sc.bodies.len()));
    for (i, b) in sc.bodies.iter().enumerate() {
        out.count(&format!("xframe-{}-frame-ends-{}", if i == 0 { "outer" } else { "inner" }, b.1.tag()));
    }
}

pub fn gen_case(rng: &mut Rng, out: &mut Out, big: bool) -> Case {
    // two of five worlds are cross-frame scripts, on the forks whose refund / warmth / transient rules differ
    let template = rng.below(20);
    let xframe = template < 8;
    // one world in ten: Prague calldata floor against refunds (see `floor_world`)
    let floor_tpl = template >= 8 && template < 10;
    let spec = if floor_tpl {
        if rng.chance(9, 10) { SpecId::PRAGUE } else { SpecId::CANCUN }
    } else if xframe && rng.chance(2, 3) {
        *rng.pick(&[
            SpecId::CONSTANTINOPLE,
            SpecId::PETERSBURG,
            SpecId::ISTANBUL,
            SpecId::BERLIN,
            SpecId::LONDON,
            SpecId::CANCUN,
            SpecId::PRAGUE,
        ])
    } else if rng.chance(1, 2) {
        *rng.pick(&[SpecId::CANCUN, SpecId::PRAGUE, SpecId::SHANGHAI, SpecId::LONDON])
    } else {
        *rng.pick(&SPECS)
    };
    out.count(if xframe {
        "template-cross-frame-script"
    } else if floor_tpl {
        "template-floor-against-refund"
    } else {
        "template-instruction-mix"
    });
    out.count(&format!("spec-{:?}", spec));
    let en = |s: SpecId| SpecId::enabled(spec, s);
    let number = *rng.pick(&[1u64, 10, 255, 256, 257, 300, 1000, 20_000_000]);
    let ncontracts = rng.range(if xframe { 2 } else { 1 }, 6) as usize;
    let mut targets: Vec<Address> = (0..ncontracts).map(contract).collect();
    let cx = Ctx { spec, targets: targets.clone(), number, big };
    let basefee = *rng.pick(&[0u64, 7, 7, 1000]);
    let mut c = Case {
        spec,
        hs: rng.chance(3, 4),
        chain_id: 1,
        number: U256::from(number),
        coinbase: if rng.chance(1, 10) { *rng.pick(&[sender(), contract(0), a_n(3)]) } else { coinbase() },
        timestamp: U256::from(1000 + rng.below(1000)),
        gas_limit: U256::from(30_000_000u64),
        basefee: U256::from(basefee),
        difficulty: U256::from(rng.below(1 << 40)),
        prevrandao: if en(SpecId::MERGE) || rng.chance(1, 3) { Some(B256::from(rng.u256())) } else { None },
        blob_gasprice: if en(SpecId::CANCUN) || rng.chance(1, 5) { Some(*rng.pick(&[1u128, 1, 2, 1000])) } else { None },
        limit_code_size: None,
        accts: vec![],
        pcs: vec![],
        txs: vec![],
    };
    // accounts
    let sender_balance = ether(1_000_000);
    let sender_nonce = *rng.pick(&[0u64, 0, 1, 5, 0xff]);
    c.accts.push(Acct { addr: sender(), balance: sender_balance, nonce: sender_nonce, ..Default::default() });
    if rng.chance(2, 3) {
        c.accts.push(Acct { addr: eoa2(), balance: U256::from(rng.below(3) * 1000), nonce: rng.below(3), ..Default::default() });
    }
    for i in 0..ncontracts {
        let code = gen_code(rng, &cx, out);
        let mut storage = vec![];
        for s in 0..5u64 {
            if rng.chance(1, 3) {
                storage.push((U256::from(s), *rng.pick(&[U256::from(1), U256::from(2), U256::MAX])));
            }
        }
        c.accts.push(Acct {
            addr: contract(i),
            balance: *rng.pick(&[U256::ZERO, U256::from(1), U256::from(1000), ether(1)]),
            nonce: if en(SpecId::SPURIOUS_DRAGON) { 1 } else { rng.below(2) },
            code,
            storage,
        });
    }
    if rng.chance(1, 6) {
        // an account that the coinbase / a precompile address owns
        c.accts.push(Acct { addr: a_n(rng.range(1, 10)), balance: U256::from(1), ..Default::default() });
    }
    // EIP-7702 delegated EOA in the pre-state
    if en(SpecId::PRAGUE) && rng.chance(1, 3) {
        let mut code = vec![0xef, 0x01, 0x00];
        let d = match rng.below(4) {
            0 => eoa3(),
            1 => a_n(4),
            _ => *rng.pick(&targets),
        };
        code.extend_from_slice(d.as_slice());
        c.accts.push(Acct { addr: eoa3(), balance: U256::from(5000), nonce: 1, code, ..Default::default() });
        targets.push(eoa3());
        out.count("prestate-delegated-eoa");
    }
    if xframe {
        xframe_world(rng, &mut c, out);
    }
    // floor template: contract 0 clears `fl_n` slots, spends `fl_burn` more gas, then ends
    let fl_n = rng.below(9);
    let fl_end = *rng.pick(&[0xf3u8, 0xf3, 0xf3, 0x00, 0x00, 0xfd, 0xfe]);
    if floor_tpl {
        let burn = *rng.pick(&[0u64, 0, 1, 7, 100, 1000, 3000]);
        let mut a = Asm::new();
        for k in 0..fl_n {
            a.push_u(0).push_u(k).op(0x55);
        }
        for _ in 0..burn {
            a.op(0x5b);
        }
        if fl_end == 0xf3 || fl_end == 0xfd {
            a.push_u(0).push_u(0);
        }
        a.op(fl_end);
        let acc = c.accts.iter_mut().find(|x| x.addr == contract(0)).unwrap();
        acc.code = a.code;
        acc.storage = (0..fl_n).map(|k| (U256::from(k), U256::from(0xffu64))).collect();
        if !c.accts.iter().any(|x| x.addr == eoa2()) {
            c.accts.push(Acct { addr: eoa2(), balance: U256::from(1), nonce: rng.below(3), ..Default::default() });
        }
    }
    // transaction
    let kind = match rng.below(20) {
        _ if xframe || floor_tpl => "call",
        0..=2 => "create",
        3 => "to-eoa",
        4 => "to-precompile",
        5 => "to-nobody",
        _ => "call",
    };
    out.count(&format!("tx-{}", kind));
    let mut t = TxSpec { caller: sender(), nonce: Some(sender_nonce), chain_id: Some(1), ..Default::default() };
    match rng.below(40) {
        0..=2 => t.nonce = None,
        3..=5 => t.chain_id = None,
        6 => t.nonce = Some(sender_nonce + 1),
        7 => t.chain_id = Some(2),
        8 => t.nonce = Some(sender_nonce.wrapping_sub(1)),
        _ => {}
    }
    t.to = match kind {
        "create" => None,
        "to-eoa" => Some(*rng.pick(&[eoa2(), sender(), eoa3()])),
        "to-precompile" => Some(a_n(rng.range(1, 17))),
        "to-nobody" => Some(nobody()),
        _ if xframe || floor_tpl => Some(contract(0)),
        _ => Some(*rng.pick(&targets)),
    };
    t.data = match kind {
        // the calldata size selects the body: mostly the outer one
        // (any other size runs the outer body too: long non-zero calldata puts the EIP-7623 floor of Prague among the
        // refunds earned across the frames)
        _ if xframe => {
            if rng.chance(1, 12) {
                vec![0u8; rng.range(1, 3) as usize]
            } else if rng.chance(1, 3) {
                out.count("xframe-long-calldata");
                vec![0x11u8; (*rng.pick(&[100u64, 200, 400, 800, 1200]) + rng.below(40)) as usize]
            } else {
                vec![]
            }
        }
        "create" => {
            if rng.chance(1, 2) {
                small_initcode(rng, &cx).0
            } else {
                // initcode = generated code followed by a RETURN of a small runtime
                let mut code = gen_code(rng, &cx, out);
                if rng.chance(1, 2) {
                    let mut a = Asm::new();
                    a.push_u(0x33ff).push_u(0).op(0x52).push_u(2).push_u(30).op(0xf3);
                    let mut c2 = a.code;
                    c2.append(&mut code);
                    code = c2;
                }
                code
            }
        }
        "to-precompile" => {
            let l = *rng.pick(&[0usize, 32, 64, 96, 128, 192, 213, 300]);
            let mut d = rng.bytes(l);
            if rng.chance(1, 2) {
                for b in d.iter_mut() {
                    if rng.chance(2, 3) {
                        *b = 0;
                    }
                }
            }
            d
        }
        _ => {
            let l = *rng.pick(&[0usize, 0, 0, 4, 4, 32, 36, 100, 100, 300, 900]);
            let mut d = rng.bytes(l);
            for b in d.iter_mut() {
                if rng.chance(1, 3) {
                    *b = 0;
                }
            }
            d
        }
    };
    t.value = match rng.below(8) {
        0 => U256::from(1),
        1 => U256::from(rng.below(100000)),
        2 => ether(1),
        _ => U256::ZERO,
    };
    // collision target for a create transaction
    if kind == "create" && rng.chance(1, 6) {
        let at = sender().create(sender_nonce);
        let mut acc = Acct { addr: at, ..Default::default() };
        match rng.below(4) {
            0 => acc.nonce = 1,
            1 => acc.code = vec![0x00],
            2 => acc.storage = vec![(U256::from(1), U256::from(1))],
            _ => acc.balance = U256::from(7),
        }
        c.accts.push(acc);
        out.count("tx-create-collision-prestate");
    }
    // fees and type
    let ty = match rng.below(10) {
        0..=3 => 0,
        4..=5 => 1,
        6..=7 => 2,
        8 => 3,
        _ => 4,
    };
    // mostly only types the fork knows
    let ty = if (ty == 1 && !en(SpecId::BERLIN) || ty == 2 && !en(SpecId::LONDON) || ty == 3 && !en(SpecId::CANCUN) || ty == 4 && !en(SpecId::PRAGUE))
        && rng.chance(9, 10)
    {
        0
    } else {
        ty
    };
    out.count(&format!("txtype-{}", ty));
    t.gas_price = U256::from(basefee + *rng.pick(&[0u64, 1, 10, 1000]));
    if ty >= 1 {
        let mut al = vec![];
        let lo = if ty == 1 { 1 } else { 0 };
        for _ in 0..rng.range(lo, 4) {
            let a = match rng.below(6) {
                0 => sender(),
                1 => c.coinbase,
                2 => a_n(rng.range(1, 10)),
                3 => nobody(),
                _ => *rng.pick(&targets),
            };
            let keys: Vec<U256> = (0..rng.below(4)).map(|_| U256::from(rng.below(5))).collect();
            al.push((a, keys));
        }
        t.access_list = al;
    }
    if ty >= 2 {
        t.prio = Some(match rng.below(5) {
            0 => U256::ZERO,
            1 => t.gas_price,
            2 => t.gas_price + U256::from(1),
            _ => U256::from(rng.below(20)),
        });
    }
    if ty == 3 {
        let nb = *rng.pick(&[1u64, 1, 2, 6, 7, 9, 10]);
        t.blobs = (0..nb)
            .map(|_| {
                let mut h = rng.u256().to_be_bytes::<32>();
                h[0] = if rng.chance(1, 20) { 2 } else { 1 };
                B256::from(h)
            })
            .collect();
        t.max_blob_fee = Some(U256::from(*rng.pick(&[0u64, 1, 2, 1000, 100000])));
        if rng.chance(1, 10) {
            t.blobs.clear();
        }
    }
    if ty == 4 {
        let mut l = vec![];
        let lo = if rng.chance(1, 12) { 0 } else { 1 };
        for _ in 0..rng.range(lo, 3) {
            let authority = match rng.below(8) {
                0 => None,
                1 => Some(sender()),
                2 => Some(contract(0)),
                3 => Some(nobody()),
                4 => Some(eoa3()),
                _ => Some(eoa2()),
            };
            let acc_nonce = authority.and_then(|x| c.accts.iter().find(|a| a.addr == x)).map(|a| a.nonce).unwrap_or(0);
            l.push(AuthItem {
                chain_id: *rng.pick(&[U256::ZERO, U256::from(1), U256::from(1), U256::from(5)]),
                address: match rng.below(6) {
                    0 => Address::ZERO,
                    1 => a_n(rng.range(1, 10)),
                    2 => eoa2(),
                    _ => *rng.pick(&targets),
                },
                nonce: match rng.below(8) {
                    0 => acc_nonce + 1,
                    1 => u64::MAX,
                    // the sender's nonce is bumped before the list is processed
                    _ => if authority == Some(sender()) && rng.chance(1, 2) { acc_nonce + 1 } else { acc_nonce },
                },
                authority,
            });
        }
        t.auth = Some(l);
        if t.to.is_none() && rng.chance(9, 10) {
            t.to = Some(*rng.pick(&targets));
        }
        if rng.chance(1, 2) && !xframe && !floor_tpl {
            t.to = Some(eoa2());
        }
    }
    if floor_tpl {
        // own authorization list: valid ones of an existing authority earn the EIP-7702 refund
        let mut existing = 0u64;
        if ty == 4 {
            let n2 = c.accts.iter().find(|a| a.addr == eoa2()).map(|a| a.nonce).unwrap_or(0);
            let mut l = vec![];
            if rng.chance(3, 4) {
                l.push(AuthItem { chain_id: U256::from(1), address: contract(0), nonce: n2, authority: Some(eoa2()) });
                existing += 1;
            }
            if rng.chance(1, 3) {
                l.push(AuthItem { chain_id: U256::from(1), address: contract(0), nonce: 0, authority: Some(a_n(0xaaaa09)) });
            }
            if rng.chance(1, 3) || l.is_empty() {
                l.push(AuthItem { chain_id: U256::from(1), address: contract(0), nonce: 0, authority: None });
            }
            t.auth = Some(l);
            t.to = Some(contract(0));
        }
        t.value = U256::ZERO;
        t.nonce = Some(sender_nonce);
        t.chain_id = Some(1);
        // gas of the execution from a first run without calldata
        let items: Vec<AccessListItem> = t
            .access_list
            .iter()
            .map(|(a, ks)| AccessListItem { address: *a, storage_keys: ks.iter().map(|k| B256::from(*k)).collect() })
            .collect();
        let nauth = t.auth.as_ref().map(|l| l.len() as u64).unwrap_or(0);
        let intr0 = calculate_initial_tx_gas(revm_canon(spec), &[], false, &items, nauth).initial_gas;
        let mut probe = t.clone();
        probe.data = vec![];
        probe.gas_limit = 1_000_000;
        let r = {
            let p = c.clone();
            guarded(move || run_tx(&p, &probe))
        };
        let halts = fl_end == 0xfe;
        let limit = if halts { intr0 + *rng.pick(&[30_000u64, 60_000]) } else { 1_000_000 };
        // a reverting run reports no refund: its 7702 refund is known by construction
        let spent0 = gas_of(&r).map(|(u, rf)| u + rf + if r.starts_with("revert") { 12_500 * existing } else { 0 });
        let raw = (if fl_end == 0xf3 || fl_end == 0x00 { 4800 * fl_n } else { 0 }) + 12_500 * existing;
        let mut nz = *rng.pick(&[0u64, 10, 200, 1000]);
        if let Some(s0) = spent0 {
            let pts = floor_points(intr0, s0.saturating_sub(intr0), raw, limit, halts, 2, 3);
            if !pts.is_empty() && rng.chance(9, 10) {
                nz = *rng.pick(&pts);
                out.count("floor-template-at-a-crossing");
            }
        }
        t.data = vec![0x11u8; nz as usize];
        // zero bytes shift the floor by 10 and the intrinsic gas by 4 each
        for _ in 0..*rng.pick(&[0u64, 0, 0, 1, 2, 5]) {
            t.data.push(0);
        }
        c.txs.push(TxSpec { gas_limit: limit, ..t.clone() });
        return c;
    }
    // gas limit
    let al_items: Vec<AccessListItem> = t
        .access_list
        .iter()
        .map(|(a, ks)| AccessListItem { address: *a, storage_keys: ks.iter().map(|k| B256::from(*k)).collect() })
        .collect();
    let ig = calculate_initial_tx_gas(
        revm_canon(spec),
        &t.data,
        t.to.is_none(),
        &al_items,
        t.auth.as_ref().map(|l| l.len() as u64).unwrap_or(0),
    );
    let floor = ig.initial_gas.max(ig.floor_gas);
    t.gas_limit = match rng.below(40) {
        0 | 1 => floor,
        2 | 3 => floor + 1,
        4 => floor.saturating_sub(1),
        5 => ig.initial_gas,
        6 | 7 => floor + rng.below(200),
        8..=11 => floor + rng.range(200, 5000),
        12 => 1000,
        13 => floor + 3_000_000,
        14 => 30_000_001,
        15..=24 => floor + rng.range(5_000, 100_000),
        _ => floor + rng.range(100_000, 1_500_000),
    };
    if xframe && rng.chance(4, 5) {
        // the frames need room: the interesting limits come from the "exactly spent / one less" reruns
        t.gas_limit = floor + rng.range(600_000, 1_500_000);
    }
    // occasionally a sender that cannot pay
    if rng.chance(1, 25) {
        let need = U256::from(t.gas_limit) * t.gas_price + t.value;
        c.accts[0].balance = if rng.chance(1, 2) { need } else { need.saturating_sub(U256::from(1)) };
        out.count("sender-balance-boundary");
    }
    c.txs.push(t);
    c
}

/// `spec_to_generic!` canonicalisation (for `calculate_initial_tx_gas`, which the handler calls with the canonical id)
pub fn revm_canon(s: SpecId) -> SpecId {
    match s {
        SpecId::FRONTIER_THAWING => SpecId::FRONTIER,
        SpecId::DAO_FORK => SpecId::HOMESTEAD,
        SpecId::CONSTANTINOPLE => SpecId::PETERSBURG,
        SpecId::MUIR_GLACIER => SpecId::ISTANBUL,
        SpecId::ARROW_GLACIER | SpecId::GRAY_GLACIER => SpecId::LONDON,
        x => x,
    }
}

fn gas_of(reply: &str) -> Option<(u64, u64)> {
    let mut used = None;
    let mut refund = None;
    for tok in reply.split(' ') {
        if let Some(v) = tok.strip_prefix("gas=") {
            used = v.parse().ok();
        }
        if let Some(v) = tok.strip_prefix("refund=") {
            refund = v.parse().ok();
        }
    }
    Some((used?, refund?))
}

pub fn generate(seed: u64, n: usize, cases: &mut Vec<(Option<String>, Case)>, out: &mut Out) {
    let mut rng = Rng::new(seed ^ 0xC01);
    let mut made = 0usize;
    while made < n {
        let mut c = gen_case(&mut rng, out, n >= 2000);
        // boundary gas limits derived from the first run: exactly what was spent, one less
        if rng.chance(1, 3) {
            let t0 = c.txs[0].clone();
            let mut probe = c.clone();
            add_oracle(&mut probe);
            let r = {
                let p = probe.clone();
                let t = t0.clone();
                guarded(move || run_tx(&p, &t))
            };
            if let Some((used, refund)) = gas_of(&r) {
                let spent = used + refund;
                if r.starts_with("success") && spent > 21000 && spent < 2_000_000 {
                    for g in [spent, spent - 1] {
                        let mut t = t0.clone();
                        t.gas_limit = g;
                        c.txs.push(t);
                        out.count("tx-gas-exactly-spent-or-one-less");
                    }
                }
            }
        }
        add_oracle(&mut c);
        made += c.txs.len();
        cases.push((None, c));
    }
}
