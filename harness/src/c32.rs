//! C32: blob fee helpers (`crates/primitives/src/utilities.rs`, `env.rs`) — the real functions.
//! All numbers decimal.
//!   blob fakeexp <factor> <numerator> <denominator>          -> <u128> | panic
//!   blob price <excess> <is_prague>                          -> <u128> | panic
//!   blob excess <parent_excess> <parent_used> <target>       -> <u64>
//!   blob new <excess> <is_prague>                            -> <excess> <price> <get_excess> <get_price>
//!   blob parent <parent_excess> <parent_used> <target> <is_prague> -> <excess> <price>
//! No line is refused: the repaired `fake_exponential` saturates, so its loop ends after a few hundred
//! iterations for every argument (the former `too-long` guard is gone).
use crate::*;
use revm::primitives::{
    calc_blob_gasprice, calc_excess_blob_gas, fake_exponential, BlobExcessGasAndPrice, BlockEnv,
    BLOB_BASE_FEE_UPDATE_FRACTION_CANCUN, BLOB_BASE_FEE_UPDATE_FRACTION_ELECTRA,
};

fn frac(p: bool) -> u64 {
    if p { BLOB_BASE_FEE_UPDATE_FRACTION_ELECTRA } else { BLOB_BASE_FEE_UPDATE_FRACTION_CANCUN }
}

/// classification for the evidence only: would a 128-bit intermediate overflow (the region where the
/// unrepaired code wrapped)?
fn overflows(f: u64, n: u64, d: u64) -> bool {
    if d == 0 { return false; }
    let (n, d) = (n as u128, d as u128);
    let mut i: u128 = 1;
    let mut out: u128 = 0;
    let mut acc: u128 = f as u128 * d;
    while acc > 0 {
        let Some(o) = out.checked_add(acc) else { return true };
        out = o;
        let Some(p) = acc.checked_mul(n) else { return true };
        acc = p / (d * i);
        i += 1;
    }
    false
}

pub fn exec_line(line: &str) -> String {
    let t: Vec<&str> = line.split(' ').collect();
    if t.len() < 2 || t[0] != "blob" {
        return "bad-op".into();
    }
    let u = |s: &str| -> Option<u64> {
        if s.is_empty() || !s.bytes().all(|c| c.is_ascii_digit()) { return None; }
        s.parse::<u64>().ok()
    };
    let b = |s: &str| -> Option<bool> {
        match s { "1" => Some(true), "0" => Some(false), _ => None }
    };
    match (t[1], t.len()) {
        ("fakeexp", 5) => {
            let (Some(f), Some(n), Some(d)) = (u(t[2]), u(t[3]), u(t[4])) else { return "bad-op".into() };
            guarded(move || fake_exponential(f, n, d).to_string())
        }
        ("price", 4) => {
            let (Some(e), Some(p)) = (u(t[2]), b(t[3])) else { return "bad-op".into() };
            guarded(move || calc_blob_gasprice(e, p).to_string())
        }
        ("excess", 5) => {
            let (Some(a), Some(bb), Some(c)) = (u(t[2]), u(t[3]), u(t[4])) else { return "bad-op".into() };
            guarded(move || calc_excess_blob_gas(a, bb, c).to_string())
        }
        ("new", 4) => {
            let (Some(e), Some(p)) = (u(t[2]), b(t[3])) else { return "bad-op".into() };
            guarded(move || {
                let v = BlobExcessGasAndPrice::new(e, p);
                let mut be = BlockEnv::default();
                be.set_blob_excess_gas_and_price(e, p);
                format!(
                    "{} {} {} {}",
                    v.excess_blob_gas,
                    v.blob_gasprice,
                    be.get_blob_excess_gas().map(|x| x.to_string()).unwrap_or("none".into()),
                    be.get_blob_gasprice().map(|x| x.to_string()).unwrap_or("none".into())
                )
            })
        }
        ("parent", 6) => {
            let (Some(a), Some(bb), Some(c), Some(p)) = (u(t[2]), u(t[3]), u(t[4]), b(t[5])) else {
                return "bad-op".into();
            };
            guarded(move || {
                let v = BlobExcessGasAndPrice::from_parent_and_target(a, bb, c, p);
                format!("{} {}", v.excess_blob_gas, v.blob_gasprice)
            })
        }
        _ => "bad-op".into(),
    }
}

fn boundary_u64() -> Vec<u64> {
    let mut v = vec![
        0u64, 1, 2, 3, 87, 88, 89, 131072, 393216, 786432, 3338476, 3338477, 3338478, 5007715, 5007716, 5007717,
        10_000_000, 100_000_000, 192204552, 192204553, 192204554, 284284038, 284284039, 284284040,
        u32::MAX as u64, 1 << 32, (1 << 32) + 1, 1 << 42, 1 << 43, (1 << 63) - 1, 1 << 63, (1 << 63) + 1,
        u64::MAX - 1, u64::MAX,
    ];
    v.sort();
    v.dedup();
    v
}

fn rnd_u64(rng: &mut Rng) -> u64 {
    match rng.below(10) {
        0..=2 => *rng.pick(&boundary_u64()),
        3..=4 => rng.below(1000),
        5..=7 => {
            let bits = rng.range(1, 64);
            let w = rng.next();
            if bits == 64 { w } else { w >> (64 - bits) }
        }
        _ => rng.next(),
    }
}

pub fn gen(seed: u64, n: usize) -> Vec<String> {
    let mut rng = Rng::new(seed ^ 0xC32);
    let bw = boundary_u64();
    let mut lines = Vec::new();
    // stream 1 (boundary): complete cross products
    for a in &bw {
        for b in &bw {
            for t in [0u64, 1, 393216, 786432, u64::MAX] {
                lines.push(format!("blob excess {a} {b} {t}"));
            }
        }
    }
    for e in &bw {
        for p in [0, 1] {
            lines.push(format!("blob price {e} {p}"));
            lines.push(format!("blob new {e} {p}"));
        }
    }
    for f in [0u64, 1, 2, u32::MAX as u64, u64::MAX] {
        for nn in &bw {
            for d in [0u64, 1, 2, 3338477, 5007716, 1 << 32, u64::MAX] {
                lines.push(format!("blob fakeexp {f} {nn} {d}"));
            }
        }
    }
    // around the two exact thresholds and the smallest witness
    for k in 0..40u64 {
        lines.push(format!("blob price {} 0", 192204553 - 20 + k));
        lines.push(format!("blob price {} 1", 284284039 - 20 + k));
        lines.push(format!("blob fakeexp 1 {} 1", 70 + k));
    }
    // stream 2 (structured): realistic and large excess values, ratio numerator/denominator controlled
    for _ in 0..n {
        match rng.below(10) {
            0..=2 => {
                // price: ratio excess/fraction uniform in [0, 120) (the result fits up to ~88), sometimes larger
                let p = rng.chance(1, 2);
                let r = if rng.chance(1, 20) { rng.below(3000) } else { rng.below(120) };
                let e = r * frac(p) + rng.below(frac(p));
                if rng.chance(1, 4) {
                    lines.push(format!("blob new {e} {}", b01(p)));
                } else {
                    lines.push(format!("blob price {e} {}", b01(p)));
                }
            }
            3..=5 => {
                // fakeexp with a chosen ratio
                let d = match rng.below(4) { 0 => rng.range(1, 1000), 1 => frac(rng.chance(1, 2)), _ => rnd_u64(&mut rng).max(1) };
                let r = if rng.chance(1, 20) { rng.below(3000) } else { rng.below(130) };
                let nn = (r as u128 * d as u128 + rng.below(d) as u128).min(u64::MAX as u128) as u64;
                let f = match rng.below(4) { 0 => 1, 1 => rng.below(1000), _ => rnd_u64(&mut rng) };
                lines.push(format!("blob fakeexp {f} {nn} {d}"));
            }
            6..=7 => {
                let (a, b, t) = (rnd_u64(&mut rng), rnd_u64(&mut rng), rnd_u64(&mut rng));
                lines.push(format!("blob excess {a} {b} {t}"));
            }
            8 if rng.chance(1, 2) => {
                // any u64 excess (mostly saturating)
                let e = rnd_u64(&mut rng);
                let p = rng.below(2);
                if rng.chance(1, 2) { lines.push(format!("blob price {e} {p}")); } else { lines.push(format!("blob new {e} {p}")); }
            }
            8 => {
                // realistic parents: multiples of GAS_PER_BLOB around the target
                let g = 131072u64;
                let a = rng.below(2000) * g;
                let b = rng.below(10) * g;
                let t = *rng.pick(&[3 * g, 6 * g, 0, g]);
                lines.push(format!("blob parent {a} {b} {t} {}", rng.below(2)));
            }
            _ => {
                let (a, b, t) = (rnd_u64(&mut rng), rnd_u64(&mut rng), rnd_u64(&mut rng));
                lines.push(format!("blob parent {a} {b} {t} {}", rng.below(2)));
            }
        }
    }
    // stream 3 (malformed / out of protocol)
    for _ in 0..(n / 50).max(3) {
        match rng.below(4) {
            0 => lines.push(format!("blob fakeexp {} {}", rnd_u64(&mut rng), rnd_u64(&mut rng))),
            1 => lines.push(format!("blob price {} 2", rnd_u64(&mut rng))),
            2 => lines.push(format!("blob excess {} x 1", rnd_u64(&mut rng))),
            _ => lines.push("blob nop".to_string()),
        }
    }
    lines
}

pub fn run(seed: u64, n: usize, replay: Option<Vec<String>>, out: &mut Out) {
    let lines = replay.unwrap_or_else(|| gen(seed, n));
    for l in lines {
        let r = exec_line(&l);
        let t: Vec<&str> = l.split(' ').collect();
        let op = t.get(1).copied().unwrap_or("?").to_string();
        out.count(&format!("op:{op}"));
        let pu = |i: usize| t.get(i).and_then(|s| s.parse::<u64>().ok());
        match (op.as_str(), r.as_str()) {
            (_, "panic") => out.count("reply:panic"),
            (_, "bad-op") => out.count("reply:bad-op"),
            ("fakeexp", _) => {
                if let (Some(f), Some(n), Some(d)) = (pu(2), pu(3), pu(4)) {
                    out.count(if overflows(f, n, d) { if r == u128::MAX.to_string() { "fakeexp:saturated" } else { "fakeexp:exact,needs>128-bit-intermediate" } } else { "fakeexp:exact,128-bit-intermediates" });
                }
            }
            ("price", _) | ("new", _) => {
                if let (Some(e), Some(p)) = (pu(2), pu(3)) {
                    out.count(if overflows(1, e, frac(p == 1)) { if r.contains(&u128::MAX.to_string()) { "price:saturated" } else { "price:exact,needs>128-bit-intermediate" } } else { "price:exact,128-bit-intermediates" });
                }
            }
            ("excess", _) | ("parent", _) => {
                if let (Some(a), Some(b)) = (pu(2), pu(3)) {
                    out.count(if a.checked_add(b).is_none() { "excess:sum>=2^64" } else { "excess:sum<2^64" });
                }
            }
            _ => {}
        }
        out.push(l, r);
    }
}
