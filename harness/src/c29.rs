//! C29 / C30: inspector callbacks of REAL transactions, component `hooks` (corr components `C29`, `C30`).
//!
//! A case is a block
//!   `begin hooks <spec_u8> <mode> <inspector seed> <accounts>`   accounts = `addr:balance:nonce:code|-` joined by `,`
//!   `hk tx <to|create> <value> <gas> <data|-> <dbfail n|0> | <script>`   (one or more, all on the SAME `Evm`)
//! mode = obs (inspector only records) | sc (short-circuits random call/create/eofcreate with an outcome)
//!      | halt (its `step` stops the interpreter at random instructions) | mut (edits `CallInputs` in `call`).
//!
//! The `Evm` is built with TWO handler registers: first `probe_register` (below), then the crate's
//! `inspector_handle_register`. So the inspector's wrappers wrap the probes, and the probes see what the
//! underlying machine does independently of the wrapper under test: which action `execute_frame` returned
//! (with its inputs), what the mainnet `call/create/eofcreate` handler answered (Frame / Result / Err) and
//! which inputs it received, what `*_return` produced, whether `insert_*_outcome` failed, which instruction
//! ran (LOG: `logs.len()` before / after; SELFDESTRUCT: interpreter + journal facts before it ran).
//! That record, plus the inspector's own decisions, is the `<script>` of the request line: the oracle of
//! `Model.InspectorHooks`. The reply is what the inspector actually saw:
//!   `<finished|aborted|nocall> w=<callback word> bal=<0|1> st=<0|1|-> lg=<0|1> sdok=<0|1> sd=<per executed SELFDESTRUCT: result/gas/contract balance/target balance>`
//! `bal` = one-stack bracket check of the word (kind and inputs hash must match), `st` = step/step_end only as
//! adjacent pairs, `lg` = log callbacks = logs appended by executed LOGs, `sdok` = selfdestruct callbacks =
//! (contract, popped target, balance delta of the contract) for exactly the SELFDESTRUCTs that ended with
//! `InstructionResult::SelfDestruct` — all evaluated here on the recorded data, and by the Lean driver on
//! the word its model predicts from the script.
//!
//! The executor ignores the `<script>` of a request (it is recomputed); the reply is a function of the
//! begin line and the transaction descriptions only.
use crate::*;
use revm::db::{CacheDB, DatabaseRef, EmptyDB};
use revm::handler::register::EvmHandler;
use revm::interpreter::{
    opcode::DynInstruction, CallInputs, CallOutcome, CreateInputs, CreateOutcome, EOFCreateInputs, Gas,
    InstructionResult, Interpreter, InterpreterAction, InterpreterResult,
};
use revm::primitives::{
    eof::{EofBody, TypesSection},
    AccountInfo, Address, Bytecode, Bytes, Log, SpecId, TxKind, B256, KECCAK_EMPTY, U256,
};
use revm::{
    inspector_handle_register, Context, Database, Evm, EvmContext, FrameOrResult, FrameResult, Inspector,
    JournalEntry,
};
use std::sync::Arc;

// ---------------------------------------------------------------- hashing / small helpers
fn fnv(s: &str) -> u64 {
    let mut h: u64 = 0xcbf29ce484222325;
    for b in s.as_bytes() {
        h ^= *b as u64;
        h = h.wrapping_mul(0x100000001b3);
    }
    h
}
fn hd<T: std::fmt::Debug>(x: &T) -> u64 {
    fnv(&format!("{:?}", x))
}
fn au(a: Address) -> U256 {
    U256::from_be_slice(a.as_slice())
}
fn ua(u: U256) -> Address {
    Address::from_word(B256::from(u))
}
fn sa(b: u64) -> Address {
    ua(U256::from(b))
}

// ---------------------------------------------------------------- database with an injectable failure
pub struct FailDb {
    pub inner: CacheDB<EmptyDB>,
    /// fail the n-th access (1-based) of the current transaction
    pub fail_at: u64,
    pub accesses: u64,
}
impl FailDb {
    fn tick(&mut self) -> Result<(), String> {
        self.accesses += 1;
        if self.fail_at != 0 && self.accesses == self.fail_at {
            return Err("injected".into());
        }
        Ok(())
    }
    fn would_fail_next(&self) -> bool {
        self.fail_at != 0 && self.accesses + 1 == self.fail_at
    }
    fn peek_basic(&self, a: Address) -> Option<AccountInfo> {
        self.inner.basic_ref(a).ok().flatten()
    }
}
impl Database for FailDb {
    type Error = String;
    fn basic(&mut self, a: Address) -> Result<Option<AccountInfo>, String> {
        self.tick()?;
        self.inner.basic(a).map_err(|_| "inner".to_string())
    }
    fn code_by_hash(&mut self, h: B256) -> Result<Bytecode, String> {
        self.tick()?;
        self.inner.code_by_hash(h).map_err(|_| "inner".to_string())
    }
    fn storage(&mut self, a: Address, k: U256) -> Result<U256, String> {
        self.tick()?;
        self.inner.storage(a, k).map_err(|_| "inner".to_string())
    }
    fn block_hash(&mut self, n: u64) -> Result<B256, String> {
        self.tick()?;
        self.inner.block_hash(n).map_err(|_| "inner".to_string())
    }
}

// ---------------------------------------------------------------- recorded callbacks and the oracle record
#[derive(Clone, Debug, PartialEq)]
pub enum W {
    Open(u8, u64),
    Close(u8, u64, u64),
    Init,
    Step,
    StepEnd,
    Log(u64),
    Sd(Address, Address, U256),
}

#[derive(Clone, Debug)]
pub struct SdProbe {
    is_static: bool,
    top: Option<U256>,
    gas: u64,
    a: Address,
    abal: U256,
    aflags: (bool, bool, bool),
    astate: String,
    tstate: String,
    prev_len: usize,
    last_note: Option<(Address, Address, U256)>,
    dbfail: bool,
    // observed afterwards
    res: InstructionResult,
    gas_after: u64,
    abal_after: U256,
    tbal_after: Option<U256>,
    /// journal entries the instruction appended to the innermost level, oldest first
    entries: String,
}

#[derive(Clone, Debug)]
pub enum P {
    /// inspector's answer to call/create/eofcreate: kind, inputs hash when it returns, its outcome
    Insp(u8, u64, Option<u64>),
    /// previous handler: kind, inputs hash it received, 'f' frame / 'o' result / 'x' err, outcome digest
    Hdl(u8, u64, char, u64),
    /// execute_frame returned an action that requests a frame (kind, inputs hash) ...
    ActSpawn(u8, u64),
    /// ... or Return
    ActRet,
    /// execute_frame / take_error failed
    Fatal,
    /// *_return handler: kind, Some(outcome digest) / None = Err
    Ret(u8, Option<u64>),
    /// previous insert_*_outcome: kind, failed?
    Ins(u8, bool),
    Last(u8),
    Plain,
    LogOp(usize, usize, u64),
    SdOp(Box<SdProbe>),
    /// inspector's step stopped the interpreter at this opcode
    Halt(u8),
}

#[derive(Clone, Copy, PartialEq, Debug)]
pub enum Mode {
    Obs,
    Sc,
    Halt,
    Mut,
}
impl Mode {
    fn parse(s: &str) -> Option<Mode> {
        Some(match s {
            "obs" => Mode::Obs,
            "sc" => Mode::Sc,
            "halt" => Mode::Halt,
            "mut" => Mode::Mut,
            _ => return None,
        })
    }
}

pub struct Ext {
    pub word: Vec<W>,
    pub script: Vec<P>,
    pub mode: Mode,
    pub rng: Rng,
    /// ground truth taken by the inspector itself: at `step` on SELFDESTRUCT (contract, stack top, contract balance)
    pub sd_pending: Option<(Address, Option<U256>, U256)>,
    /// ... completed at `step_end` when the result is SelfDestruct: (contract, beneficiary = top before, balance before - after)
    pub sd_expected: Vec<(Address, Address, U256)>,
}

fn log_hash(l: &Log) -> u64 {
    hd(l)
}
fn ires(rng: &mut Rng, gas_limit: u64) -> InterpreterResult {
    let result = *rng.pick(&[
        InstructionResult::Stop,
        InstructionResult::Return,
        InstructionResult::Revert,
        InstructionResult::OutOfGas,
        InstructionResult::CallTooDeep,
        InstructionResult::OutOfFunds,
    ]);
    let output = if rng.chance(1, 2) { Bytes::new() } else { Bytes::from(vec![0xab, 0xcd, 0xef]) };
    InterpreterResult { result, output, gas: Gas::new(gas_limit) }
}

impl<DB: Database> Inspector<DB> for Ext {
    fn initialize_interp(&mut self, _i: &mut Interpreter, _c: &mut EvmContext<DB>) {
        self.word.push(W::Init);
    }
    fn step(&mut self, interp: &mut Interpreter, _c: &mut EvmContext<DB>) {
        self.word.push(W::Step);
        self.sd_pending = None;
        if interp.current_opcode() == 0xff && !interp.is_eof {
            let a = interp.contract.target_address;
            let bal = _c.journaled_state.state.get(&a).map(|x| x.info.balance).unwrap_or_default();
            self.sd_pending = Some((a, interp.stack.peek(0).ok(), bal));
        }
        if self.mode == Mode::Halt && self.rng.chance(1, 9) {
            let op = interp.current_opcode();
            interp.instruction_result =
                *self.rng.pick(&[InstructionResult::Stop, InstructionResult::Revert, InstructionResult::OutOfGas]);
            self.script.push(P::Halt(op));
        }
    }
    fn step_end(&mut self, interp: &mut Interpreter, c: &mut EvmContext<DB>) {
        self.word.push(W::StepEnd);
        if let Some((a, top, bal)) = self.sd_pending.take() {
            if interp.instruction_result == InstructionResult::SelfDestruct {
                let after = c.journaled_state.state.get(&a).map(|x| x.info.balance).unwrap_or_default();
                self.sd_expected.push((a, ua(top.unwrap_or_default()), bal.saturating_sub(after)));
            }
        }
    }
    fn log(&mut self, _i: &mut Interpreter, _c: &mut EvmContext<DB>, log: &Log) {
        self.word.push(W::Log(log_hash(log)));
    }
    fn call(&mut self, _c: &mut EvmContext<DB>, inputs: &mut CallInputs) -> Option<CallOutcome> {
        if self.mode == Mode::Mut && inputs.gas_limit > 0 && self.rng.chance(1, 2) {
            inputs.gas_limit -= 1;
        }
        let out = if self.mode == Mode::Sc && self.rng.chance(1, 3) {
            Some(CallOutcome::new(ires(&mut self.rng, inputs.gas_limit), inputs.return_memory_offset.clone()))
        } else {
            None
        };
        let h = hd(inputs);
        self.word.push(W::Open(0, h));
        self.script.push(P::Insp(0, h, out.as_ref().map(hd)));
        out
    }
    fn call_end(&mut self, _c: &mut EvmContext<DB>, inputs: &CallInputs, outcome: CallOutcome) -> CallOutcome {
        self.word.push(W::Close(0, hd(inputs), hd(&outcome)));
        outcome
    }
    fn create(&mut self, _c: &mut EvmContext<DB>, inputs: &mut CreateInputs) -> Option<CreateOutcome> {
        let out = if self.mode == Mode::Sc && self.rng.chance(1, 3) {
            let addr = if self.rng.chance(1, 2) { Some(sa(0xD0 + self.rng.below(4))) } else { None };
            Some(CreateOutcome::new(ires(&mut self.rng, inputs.gas_limit), addr))
        } else {
            None
        };
        let h = hd(inputs);
        self.word.push(W::Open(1, h));
        self.script.push(P::Insp(1, h, out.as_ref().map(hd)));
        out
    }
    fn create_end(&mut self, _c: &mut EvmContext<DB>, inputs: &CreateInputs, outcome: CreateOutcome) -> CreateOutcome {
        self.word.push(W::Close(1, hd(inputs), hd(&outcome)));
        outcome
    }
    fn eofcreate(&mut self, _c: &mut EvmContext<DB>, inputs: &mut EOFCreateInputs) -> Option<CreateOutcome> {
        let out = if self.mode == Mode::Sc && self.rng.chance(1, 3) {
            Some(CreateOutcome::new(ires(&mut self.rng, inputs.gas_limit), None))
        } else {
            None
        };
        let h = hd(inputs);
        self.word.push(W::Open(2, h));
        self.script.push(P::Insp(2, h, out.as_ref().map(hd)));
        out
    }
    fn eofcreate_end(&mut self, _c: &mut EvmContext<DB>, inputs: &EOFCreateInputs, outcome: CreateOutcome) -> CreateOutcome {
        self.word.push(W::Close(2, hd(inputs), hd(&outcome)));
        outcome
    }
    fn selfdestruct(&mut self, contract: Address, target: Address, value: U256) {
        self.word.push(W::Sd(contract, target, value));
    }
}

// ---------------------------------------------------------------- the probes (registered BEFORE the inspector register)
type Ctx = Context<Ext, FailDb>;

fn note_of(e: &JournalEntry) -> Option<(Address, Address, U256)> {
    match e {
        JournalEntry::AccountDestroyed { address, target, had_balance, .. } => Some((*address, *target, *had_balance)),
        JournalEntry::BalanceTransfer { from, to, balance } => Some((*from, *to, *balance)),
        _ => None,
    }
}

fn entry_text(e: &JournalEntry) -> String {
    match e {
        JournalEntry::AccountWarmed { address } => format!("W{}", hx(au(*address))),
        JournalEntry::AccountTouched { address } => format!("T{}", hx(au(*address))),
        JournalEntry::AccountDestroyed { address, target, was_destroyed, had_balance } => {
            format!("D{}.{}.{}.{}", hx(au(*address)), hx(au(*target)), b01(*was_destroyed), hx(*had_balance))
        }
        JournalEntry::BalanceTransfer { from, to, balance } => format!("B{}.{}.{}", hx(au(*from)), hx(au(*to)), hx(*balance)),
        _ => "?".into(),
    }
}

fn probe_instruction(prev: &DynInstruction<'_, Ctx>, interp: &mut Interpreter, host: &mut Ctx) {
    // the instruction pointer was already advanced past the opcode
    let op = unsafe { *interp.instruction_pointer.sub(1) };
    match op {
        0xa0..=0xa4 => {
            let before = host.evm.journaled_state.logs.len();
            prev(interp, host);
            let logs = &host.evm.journaled_state.logs;
            let last = logs.last().map(log_hash).unwrap_or(0);
            let after = logs.len();
            host.external.script.push(P::LogOp(before, after, last));
        }
        0xff if !interp.is_eof => {
            let js = &host.evm.journaled_state;
            let a = interp.contract.target_address;
            let top = interp.stack.peek(0).ok();
            let (abal, aflags, astate) = match js.state.get(&a) {
                Some(acc) => (
                    acc.info.balance,
                    (acc.is_created(), acc.is_selfdestructed(), acc.is_touched()),
                    format!(
                        "{}/{:x}/{}/{}/{}/{}/{}/{}",
                        hx(acc.info.balance),
                        acc.info.nonce,
                        b01(acc.info.code_hash == KECCAK_EMPTY || acc.info.code_hash == B256::ZERO),
                        b01(acc.is_created()),
                        b01(acc.is_selfdestructed()),
                        b01(acc.is_touched()),
                        b01(acc.is_loaded_as_not_existing()),
                        b01(acc.status.contains(revm::primitives::AccountStatus::Cold)),
                    ),
                ),
                None => (U256::ZERO, (false, false, false), "absent".to_string()),
            };
            let tstate = match top {
                None => "-".to_string(),
                Some(w) => {
                    let t = ua(w);
                    if t == a {
                        "=".to_string()
                    } else {
                        match js.state.get(&t) {
                            Some(acc) => format!(
                                "p{}/{:x}/{}/{}/{}/{}",
                                hx(acc.info.balance),
                                acc.info.nonce,
                                b01(acc.info.code_hash == KECCAK_EMPTY || acc.info.code_hash == B256::ZERO),
                                b01(acc.is_touched()),
                                b01(acc.status.contains(revm::primitives::AccountStatus::Cold)),
                                b01(acc.is_loaded_as_not_existing()),
                            ),
                            None => {
                                let pre = js.warm_preloaded_addresses.contains(&t);
                                match host.evm.db.peek_basic(t) {
                                    None => format!("n{}/N", b01(pre)),
                                    Some(i) => format!(
                                        "n{}/I{}/{:x}/{}",
                                        b01(pre),
                                        hx(i.balance),
                                        i.nonce,
                                        b01(i.code_hash == KECCAK_EMPTY || i.code_hash == B256::ZERO)
                                    ),
                                }
                            }
                        }
                    }
                }
            };
            let lvl = js.journal.last();
            let mut p = SdProbe {
                is_static: interp.is_static,
                top,
                gas: interp.gas.remaining(),
                a,
                abal,
                aflags,
                astate,
                tstate,
                prev_len: lvl.map_or(0, |l| l.len()),
                last_note: lvl.and_then(|l| l.last()).and_then(note_of),
                dbfail: host.evm.db.would_fail_next(),
                res: InstructionResult::Continue,
                gas_after: 0,
                abal_after: U256::ZERO,
                tbal_after: None,
                entries: String::new(),
            };
            prev(interp, host);
            let js = &host.evm.journaled_state;
            p.res = interp.instruction_result;
            p.gas_after = interp.gas.remaining();
            p.abal_after = js.state.get(&a).map(|x| x.info.balance).unwrap_or_default();
            p.tbal_after = top.and_then(|w| js.state.get(&ua(w)).map(|x| x.info.balance));
            let new: Vec<String> = js
                .journal
                .last()
                .and_then(|l| l.get(p.prev_len..))
                .map(|l| l.iter().map(entry_text).collect())
                .unwrap_or_default();
            p.entries = if new.is_empty() { "-".into() } else { new.join("+") };
            host.external.script.push(P::SdOp(Box::new(p)));
        }
        _ => {
            prev(interp, host);
            host.external.script.push(P::Plain);
        }
    }
}

fn fr_digest(r: &FrameOrResult) -> (char, u64) {
    match r {
        FrameOrResult::Frame(_) => ('f', 0),
        FrameOrResult::Result(FrameResult::Call(o)) => ('o', hd(o)),
        FrameOrResult::Result(FrameResult::Create(o)) => ('o', hd(o)),
        FrameOrResult::Result(FrameResult::EOFCreate(o)) => ('o', hd(o)),
    }
}

pub fn probe_register<'a>(handler: &mut EvmHandler<'a, Ext, FailDb>) {
    handler.instruction_table.update_all(probe_instruction);
    let ex = &mut handler.execution;

    let prev = ex.execute_frame.clone();
    ex.execute_frame = Arc::new(move |frame, mem, tables, ctx: &mut Ctx| {
        let r = prev(frame, mem, tables, ctx);
        let p = match &r {
            Err(_) => P::Fatal,
            Ok(_) if ctx.evm.error.is_err() => P::Fatal,
            Ok(InterpreterAction::Call { inputs }) => P::ActSpawn(0, hd(&**inputs)),
            Ok(InterpreterAction::Create { inputs }) => P::ActSpawn(1, hd(&**inputs)),
            Ok(InterpreterAction::EOFCreate { inputs }) => P::ActSpawn(2, hd(&**inputs)),
            Ok(InterpreterAction::Return { .. }) => P::ActRet,
            Ok(InterpreterAction::None) => P::Fatal,
        };
        ctx.external.script.push(p);
        r
    });

    let prev = ex.call.clone();
    ex.call = Arc::new(move |ctx: &mut Ctx, inputs| {
        let h = hd(&*inputs);
        let r = prev(ctx, inputs);
        let (c, o) = r.as_ref().map(fr_digest).unwrap_or(('x', 0));
        ctx.external.script.push(P::Hdl(0, h, c, o));
        r
    });
    let prev = ex.create.clone();
    ex.create = Arc::new(move |ctx: &mut Ctx, inputs| {
        let h = hd(&*inputs);
        let r = prev(ctx, inputs);
        let (c, o) = r.as_ref().map(fr_digest).unwrap_or(('x', 0));
        ctx.external.script.push(P::Hdl(1, h, c, o));
        r
    });
    let prev = ex.eofcreate.clone();
    ex.eofcreate = Arc::new(move |ctx: &mut Ctx, inputs| {
        let h = hd(&*inputs);
        let r = prev(ctx, inputs);
        let (c, o) = r.as_ref().map(fr_digest).unwrap_or(('x', 0));
        ctx.external.script.push(P::Hdl(2, h, c, o));
        r
    });

    let prev = ex.call_return.clone();
    ex.call_return = Arc::new(move |ctx: &mut Ctx, frame, result| {
        let r = prev(ctx, frame, result);
        ctx.external.script.push(P::Ret(0, r.as_ref().ok().map(hd)));
        r
    });
    let prev = ex.create_return.clone();
    ex.create_return = Arc::new(move |ctx: &mut Ctx, frame, result| {
        let r = prev(ctx, frame, result);
        ctx.external.script.push(P::Ret(1, r.as_ref().ok().map(hd)));
        r
    });
    let prev = ex.eofcreate_return.clone();
    ex.eofcreate_return = Arc::new(move |ctx: &mut Ctx, frame, result| {
        let r = prev(ctx, frame, result);
        ctx.external.script.push(P::Ret(2, r.as_ref().ok().map(hd)));
        r
    });

    let prev = ex.insert_call_outcome.clone();
    ex.insert_call_outcome = Arc::new(move |ctx: &mut Ctx, frame, mem, outcome| {
        let r = prev(ctx, frame, mem, outcome);
        ctx.external.script.push(P::Ins(0, r.is_err()));
        r
    });
    let prev = ex.insert_create_outcome.clone();
    ex.insert_create_outcome = Arc::new(move |ctx: &mut Ctx, frame, outcome| {
        let r = prev(ctx, frame, outcome);
        ctx.external.script.push(P::Ins(1, r.is_err()));
        r
    });
    let prev = ex.insert_eofcreate_outcome.clone();
    ex.insert_eofcreate_outcome = Arc::new(move |ctx: &mut Ctx, frame, outcome| {
        let r = prev(ctx, frame, outcome);
        ctx.external.script.push(P::Ins(2, r.is_err()));
        r
    });

    let prev = ex.last_frame_return.clone();
    ex.last_frame_return = Arc::new(move |ctx: &mut Ctx, fr: &mut FrameResult| {
        let k = match fr {
            FrameResult::Call(_) => 0,
            FrameResult::Create(_) => 1,
            FrameResult::EOFCreate(_) => 2,
        };
        ctx.external.script.push(P::Last(k));
        prev(ctx, fr)
    });
}

// ---------------------------------------------------------------- script / word text
const KCH: [char; 3] = ['c', 'r', 'e'];

fn res_name(r: InstructionResult) -> &'static str {
    match r {
        InstructionResult::SelfDestruct => "sd",
        InstructionResult::StateChangeDuringStaticCall => "static",
        InstructionResult::StackUnderflow => "uf",
        InstructionResult::OutOfGas => "oog",
        InstructionResult::FatalExternalError => "fatal",
        _ => "other",
    }
}

fn sd_token(p: &SdProbe) -> String {
    format!(
        "D{}:{}:{:x}:{}:{}:{}:{:x}:{}:{}",
        b01(p.is_static),
        p.top.map(hx).unwrap_or("-".into()),
        p.gas,
        hx(au(p.a)),
        p.astate,
        p.tstate,
        p.prev_len,
        p.last_note.map(|(a, t, v)| format!("{}/{}/{}", hx(au(a)), hx(au(t)), hx(v))).unwrap_or("-".into()),
        b01(p.dbfail),
    )
}

fn halt_token(op: u8) -> String {
    format!("H{:x}", op)
}

/// chronological probe record -> script tokens of the request line
pub fn script_text(ps: &[P]) -> String {
    let mut out: Vec<String> = vec![];
    let mut plain = 0usize;
    let flush = |out: &mut Vec<String>, plain: &mut usize| {
        if *plain > 0 {
            out.push(format!("P{:x}", *plain));
            *plain = 0;
        }
    };
    let mut i = 0;
    while i < ps.len() {
        match &ps[i] {
            P::Plain => plain += 1,
            P::LogOp(b, a, h) => {
                flush(&mut out, &mut plain);
                out.push(format!("L{:x}:{:x}:{:x}", b, a, h));
            }
            P::SdOp(p) => {
                flush(&mut out, &mut plain);
                out.push(sd_token(p));
            }
            P::Halt(op) => {
                flush(&mut out, &mut plain);
                out.push(halt_token(*op));
            }
            P::ActSpawn(..) | P::ActRet | P::Last(_) => {
                flush(&mut out, &mut plain);
            }
            P::Fatal => {
                flush(&mut out, &mut plain);
                out.push("F".into());
            }
            P::Insp(k, h, o) => {
                flush(&mut out, &mut plain);
                let mut inputs = *h;
                let mut hs = "-".to_string();
                let mut j = i + 1;
                if o.is_none() {
                    if let Some(P::Hdl(_, h2, c, od)) = ps.get(j) {
                        inputs = *h2;
                        hs = if *c == 'o' { format!("o{:x}", od) } else { c.to_string() };
                        j += 1;
                    }
                }
                let mut ie = false;
                if let Some(P::Ins(_, e)) = ps.get(j) {
                    ie = *e;
                    j += 1;
                }
                out.push(format!(
                    "S{}:{:x}:{}:{}:{}",
                    KCH[*k as usize],
                    inputs,
                    o.map(|x| format!("{:x}", x)).unwrap_or("-".into()),
                    hs,
                    b01(ie)
                ));
                i = j;
                continue;
            }
            P::Hdl(..) | P::Ins(..) => {
                // only reachable when the wrapper under test calls the previous handler without asking the inspector
                out.push("?".into());
            }
            P::Ret(_, o) => {
                flush(&mut out, &mut plain);
                let mut j = i + 1;
                let mut ie = false;
                if let Some(P::Ins(_, e)) = ps.get(j) {
                    ie = *e;
                    j += 1;
                }
                out.push(match o {
                    Some(d) => format!("R{:x}:{}", d, b01(ie)),
                    None => "Rx".into(),
                });
                i = j;
                continue;
            }
        }
        i += 1;
    }
    flush(&mut out, &mut plain);
    if out.is_empty() {
        "-".into()
    } else {
        out.join(" ")
    }
}

pub fn word_text(w: &[W]) -> String {
    let mut out: Vec<String> = vec![];
    let mut i = 0;
    while i < w.len() {
        if w[i] == W::Step && w.get(i + 1) == Some(&W::StepEnd) {
            let mut n = 0;
            while w.get(i) == Some(&W::Step) && w.get(i + 1) == Some(&W::StepEnd) {
                n += 1;
                i += 2;
            }
            out.push(format!("p{:x}", n));
            continue;
        }
        out.push(match &w[i] {
            W::Open(k, h) => format!("{}{:x}", KCH[*k as usize], h),
            W::Close(k, h, o) => format!("{}{:x}:{:x}", KCH[*k as usize].to_ascii_uppercase(), h, o),
            W::Init => "i".into(),
            W::Step => "s".into(),
            W::StepEnd => "e".into(),
            W::Log(h) => format!("l{:x}", h),
            W::Sd(a, t, v) => format!("d{}:{}:{}", hx(au(*a)), hx(au(*t)), hx(*v)),
        });
        i += 1;
    }
    if out.is_empty() {
        "-".into()
    } else {
        out.join(",")
    }
}

// ---------------------------------------------------------------- the property oracles, evaluated on the recorded data
fn balanced(w: &[W]) -> bool {
    let mut st: Vec<(u8, u64)> = vec![];
    for e in w {
        match e {
            W::Open(k, h) => st.push((*k, *h)),
            W::Close(k, h, _) => {
                if st.pop() != Some((*k, *h)) {
                    return false;
                }
            }
            _ => {}
        }
    }
    st.is_empty()
}
fn steps_paired(w: &[W]) -> bool {
    let mut i = 0;
    while i < w.len() {
        match w[i] {
            W::Step => {
                if w.get(i + 1) != Some(&W::StepEnd) {
                    return false;
                }
                i += 2;
            }
            W::StepEnd => return false,
            _ => i += 1,
        }
    }
    true
}
fn logs_ok(w: &[W], ps: &[P]) -> bool {
    let seen: Vec<u64> = w.iter().filter_map(|e| if let W::Log(h) = e { Some(*h) } else { None }).collect();
    let want: Vec<u64> =
        ps.iter().filter_map(|p| if let P::LogOp(b, a, h) = p { if *a == *b + 1 { Some(*h) } else { None } } else { None }).collect();
    seen == want
}
fn sd_ok(w: &[W], ps: &[P], own: &[(Address, Address, U256)]) -> bool {
    let seen: Vec<(Address, Address, U256)> =
        w.iter().filter_map(|e| if let W::Sd(a, t, v) = e { Some((*a, *t, *v)) } else { None }).collect();
    let want: Vec<(Address, Address, U256)> = ps
        .iter()
        .filter_map(|p| match p {
            P::SdOp(p) if p.res == InstructionResult::SelfDestruct => {
                Some((p.a, ua(p.top.unwrap_or_default()), p.abal.saturating_sub(p.abal_after)))
            }
            _ => None,
        })
        .collect();
    // both ground truths (instruction-level probe below the wrappers, and the inspector's own step / step_end
    // observations) are independent of the journal entries the wrapper reads
    seen == want && seen == own
}
fn sd_results(ps: &[P]) -> String {
    let v: Vec<String> = ps
        .iter()
        .filter_map(|p| match p {
            P::SdOp(p) => Some(format!(
                "{}/{:x}/{}/{}/{}",
                res_name(p.res),
                p.gas_after,
                hx(p.abal_after),
                p.tbal_after.map(hx).unwrap_or("-".into()),
                p.entries
            )),
            _ => None,
        })
        .collect();
    if v.is_empty() {
        "-".into()
    } else {
        v.join(";")
    }
}

// ---------------------------------------------------------------- cases
#[derive(Clone, Debug)]
pub struct Acct {
    pub addr: u64,
    pub balance: U256,
    pub nonce: u64,
    pub code: Vec<u8>,
}
#[derive(Clone, Debug)]
pub struct TxD {
    pub to: Option<u64>,
    pub value: U256,
    pub gas: u64,
    pub data: Vec<u8>,
    pub dbfail: u64,
}
#[derive(Clone, Debug)]
pub struct Case {
    pub spec: u8,
    pub mode: String,
    pub iseed: u64,
    pub accts: Vec<Acct>,
    pub txs: Vec<TxD>,
}

pub const CALLER: u64 = 0x99;

fn begin_line(c: &Case) -> String {
    let a: Vec<String> = c
        .accts
        .iter()
        .map(|a| format!("{:x}:{}:{:x}:{}", a.addr, hx(a.balance), a.nonce, hxb(&a.code)))
        .collect();
    format!("begin hooks {} {} {:x} {}", c.spec, c.mode, c.iseed, if a.is_empty() { "-".into() } else { a.join(",") })
}
fn tx_desc(t: &TxD) -> String {
    format!(
        "hk tx {} {} {:x} {} {}",
        t.to.map(|a| format!("{:x}", a)).unwrap_or("create".into()),
        hx(t.value),
        t.gas,
        hxb(&t.data),
        t.dbfail
    )
}

fn parse_hex_bytes(s: &str) -> Option<Vec<u8>> {
    if s == "-" {
        return Some(vec![]);
    }
    if s.len() % 2 != 0 {
        return None;
    }
    (0..s.len() / 2).map(|i| u8::from_str_radix(&s[2 * i..2 * i + 2], 16).ok()).collect()
}

fn parse_begin(line: &str) -> Option<Case> {
    let t: Vec<&str> = line.split(' ').collect();
    if t.len() != 6 || t[0] != "begin" || t[1] != "hooks" {
        return None;
    }
    let spec: u8 = t[2].parse().ok()?;
    SpecId::try_from_u8(spec)?;
    Mode::parse(t[3])?;
    let iseed = u64::from_str_radix(t[4], 16).ok()?;
    let mut accts = vec![];
    if t[5] != "-" {
        for e in t[5].split(',') {
            let f: Vec<&str> = e.split(':').collect();
            if f.len() != 4 {
                return None;
            }
            accts.push(Acct {
                addr: u64::from_str_radix(f[0], 16).ok()?,
                balance: U256::from_str_radix(f[1], 16).ok()?,
                nonce: u64::from_str_radix(f[2], 16).ok()?,
                code: parse_hex_bytes(f[3])?,
            });
        }
    }
    Some(Case { spec, mode: t[3].into(), iseed, accts, txs: vec![] })
}
fn parse_tx(line: &str) -> Option<TxD> {
    let head = line.split(" | ").next()?;
    let t: Vec<&str> = head.split(' ').collect();
    if t.len() != 7 || t[0] != "hk" || t[1] != "tx" {
        return None;
    }
    Some(TxD {
        to: if t[2] == "create" { None } else { Some(u64::from_str_radix(t[2], 16).ok()?) },
        value: U256::from_str_radix(t[3], 16).ok()?,
        gas: u64::from_str_radix(t[4], 16).ok()?,
        data: parse_hex_bytes(t[5])?,
        dbfail: t[6].parse().ok()?,
    })
}

fn build_db(c: &Case) -> Option<FailDb> {
    let mut db = CacheDB::new(EmptyDB::default());
    for a in &c.accts {
        let code = if a.code.is_empty() {
            None
        } else {
            Some(Bytecode::new_raw_checked(Bytes::from(a.code.clone())).ok()?)
        };
        let code_hash = code.as_ref().map(|c| c.hash_slow()).unwrap_or(KECCAK_EMPTY);
        db.insert_account_info(sa(a.addr), AccountInfo { balance: a.balance, nonce: a.nonce, code_hash, code });
    }
    Some(FailDb { inner: db, fail_at: 0, accesses: 0 })
}

pub struct TxOut {
    pub script: String,
    pub reply: String,
    pub accesses: u64,
    pub flags: Vec<&'static str>,
}

/// runs the transactions of a case on ONE Evm; returns per transaction the script and the reply
pub fn run_case(c: &Case) -> Option<Vec<TxOut>> {
    let db = build_db(c)?;
    let mode = Mode::parse(&c.mode)?;
    let spec = SpecId::try_from_u8(c.spec)?;
    let ext = Ext { word: vec![], script: vec![], mode, rng: Rng::new(c.iseed), sd_pending: None, sd_expected: vec![] };
    let mut evm = Evm::builder()
        .with_db(db)
        .with_external_context(ext)
        .with_spec_id(spec)
        .append_handler_register(probe_register)
        .append_handler_register(inspector_handle_register)
        .build();
    let mut outs = vec![];
    for t in &c.txs {
        {
            let tx = evm.tx_mut();
            tx.caller = sa(CALLER);
            tx.transact_to = match t.to {
                Some(a) => TxKind::Call(sa(a)),
                None => TxKind::Create,
            };
            tx.value = t.value;
            tx.gas_limit = t.gas;
            tx.gas_price = U256::ZERO;
            tx.data = Bytes::from(t.data.clone());
            tx.nonce = None;
        }
        evm.context.external.word.clear();
        evm.context.external.script.clear();
        evm.context.external.sd_pending = None;
        evm.context.external.sd_expected.clear();
        evm.context.evm.db.fail_at = t.dbfail;
        evm.context.evm.db.accesses = 0;
        let r = evm.transact();
        let accesses = evm.context.evm.db.accesses;
        let ext = &evm.context.external;
        // "finished" = the frame machine ran to its end (the previous `last_frame_return` handler was reached);
        // an error of the post-execution handlers afterwards (reimburse / reward with a failing database) is
        // outside the callbacks' scope
        let reached_end = ext.script.iter().any(|p| matches!(p, P::Last(_)));
        let status = match &r {
            _ if reached_end => "finished",
            Ok(_) => "finished-without-last-frame-return",
            Err(_) if ext.word.is_empty() && ext.script.is_empty() => "nocall",
            Err(_) => "aborted",
        };
        if reached_end && r.is_err() {
            // counted below
        }
        let st = if mode == Mode::Halt { "-" } else { b01(steps_paired(&ext.word)) };
        let reply = format!(
            "{} w={} bal={} st={} lg={} sdok={} sd={}",
            status,
            word_text(&ext.word),
            b01(balanced(&ext.word)),
            st,
            b01(logs_ok(&ext.word, &ext.script)),
            b01(sd_ok(&ext.word, &ext.script, &ext.sd_expected)),
            sd_results(&ext.script)
        );
        let mut flags: Vec<&'static str> = vec![status];
        let depth = {
            let (mut d, mut m) = (0i64, 0i64);
            for e in &ext.word {
                match e {
                    W::Open(..) => {
                        d += 1;
                        m = m.max(d)
                    }
                    W::Close(..) => d -= 1,
                    _ => {}
                }
            }
            m
        };
        flags.push(match depth {
            0 => "depth:0",
            1 => "depth:1",
            2..=3 => "depth:2-3",
            4..=9 => "depth:4-9",
            10..=999 => "depth:10-999",
            _ => "depth:1000+",
        });
        for p in &ext.script {
            match p {
                P::Insp(k, _, Some(_)) => flags.push(["short-circuit:call", "short-circuit:create", "short-circuit:eofcreate"][*k as usize]),
                P::Hdl(k, _, 'o', _) => flags.push(["immediate-result:call", "immediate-result:create", "immediate-result:eofcreate"][*k as usize]),
                P::Hdl(k, _, 'f', _) => flags.push(["frame:call", "frame:create", "frame:eofcreate"][*k as usize]),
                P::Hdl(_, _, 'x', _) => flags.push("handler-err"),
                P::Fatal => flags.push("fatal-in-frame"),
                P::Halt(_) => flags.push("step-halts"),
                P::LogOp(b, a, _) => flags.push(if a == b { "log:failed" } else { "log:ok" }),
                P::SdOp(p) => {
                    flags.push(match res_name(p.res) {
                        "sd" => "sd:completed",
                        "static" => "sd:static",
                        "uf" => "sd:underflow",
                        "oog" => "sd:oog",
                        "fatal" => "sd:dbfail",
                        _ => "sd:other",
                    });
                    if p.res == InstructionResult::SelfDestruct {
                        flags.push(if p.tstate == "=" { "sd:self" } else { "sd:other-target" });
                        flags.push(if p.aflags.0 { "sd:created-in-tx" } else { "sd:pre-existing" });
                        flags.push(if p.abal.is_zero() { "sd:no-balance" } else { "sd:with-balance" });
                        if p.abal.is_zero() && p.tstate != "=" && !p.aflags.0 && c.spec >= SpecId::CANCUN as u8 {
                            flags.push("sd:cancun+pre-existing+zero-balance+other-target");
                        }
                        flags.push(if c.spec >= SpecId::CANCUN as u8 { "sd:cancun+" } else { "sd:pre-cancun" });
                    }
                    if p.last_note.is_some() {
                        flags.push("sd:after-value-entry");
                    }
                }
                _ => {}
            }
        }
        outs.push(TxOut { script: script_text(&ext.script), reply, accesses, flags });
    }
    Some(outs)
}

// ---------------------------------------------------------------- program assembly
#[derive(Default, Clone)]
struct Asm(Vec<u8>);
impl Asm {
    fn op(&mut self, b: u8) -> &mut Self {
        self.0.push(b);
        self
    }
    fn push(&mut self, v: u64) -> &mut Self {
        let bytes = v.to_be_bytes();
        let skip = bytes.iter().take_while(|b| **b == 0).count().min(7);
        let n = 8 - skip;
        self.0.push(0x5f + n as u8);
        self.0.extend(&bytes[skip..]);
        self
    }
    fn push_bytes(&mut self, b: &[u8]) -> &mut Self {
        assert!(!b.is_empty() && b.len() <= 32);
        self.0.push(0x5f + b.len() as u8);
        self.0.extend(b);
        self
    }
    /// kind: 0xf1 CALL, 0xf2 CALLCODE, 0xf4 DELEGATECALL, 0xfa STATICCALL; gas None = GAS
    fn call(&mut self, kind: u8, addr: u64, value: u64, gas: Option<u64>, args: u64) -> &mut Self {
        self.push(0).push(0).push(args).push(0);
        if kind == 0xf1 || kind == 0xf2 {
            self.push(value);
        }
        self.push(addr);
        match gas {
            Some(g) => self.push(g),
            None => self.op(0x5a),
        };
        self.op(kind).op(0x50)
    }
    /// CREATE (salt None) / CREATE2 with initcode <= 32 bytes
    fn create(&mut self, init: &[u8], value: u64, salt: Option<u64>) -> &mut Self {
        self.create_keep(init, value, salt).op(0x50)
    }
    fn create_keep(&mut self, init: &[u8], value: u64, salt: Option<u64>) -> &mut Self {
        if !init.is_empty() {
            self.push_bytes(init).push(0).op(0x52);
        }
        if let Some(s) = salt {
            self.push(s);
        }
        self.push(init.len() as u64).push(if init.is_empty() { 0 } else { 32 - init.len() as u64 }).push(value);
        self.op(if salt.is_some() { 0xf5 } else { 0xf0 })
    }
    fn log(&mut self, n: u8, size: u64) -> &mut Self {
        for i in 0..n {
            self.push(0x70 + i as u64);
        }
        self.push(size).push(0).op(0xa0 + n)
    }
    fn selfdestruct(&mut self, t: u64) -> &mut Self {
        self.push(t).op(0xff)
    }
}

fn init_variants(rng: &mut Rng, spec: u8, callee: u64, benef: u64) -> Vec<u8> {
    let mut a = Asm::default();
    match rng.below(10) {
        0 => {}
        1 => {
            a.op(0x00);
        }
        2 => {
            a.op(0xfe);
        }
        3 => {
            a.push(0).push(0).op(0xfd);
        }
        4 => {
            // runtime [0x00]
            a.push(0).push(0).op(0x53).push(1).push(0).op(0xf3);
        }
        5 => {
            // runtime starting with 0xEF
            a.push(0xef).push(0).op(0x53).push(1).push(0).op(0xf3);
        }
        6 => {
            a.selfdestruct(benef);
        }
        7 => {
            a.log(0, 0).op(0x00);
        }
        8 => {
            a.call(0xf1, callee, 0, None, 0).op(0x00);
        }
        _ => {
            // runtime = PUSH1 benef SELFDESTRUCT
            a.push_bytes(&[0x60, benef as u8, 0xff]).push(0).op(0x52).push(3).push(29).op(0xf3);
        }
    }
    let _ = spec;
    a.0
}

const W0: u64 = 0xA0;
const NW: u64 = 6;
const EOA: u64 = 0xE0;
const NOBODY: u64 = 0xE1;
const REC: u64 = 0xB0;

fn worker_code(rng: &mut Rng, spec: u8, idx: u64) -> Vec<u8> {
    let mut a = Asm::default();
    let later: Vec<u64> = (idx + 1..NW).map(|j| W0 + j).collect();
    let nfr = rng.range(1, 6);
    let mut calls = 0;
    for _ in 0..nfr {
        match rng.below(16) {
            0 | 1 => {
                a.log(rng.below(5) as u8, rng.below(40));
            }
            2 | 3 | 4 if calls < 2 => {
                calls += 1;
                let mut targets = later.clone();
                targets.extend([EOA, NOBODY, 1 + rng.below(9), 0x0100]);
                let t = if !later.is_empty() && rng.chance(2, 3) { *rng.pick(&later) } else { *rng.pick(&targets) };
                let kind = match rng.below(6) {
                    0 if spec >= 6 => 0xfa,
                    1 if spec >= 2 => 0xf4,
                    2 => 0xf2,
                    _ => 0xf1,
                };
                let value = match rng.below(4) {
                    0 => 0,
                    1 => 1,
                    2 => 5,
                    _ => 100_000, // usually more than the contract has: OutOfFunds
                };
                let gas = match rng.below(4) {
                    0 => Some(0),
                    1 => Some(rng.below(3000)),
                    _ => None,
                };
                a.call(kind, t, value, gas, rng.below(8));
            }
            5 | 6 if calls < 2 => {
                calls += 1;
                let callee = if later.is_empty() { EOA } else { *rng.pick(&later) };
                let benef = *rng.pick(&[EOA, NOBODY, W0 + idx]);
                let init = init_variants(rng, spec, callee, benef);
                let salt = if spec >= 8 && rng.chance(1, 2) { Some(rng.below(2)) } else { None };
                let value = *rng.pick(&[0u64, 0, 1, 100_000]);
                a.create(&init, value, salt);
            }
            7 => {
                a.push(rng.below(3)).op(0x54).op(0x50);
            }
            8 => {
                a.push(rng.below(3)).push(rng.below(3)).op(0x55);
            }
            9 => {
                a.push(*rng.pick(&[EOA, NOBODY, W0, W0 + 3, 0xF7])).op(0x31).op(0x50);
            }
            10 => {
                a.push(*rng.pick(&[EOA, NOBODY, W0 + 1, 0xF8])).op(0x3b).op(0x50);
            }
            11 if spec >= 8 => {
                // same salt twice: the second one collides
                let init = [0x60, 0x00, 0x60, 0x00, 0x53, 0x60, 0x01, 0x60, 0x00, 0xf3];
                a.create(&init, 0, Some(7)).create(&init, 0, Some(7));
            }
            _ => {
                a.push(1).op(0x50);
            }
        }
    }
    // terminator
    match rng.below(14) {
        0 => {
            a.op(0x00);
        }
        1 => {
            a.push(0).push(0).op(0xfd);
        }
        2 => {
            a.push(0).push(0).op(0xf3);
        }
        3 => {
            a.op(0xfe);
        }
        4 | 5 => {
            let t = *rng.pick(&[EOA, NOBODY, W0 + idx, W0, 0xF9, 4]);
            a.selfdestruct(t);
        }
        6 => {
            a.op(0xff); // empty stack
        }
        7 => {
            a.op(0xa1); // LOG1 on an empty stack
        }
        8 => {
            a.push(0).push(0).op(0xa2); // LOG2 with two items
        }
        _ => {}
    }
    a.0
}

fn rec_code() -> Vec<u8> {
    let mut a = Asm::default();
    a.call(0xf1, REC, 0, None, 0).op(0x00);
    a.0
}

fn big() -> U256 {
    U256::from(10u64).pow(U256::from(30))
}

fn random_case(rng: &mut Rng, specs: &[u8], mode: &str) -> Case {
    let spec = *rng.pick(specs);
    let mut accts = vec![Acct { addr: CALLER, balance: big(), nonce: 0, code: vec![] }];
    for i in 0..NW {
        accts.push(Acct {
            addr: W0 + i,
            balance: U256::from(*rng.pick(&[0u64, 7, 1000])),
            nonce: 1,
            code: worker_code(rng, spec, i),
        });
    }
    accts.push(Acct { addr: EOA, balance: U256::from(3), nonce: 0, code: vec![] });
    let ntx = rng.range(1, 3);
    let txs = (0..ntx)
        .map(|_| {
            let create = rng.chance(1, 6);
            TxD {
                to: if create { None } else { Some(W0 + rng.below(3)) },
                value: U256::from(*rng.pick(&[0u64, 0, 9])),
                gas: *rng.pick(&[1_000_000u64, 1_000_000, 200_000, 60_000]),
                data: if create { init_variants(rng, spec, W0 + 1, EOA) } else { let k = rng.below(5) as usize; rng.bytes(k) },
                dbfail: 0,
            }
        })
        .collect();
    Case { spec, mode: mode.into(), iseed: rng.next() & 0xffff_ffff, accts, txs }
}

/// SELFDESTRUCT grid: fork x target x balance x created-in-tx x failure x preceded by a value-bearing call
fn sd_grid(rng: &mut Rng, full: bool) -> Vec<Case> {
    let specs: &[u8] = if full { &[0, 2, 4, 5, 6, 9, 11, 12, 16, 17, 18] } else { &[0, 4, 5, 11, 12, 17, 18] };
    let _ = &rng;
    let mut v = vec![];
    let victim = 0xA1u64;
    let driver = 0xA0u64;
    // COMPLETE enumeration in both tiers (no sampling): target = the contract itself / an existing account / a new one
    let targets: &[u64] = if full { &[victim, EOA, NOBODY, 0xF5, 3] } else { &[victim, EOA, NOBODY] };
    for &spec in specs {
        for &target in targets {
            for bal in [0u64, 1, 1_000_000_000_000_000_000] {
                for created in [false, true] {
                    for fail in ["none", "static", "underflow", "oog"] {
                        for value_call in [false, true] {
                            if fail == "static" && spec < 6 {
                                continue;
                            }
                            // victim runtime code
                            let mut vc = Asm::default();
                            if fail == "underflow" {
                                vc.op(0xff);
                            } else if created && target == victim {
                                // the created contract names itself
                                vc.op(0x30).op(0xff);
                            } else {
                                vc.selfdestruct(target);
                            }
                            let callv = if value_call { 5 } else { 0 };
                            let gas = if fail == "oog" { Some(if value_call { 0 } else { 100 }) } else { None };
                            let kind = if fail == "static" { 0xfa } else { 0xf1 };
                            let mut d = Asm::default();
                            let mut accts = vec![Acct { addr: CALLER, balance: big(), nonce: 0, code: vec![] }];
                            if created {
                                // CREATE a contract whose runtime is the victim code, then call it
                                let rt = vc.0.clone();
                                let mut init = Asm::default();
                                init.push_bytes(&rt).push(0).op(0x52).push(rt.len() as u64).push(32 - rt.len() as u64).op(0xf3);
                                d.create_keep(&init.0, bal, None);
                                // stack: addr ; call it: ret 0 0 args 0 0 [value] addr gas
                                d.push(0).push(0).push(0).push(0);
                                if kind == 0xf1 {
                                    d.push(callv).op(0x85);
                                } else {
                                    d.op(0x84);
                                }
                                match gas {
                                    Some(g) => d.push(g),
                                    None => d.op(0x5a),
                                };
                                d.op(kind).op(0x50).op(0x50).op(0x00);
                            } else {
                                accts.push(Acct { addr: victim, balance: U256::from(bal), nonce: 1, code: vc.0.clone() });
                                d.call(kind, victim, callv, gas, 0).op(0x00);
                            }
                            accts.push(Acct { addr: driver, balance: U256::from(4_000_000_000_000_000_050u64), nonce: 1, code: d.0 });
                            accts.push(Acct { addr: EOA, balance: U256::from(3), nonce: 0, code: vec![] });
                            let target_is_self_created = created && target == victim;
                            let _ = target_is_self_created;
                            v.push(Case {
                                spec,
                                mode: "obs".into(),
                                iseed: 1,
                                accts,
                                txs: vec![TxD { to: Some(driver), value: U256::ZERO, gas: 1_000_000, data: vec![], dbfail: 0 }],
                            });
                        }
                    }
                }
            }
        }
    }
    // created-in-transaction contract that names ITSELF (after Cancun: destroyed, balance burnt): initcode self-destructs to ADDRESS
    for &spec in specs {
        for bal in [0u64, 1, 9] {
            let mut init = Asm::default();
            init.op(0x30).op(0xff);
            let mut d = Asm::default();
            d.create(&init.0, bal, None).op(0x00);
            v.push(Case {
                spec,
                mode: "obs".into(),
                iseed: 1,
                accts: vec![
                    Acct { addr: CALLER, balance: big(), nonce: 0, code: vec![] },
                    Acct { addr: driver, balance: U256::from(50), nonce: 1, code: d.0 },
                ],
                txs: vec![TxD { to: Some(driver), value: U256::ZERO, gas: 1_000_000, data: vec![], dbfail: 0 }],
            });
        }
    }
    v
}

fn eof_container(code: Vec<u8>, max_stack: u16, subs: Vec<Vec<u8>>) -> Vec<u8> {
    let body = EofBody {
        types_section: vec![TypesSection::new(0, 0x80, max_stack)],
        code_section: vec![Bytes::from(code)],
        container_section: subs.into_iter().map(Bytes::from).collect(),
        data_section: Bytes::new(),
        is_data_filled: true,
    };
    body.into_eof().raw.to_vec()
}

fn eof_cases(rng: &mut Rng, reps: usize) -> Vec<Case> {
    let runtime = eof_container(vec![0x00], 0, vec![]);
    // PUSH0 PUSH0 RETURNCONTRACT 0
    let initc = eof_container(vec![0x5f, 0x5f, 0xee, 0x00], 2, vec![runtime.clone()]);
    // reverting init container
    let initrev = eof_container(vec![0x5f, 0x5f, 0xfd], 2, vec![runtime.clone()]);
    // factory: EOFCREATE twice with the same salt (second collides), then an init container that reverts
    let factory = eof_container(
        vec![0x5f, 0x5f, 0x5f, 0x5f, 0xec, 0x00, 0x50, 0x5f, 0x5f, 0x5f, 0x5f, 0xec, 0x00, 0x50, 0x5f, 0x5f, 0x5f, 0x5f, 0xec, 0x01, 0x50, 0x00],
        4,
        vec![initc.clone(), initrev.clone()],
    );
    let mut v = vec![];
    let mut modes = vec!["obs", "sc", "halt"];
    for _ in 1..reps {
        modes.extend(["sc", "sc", "halt"]);
    }
    for mode in modes {
        let mut legacy = Asm::default();
        legacy.call(0xf1, 0xC1, 0, None, 0).log(1, 3).op(0x00);
        let accts = vec![
            Acct { addr: CALLER, balance: big(), nonce: 0, code: vec![] },
            Acct { addr: 0xC1, balance: U256::from(10), nonce: 1, code: factory.clone() },
            Acct { addr: 0xC2, balance: U256::from(10), nonce: 1, code: legacy.0 },
        ];
        let mut bad = vec![0xef, 0x00, 0x01, 0x02];
        bad.extend(rng.bytes(6));
        let txs = vec![
            TxD { to: None, value: U256::ZERO, gas: 1_000_000, data: initc.clone(), dbfail: 0 },
            TxD { to: None, value: U256::ZERO, gas: 1_000_000, data: bad, dbfail: 0 },
            TxD { to: Some(0xC1), value: U256::ZERO, gas: 1_000_000, data: vec![], dbfail: 0 },
            TxD { to: Some(0xC2), value: U256::ZERO, gas: 1_000_000, data: vec![], dbfail: 0 },
            TxD { to: None, value: U256::ZERO, gas: 1_000_000, data: initrev.clone(), dbfail: 0 },
        ];
        v.push(Case { spec: SpecId::OSAKA as u8, mode: mode.into(), iseed: rng.next() & 0xffff, accts, txs });
    }
    v
}

fn depth_case(spec: u8, mode: &str, iseed: u64) -> Case {
    Case {
        spec,
        mode: mode.into(),
        iseed,
        accts: vec![
            Acct { addr: CALLER, balance: big(), nonce: 0, code: vec![] },
            Acct { addr: REC, balance: U256::ZERO, nonce: 1, code: rec_code() },
        ],
        txs: vec![TxD { to: Some(REC), value: U256::ZERO, gas: 10_000_000_000_000, data: vec![], dbfail: 0 }],
    }
}

/// for a case, add database failures: every transaction is run clean once to count its database accesses, then
/// variants fail at a chosen access and are followed by a clean transaction on the same Evm
fn with_db_failures(rng: &mut Rng, c: &Case, nvar: usize) -> Vec<Case> {
    let Some(outs) = run_case(c) else { return vec![] };
    let mut v = vec![];
    for _ in 0..nvar {
        let i = rng.below(c.txs.len() as u64) as usize;
        let n = outs[i].accesses;
        if n == 0 {
            continue;
        }
        let mut txs = vec![];
        let mut bad = c.txs[i].clone();
        bad.dbfail = 1 + rng.below(n);
        txs.push(bad);
        for t in &c.txs {
            txs.push(t.clone());
        }
        if rng.chance(1, 2) {
            let mut bad2 = c.txs[rng.below(c.txs.len() as u64) as usize].clone();
            bad2.dbfail = 1 + rng.below(n.max(1));
            txs.insert(1, bad2);
        }
        v.push(Case { txs, ..c.clone() });
    }
    v
}

pub fn gen(seed: u64, n: usize, comp: &str) -> Vec<Case> {
    let mut rng = Rng::new(seed ^ 0xC29);
    let all: Vec<u8> = vec![0, 2, 4, 5, 6, 8, 9, 11, 12, 15, 16, 17, 18, 19];
    let mut v = vec![];
    let full = n >= 2000;
    if comp == "C30" {
        let grid = sd_grid(&mut rng, full);
        // a failing database under some of them (target load inside SELFDESTRUCT, frame creation, ...)
        let nf = if full { 150 } else { 15 };
        for _ in 0..nf {
            let c = grid[rng.below(grid.len() as u64) as usize].clone();
            v.extend(with_db_failures(&mut rng, &c, 1));
        }
        v.extend(grid);
        // random programs, selfdestruct-heavy by construction of the terminators
        for _ in 0..n / 4 {
            let mode = *rng.pick(&["obs", "obs", "sc", "mut"]);
            v.push(random_case(&mut rng, &all, mode));
        }
        return v;
    }
    let eofs = eof_cases(&mut rng, if full { 25 } else { 3 });
    // database failures inside EOF creation as well
    let with_fail = with_db_failures(&mut rng, &eofs[0], if full { 12 } else { 2 });
    v.extend(eofs);
    v.extend(with_fail);
    v.push(depth_case(*rng.pick(&[2u8, 12, 17]), "obs", 1));
    if full {
        v.push(depth_case(0, "obs", 1));
        v.push(depth_case(18, "sc", rng.next() & 0xffff));
        v.push(depth_case(17, "halt", rng.next() & 0xffff));
    }
    for k in 0..n {
        let mode = match k % 8 {
            0..=2 => "obs",
            3 | 4 => "sc",
            5 => "halt",
            6 => "mut",
            _ => "obs",
        };
        let c = random_case(&mut rng, &all, mode);
        if k % 8 == 7 {
            let vs = with_db_failures(&mut rng, &c, 2);
            v.extend(vs);
        } else {
            v.push(c);
        }
    }
    v
}

pub fn run(seed: u64, n: usize, replay: Option<Vec<String>>, out: &mut Out, comp: &str) {
    match replay {
        None => {
            for c in gen(seed, n, comp) {
                emit_case(&c, None, out);
            }
            // malformed stream
            let bad: Vec<String> = [
                "begin hooks 99 obs 1 -",
                "hk tx a0 0 f4240 - 0 | -",
                "begin hooks 12 zzz 1 -",
                "begin hooks 12 obs 1",
                "begin hooks 12 obs 1 99:zz:0:-",
                "begin hooks 12 obs 1 -",
                "hk frob",
                "hk tx a0 0 f4240 - 0 | -",
                "begin hooks 12 obs 1 -",
                "hk tx a0 0 1 - 0 | -",
                "hk tx a0 0 f4240 0 | -",
            ]
            .iter()
            .map(|s| s.to_string())
            .collect();
            out.count("malformed-lines");
            run(seed, n, Some(bad), out, comp);
        }
        Some(lines) => {
            // group into cases
            let mut cur: Option<(Case, Vec<String>)> = None;
            let flush = |cur: &mut Option<(Case, Vec<String>)>, out: &mut Out| {
                if let Some((c, reqs)) = cur.take() {
                    emit_case(&c, Some(reqs), out);
                }
            };
            for l in lines {
                if l.starts_with("begin ") {
                    flush(&mut cur, out);
                    match parse_begin(&l) {
                        Some(c) => cur = Some((c, vec![l])),
                        None => out.push(l, "bad-op".into()),
                    }
                } else {
                    match (cur.as_mut(), parse_tx(&l)) {
                        (Some((c, reqs)), Some(t)) => {
                            c.txs.push(t);
                            reqs.push(l);
                        }
                        _ => {
                            flush(&mut cur, out);
                            out.push(l, "bad-op".into());
                        }
                    }
                }
            }
            flush(&mut cur, out);
        }
    }
}

fn emit_case(c: &Case, reqs: Option<Vec<String>>, out: &mut Out) {
    let cc = c.clone();
    let res = std::panic::catch_unwind(move || run_case(&cc));
    let begin = reqs.as_ref().map(|r| r[0].clone()).unwrap_or_else(|| begin_line(c));
    out.count(&format!("mode:{}", c.mode));
    out.count(&format!("spec:{}", c.spec));
    match res {
        Ok(Some(outs)) => {
            out.push(begin, "ok".into());
            for (i, o) in outs.iter().enumerate() {
                let req = match &reqs {
                    Some(r) => r[i + 1].clone(),
                    None => format!("{} | {}", tx_desc(&c.txs[i]), o.script),
                };
                for f in &o.flags {
                    out.count(f);
                }
                if c.txs[i].dbfail != 0 {
                    out.count("tx:with-db-failure");
                }
                if i > 0 && outs[..i].iter().any(|p| p.reply.starts_with("aborted")) && o.reply.starts_with("finished") {
                    out.count("tx:finished-after-aborted-on-same-evm");
                }
                out.push(req, o.reply.clone());
            }
        }
        Ok(None) => {
            out.push(begin, "bad-op".into());
            for i in 0..c.txs.len() {
                let req = reqs.as_ref().map(|r| r[i + 1].clone()).unwrap_or_else(|| tx_desc(&c.txs[i]));
                out.push(req, "dead".into());
            }
        }
        Err(_) => {
            out.push(begin, "ok".into());
            for i in 0..c.txs.len() {
                let req = reqs.as_ref().map(|r| r[i + 1].clone()).unwrap_or_else(|| tx_desc(&c.txs[i]));
                out.push(req, "panic".into());
            }
        }
    }
}
