//! C01 boundary stream: hand-assembled, seed-independent cases around the decision points of the frame machine and the
//! transaction handler (depth limit, EIP-170 / EIP-3860 / EIP-3541 limits, code-deposit gas, refund caps, EIP-7623
//! floor, stipend, 63/64 rule, SELFDESTRUCT per fork, blob fee, reward, EIP-7702 refund and delegation, access lists,
//! collisions, static-context violations, return data, every precompile with a valid input, SSTORE gas matrix, the
//! RIPEMD-160 touch precedent, EXP gas, call-scheme contexts, nonces, transient storage, BLOCKHASH window). Each case
//! also gets the two gas limits "exactly what the first run spent" and "one less".
use crate::c01::*;
use crate::c01gen::{revm_canon, sender, Asm};
use crate::*;
use revm::primitives::{Address, SpecId, B256, U256};

fn a_n(n: u64) -> Address {
    ua(U256::from(n))
}
fn ether(n: u64) -> U256 {
    U256::from(n) * U256::from(1_000_000_000_000_000_000u128)
}
const A: u64 = 0x1000;
const B: u64 = 0x1001;
const C: u64 = 0x1002;

fn base(spec: SpecId) -> Case {
    let en = |s: SpecId| SpecId::enabled(spec, s);
    Case {
        spec,
        hs: true,
        chain_id: 1,
        number: U256::from(1000u64),
        coinbase: a_n(0xc01bba5e),
        timestamp: U256::from(1_700_000_000u64),
        gas_limit: U256::from(30_000_000u64),
        basefee: U256::from(if en(SpecId::LONDON) { 10u64 } else { 0 }),
        difficulty: U256::from(0x20000u64),
        prevrandao: if en(SpecId::MERGE) { Some(B256::from(U256::from(0xbeefu64))) } else { None },
        blob_gasprice: if en(SpecId::CANCUN) { Some(3) } else { None },
        limit_code_size: None,
        accts: vec![Acct { addr: sender(), balance: ether(1000), nonce: 7, ..Default::default() }],
        pcs: vec![],
        txs: vec![],
    }
}
fn with_contract(c: &mut Case, addr: u64, code: Vec<u8>, balance: u64, storage: Vec<(u64, u64)>) {
    let en = SpecId::enabled(c.spec, SpecId::SPURIOUS_DRAGON);
    c.accts.push(Acct {
        addr: a_n(addr),
        balance: U256::from(balance),
        nonce: if en { 1 } else { 0 },
        code,
        storage: storage.into_iter().map(|(k, v)| (U256::from(k), U256::from(v))).collect(),
    });
}
fn call_tx(c: &Case, to: Option<u64>, gas: u64, value: u64, data: Vec<u8>) -> TxSpec {
    let london = SpecId::enabled(c.spec, SpecId::LONDON);
    TxSpec {
        caller: sender(),
        gas_limit: gas,
        gas_price: U256::from(if london { 15u64 } else { 2 }),
        to: to.map(a_n),
        value: U256::from(value),
        data,
        nonce: Some(7),
        chain_id: Some(1),
        ..Default::default()
    }
}

/// `CALL`-family snippet: pushes args and performs `op` to `to` with gas word `gas` (None = GAS), value (for CALL/CALLCODE)
fn call(a: &mut Asm, op: u8, to: u64, gas: Option<U256>, value: u64, in_len: u64, out_len: u64) {
    a.push_u(out_len).push_u(0).push_u(in_len).push_u(0);
    if op == 0xf1 || op == 0xf2 {
        a.push_u(value);
    }
    a.push_u(to);
    match gas {
        Some(g) => {
            a.push(g);
        }
        None => {
            a.op(0x5a);
        }
    }
    a.op(op);
}
fn sstore_top(a: &mut Asm, slot: u64) {
    a.push_u(slot).op(0x55);
}
fn code(f: impl FnOnce(&mut Asm)) -> Vec<u8> {
    let mut a = Asm::new();
    f(&mut a);
    a.code
}
/// initcode returning `len` zero bytes
fn init_return_zeros(len: u64) -> Vec<u8> {
    code(|a| {
        a.push_u(len).push_u(0).op(0xf3);
    })
}
/// initcode returning the given runtime (≤ 32 bytes)
fn init_return(rt: &[u8]) -> Vec<u8> {
    code(|a| {
        let l = rt.len() as u64;
        a.push(U256::from_be_slice(rt)).push_u(0).op(0x52).push_u(l).push_u(32 - l).op(0xf3);
    })
}
/// store `initcode` (≤ 32 bytes) at memory 0 and CREATE / CREATE2 it with `value`; leaves the address on the stack
fn create(a: &mut Asm, init: &[u8], value: u64, salt: Option<u64>) {
    let mut w = [0u8; 32];
    w[..init.len()].copy_from_slice(init);
    a.push(U256::from_be_bytes(w)).push_u(0).op(0x52);
    if let Some(s) = salt {
        a.push_u(s);
    }
    a.push_u(init.len() as u64).push_u(0).push_u(value).op(if salt.is_some() { 0xf5 } else { 0xf0 });
}

const ALL: [SpecId; 13] = [
    SpecId::FRONTIER,
    SpecId::HOMESTEAD,
    SpecId::TANGERINE,
    SpecId::SPURIOUS_DRAGON,
    SpecId::BYZANTIUM,
    SpecId::PETERSBURG,
    SpecId::ISTANBUL,
    SpecId::BERLIN,
    SpecId::LONDON,
    SpecId::MERGE,
    SpecId::SHANGHAI,
    SpecId::CANCUN,
    SpecId::PRAGUE,
];

/// `big`: include the cases whose initcode has the real EIP-3860 size (49152 bytes; the list-based Lean model needs
/// tens of seconds for each) — thorough tier only; the quick tier checks the same comparisons with a small
/// `limit_contract_code_size`
pub fn boundary(out: &mut Out, big: bool) -> Vec<Case> {
    let mut v: Vec<Case> = vec![];
    let mut add = |out: &mut Out, tag: &str, c: Case| {
        out.count(&format!("boundary-{}", tag));
        v.push(c);
    };

    // depth limit: unbounded self-recursion with all gas (pre-Tangerine reaches 1025 frames)
    for spec in [SpecId::FRONTIER, SpecId::HOMESTEAD, SpecId::TANGERINE, SpecId::CANCUN] {
        let mut c = base(spec);
        with_contract(&mut c, A, code(|a| {
            // CALL(self) with GAS - 100: before EIP-150 the requested gas must be affordable after the call cost
            a.push_u(0).push_u(0).push_u(0).push_u(0).push_u(0).push_u(A).push_u(100).op(0x5a).op(0x03).op(0xf1);
            a.op(0x50).op(0x00);
        }), 0, vec![]);
        for gas in [200_000u64, 1_000_000] {
            c.txs.push(call_tx(&c, Some(A), gas, 0, vec![]));
        }
        add(out, "depth", c);
    }
    // EIP-170 code size, EIP-3541, deposit gas: create transactions
    for spec in [SpecId::FRONTIER, SpecId::HOMESTEAD, SpecId::SPURIOUS_DRAGON, SpecId::BERLIN, SpecId::LONDON, SpecId::CANCUN] {
        for len in [0x5fffu64, 0x6000, 0x6001] {
            let mut c = base(spec);
            c.txs.push(call_tx(&c, None, 6_000_000, 0, init_return_zeros(len)));
            add(out, "codesize-tx", c);
        }
        let mut c = base(spec);
        c.txs.push(call_tx(&c, None, 200_000, 3, code(|a| {
            a.push_u(0xef).push_u(0).op(0x53).push_u(1).push_u(0).op(0xf3);
        })));
        c.txs.push(call_tx(&c, None, 200_000, 0, init_return(&[0xfe, 0xef])));
        add(out, "ef-prefix", c);
        // code deposit: exactly enough / one short is derived below from the gas spent
        let mut c = base(spec);
        c.txs.push(call_tx(&c, None, 200_000, 0, init_return(&[0x60, 0x01, 0x60, 0x00, 0x55, 0x00])));
        add(out, "deposit", c);
    }
    // CREATE opcode with oversize code / initcode limits
    for spec in [SpecId::LONDON, SpecId::SHANGHAI, SpecId::PRAGUE] {
        // the same limits scaled down by `limit_contract_code_size = 0x20` (max code 32, max initcode 64 bytes)
        for len in [0x40u64, 0x41] {
            let mut c = base(spec);
            c.limit_code_size = Some(0x20);
            with_contract(&mut c, A, code(|a| {
                a.push_u(len).push_u(0).push_u(0).op(0xf0);
                sstore_top(a, 0);
                a.push_u(7).push_u(len).push_u(0).push_u(0).op(0xf5);
                sstore_top(a, 1);
                // code size limit: initcode returning 0x20 / 0x21 bytes
                create(a, &init_return_zeros(0x20), 0, None);
                sstore_top(a, 2);
                create(a, &init_return_zeros(0x21), 0, None);
                sstore_top(a, 3);
            }), 0, vec![]);
            c.txs.push(call_tx(&c, Some(A), 3_000_000, 0, vec![]));
            c.txs.push(call_tx(&c, None, 3_000_000, 0, vec![0u8; len as usize]));
            c.txs.push(call_tx(&c, None, 3_000_000, 0, init_return_zeros(0x20)));
            c.txs.push(call_tx(&c, None, 3_000_000, 0, init_return_zeros(0x21)));
            add(out, "limits-scaled", c);
        }
    }
    // refund caps: clear N pre-set slots
    for spec in [SpecId::FRONTIER, SpecId::PETERSBURG, SpecId::ISTANBUL, SpecId::BERLIN, SpecId::LONDON, SpecId::PRAGUE] {
        for n in [1u64, 3, 12] {
            let mut c = base(spec);
            with_contract(&mut c, A, code(|a| {
                for i in 0..n {
                    a.push_u(0).push_u(i).op(0x55);
                }
                a.op(0x00);
            }), 0, (0..n).map(|i| (i, 5)).collect());
            c.txs.push(call_tx(&c, Some(A), 300_000, 0, vec![]));
            add(out, "refund-cap", c);
        }
    }
    // SSTORE matrix: original {0, 1} x sequences of values, with the EIP-2200 sentry
    for spec in [SpecId::FRONTIER, SpecId::PETERSBURG, SpecId::ISTANBUL, SpecId::BERLIN, SpecId::LONDON, SpecId::CANCUN] {
        for orig in [0u64, 1] {
            for seq in [[0u64, 1, 0], [1, 0, 1], [2, 2, 0], [2, 1, 2], [1, 2, 0]] {
                let mut c = base(spec);
                with_contract(&mut c, A, code(|a| {
                    for val in seq {
                        a.push_u(val).push_u(0).op(0x55);
                    }
                    a.push_u(0).op(0x54).push_u(1).op(0x55);
                }), 0, if orig == 0 { vec![] } else { vec![(0, orig)] });
                c.txs.push(call_tx(&c, Some(A), 200_000, 0, vec![]));
                add(out, "sstore-matrix", c);
            }
        }
        // sentry: SSTORE with little gas left through a gas-limited call
        let mut c = base(spec);
        with_contract(&mut c, A, code(|a| {
            call(a, 0xf1, B, Some(U256::from(2300u64)), 0, 0, 0);
            sstore_top(a, 0);
            call(a, 0xf1, B, Some(U256::from(2310u64)), 0, 0, 0);
            sstore_top(a, 1);
            call(a, 0xf1, B, Some(U256::from(30000u64)), 0, 0, 0);
            sstore_top(a, 2);
        }), 0, vec![]);
        with_contract(&mut c, B, code(|a| {
            a.push_u(1).push_u(0).op(0x55);
        }), 0, vec![(0, 2)]);
        c.txs.push(call_tx(&c, Some(A), 300_000, 0, vec![]));
        add(out, "sstore-sentry", c);
    }
    // EIP-7623 floor and intrinsic boundaries
    for spec in [SpecId::CANCUN, SpecId::PRAGUE] {
        for (nz, z) in [(1000usize, 0usize), (0, 1000), (100, 5000), (1, 0)] {
            let mut data = vec![0x11u8; nz];
            data.extend(vec![0u8; z]);
            let ig = revm::interpreter::gas::calculate_initial_tx_gas(revm_canon(spec), &data, false, &[], 0);
            let floor = ig.initial_gas.max(ig.floor_gas);
            let mut c = base(spec);
            with_contract(&mut c, A, code(|a| {
                a.push_u(1).push_u(0).op(0x55);
            }), 0, vec![]);
            for (to, g) in [(0xeeeeu64, floor), (0xeeee, floor - 1), (0xeeee, floor + 1), (A, floor), (A, floor + 30_000), (A, ig.initial_gas + 22_200)] {
                c.txs.push(call_tx(&c, Some(to), g, 0, data.clone()));
            }
            add(out, "floor", c);
        }
    }
    // stipend and value calls
    for spec in ALL {
        let mut c = base(spec);
        with_contract(&mut c, A, code(|a| {
            call(a, 0xf1, B, Some(U256::ZERO), 1, 0, 0);
            sstore_top(a, 0);
            call(a, 0xf1, C, Some(U256::ZERO), 1, 0, 0);
            sstore_top(a, 1);
            call(a, 0xf1, 0xdead, Some(U256::ZERO), 1, 0, 0);
            sstore_top(a, 2);
            call(a, 0xf1, 0xdead, Some(U256::ZERO), 0, 0, 0);
            sstore_top(a, 3);
            call(a, 0xf2, B, Some(U256::ZERO), 1, 0, 0);
            sstore_top(a, 4);
            call(a, 0xf1, B, Some(U256::ZERO), 1000, 0, 0);
            sstore_top(a, 5);
        }), 5, vec![]);
        with_contract(&mut c, B, code(|a| {
            a.push_u(0).push_u(0).op(0xa0).op(0x5a).push_u(0).op(0x52).push_u(32).push_u(0).op(0xf3);
        }), 0, vec![]);
        with_contract(&mut c, C, code(|a| {
            a.push_u(1).push_u(0).op(0x55);
        }), 0, vec![]);
        c.txs.push(call_tx(&c, Some(A), 400_000, 0, vec![]));
        add(out, "stipend", c);
        // 63/64 rule: ask for everything, the callee reports its gas
        let mut c = base(spec);
        with_contract(&mut c, A, code(|a| {
            call(a, 0xf1, B, Some(U256::MAX), 0, 0, 32);
            sstore_top(a, 0);
            a.push_u(0).op(0x51);
            sstore_top(a, 1);
            call(a, 0xf4, B, Some(U256::from(50_000u64)), 0, 0, 32);
            sstore_top(a, 2);
            a.push_u(0).op(0x51);
            sstore_top(a, 3);
        }), 0, vec![]);
        with_contract(&mut c, B, code(|a| {
            a.op(0x5a).push_u(0).op(0x52).push_u(32).push_u(0).op(0xf3);
        }), 0, vec![]);
        c.txs.push(call_tx(&c, Some(A), 300_000, 0, vec![]));
        add(out, "gas-forwarding", c);
        // call-scheme contexts: ADDRESS / CALLER / CALLVALUE as seen by the callee
        let mut c = base(spec);
        with_contract(&mut c, A, code(|a| {
            for (i, op) in [0xf1u8, 0xf2, 0xf4, 0xfa].iter().enumerate() {
                call(a, *op, B, Some(U256::from(100_000u64)), 2, 0, 96);
                sstore_top(a, 10 + i as u64);
                for w in 0..3u64 {
                    a.push_u(w * 32).op(0x51);
                    sstore_top(a, 20 + 4 * i as u64 + w);
                }
            }
        }), 100, vec![]);
        with_contract(&mut c, B, code(|a| {
            a.op(0x30).push_u(0).op(0x52).op(0x33).push_u(32).op(0x52).op(0x34).push_u(64).op(0x52);
            a.push_u(96).push_u(0).op(0xf3);
        }), 0, vec![]);
        c.txs.push(call_tx(&c, Some(A), 2_000_000, 3, vec![]));
        add(out, "call-context", c);
        // SELFDESTRUCT: existing contract to a new / existing / self beneficiary; created in the same transaction
        for target in [0xdeadu64, B, A] {
            let mut c = base(spec);
            with_contract(&mut c, A, code(|a| {
                a.push_u(target).op(0xff);
            }), 77, vec![(0, 1)]);
            with_contract(&mut c, B, vec![0x00], 1, vec![]);
            c.txs.push(call_tx(&c, Some(A), 200_000, 5, vec![]));
            add(out, "selfdestruct", c);
        }
        let mut c = base(spec);
        with_contract(&mut c, A, code(|a| {
            create(a, &init_return(&[0x33, 0xff]), 9, None);
            a.push_u(0).push_u(0).push_u(0).push_u(0).push_u(0).op(0x85).op(0x5a).op(0xf1);
            sstore_top(a, 0);
            a.op(0x80).op(0x31);
            sstore_top(a, 1);
            a.op(0x3b);
            sstore_top(a, 2);
            // twice in one transaction
            call(a, 0xf1, C, None, 0, 0, 0);
            a.op(0x50);
            call(a, 0xf1, C, None, 0, 0, 0);
            a.op(0x50);
        }), 50, vec![]);
        with_contract(&mut c, C, code(|a| {
            a.op(0x33).op(0xff);
        }), 4, vec![]);
        c.txs.push(call_tx(&c, Some(A), 600_000, 0, vec![]));
        add(out, "selfdestruct-created", c);
        // nonces and created addresses; failing initcode; collision by CREATE2 twice
        let mut c = base(spec);
        with_contract(&mut c, A, code(|a| {
            create(a, &init_return(&[0x00]), 0, None);
            sstore_top(a, 0);
            create(a, &[0x60, 0x00, 0x60, 0x00, 0xfd], 0, None);
            sstore_top(a, 1);
            create(a, &[0xfe], 0, None);
            sstore_top(a, 2);
            create(a, &init_return(&[0x00]), 0, None);
            sstore_top(a, 3);
            create(a, &init_return(&[0x00]), 0, Some(5));
            sstore_top(a, 4);
            create(a, &init_return(&[0x00]), 0, Some(5));
            sstore_top(a, 5);
            create(a, &init_return(&[0x00]), 1000, None);
            sstore_top(a, 6);
            a.op(0x3d);
            sstore_top(a, 7);
        }), 10, vec![]);
        c.txs.push(call_tx(&c, Some(A), 2_000_000, 0, vec![]));
        add(out, "create-nonce", c);
        // EXP gas per exponent byte, memory expansion, BLOCKHASH window, return-data rules
        let mut c = base(spec);
        with_contract(&mut c, A, code(|a| {
            for e in [U256::from(1u64), U256::from(0x100u64), U256::MAX] {
                a.push(e).push_u(3).op(0x0a);
                a.op(0x50);
            }
            a.push_u(1).push_u(0x10000).op(0x52);
            for n in [999u64, 1000, 1001, 744, 743, 0] {
                a.push_u(n).op(0x40);
                a.op(0x50);
            }
            a.push_u(999).op(0x40);
            sstore_top(a, 0);
            a.push_u(744).op(0x40);
            sstore_top(a, 1);
            a.push_u(743).op(0x40);
            sstore_top(a, 2);
        }), 0, vec![]);
        c.txs.push(call_tx(&c, Some(A), 500_000, 0, vec![]));
        add(out, "exp-mem-blockhash", c);
        // transaction to an absent account / value to absent account / zero-value touch of an empty account
        let mut c = base(spec);
        c.accts.push(Acct { addr: a_n(0xe0e0), ..Default::default() });
        c.txs.push(call_tx(&c, Some(0xdead), 50_000, 0, vec![]));
        c.txs.push(call_tx(&c, Some(0xdead), 50_000, 1, vec![]));
        c.txs.push(call_tx(&c, Some(0xe0e0), 50_000, 0, vec![]));
        c.txs.push(call_tx(&c, Some(3), 50_000, 0, vec![1, 2, 3]));
        add(out, "plain-transfers", c);
    }
    // account queries on every kind of account; transactions from a sender with code (EIP-3607)
    for spec in ALL {
        let mut c = base(spec);
        c.accts.push(Acct { addr: a_n(0xe0e0), ..Default::default() });
        c.accts.push(Acct { addr: a_n(0xe0e1), balance: U256::from(5u64), ..Default::default() });
        c.accts.push(Acct { addr: a_n(0xe0e2), nonce: 1, ..Default::default() });
        with_contract(&mut c, B, vec![0x00], 0, vec![]);
        with_contract(&mut c, A, code(|a| {
            let mut slot = 0u64;
            for t in [0xdeadu64, 0xe0e0, 0xe0e1, 0xe0e2, B, A, 2, 0xaaaa01] {
                for op in [0x31u8, 0x3b, 0x3f] {
                    a.push_u(t).op(op);
                    sstore_top(a, slot);
                    slot += 1;
                }
            }
            a.op(0x47);
            sstore_top(a, 100);
            a.push_u(8).push_u(0).push_u(0).push_u(B).op(0x3c).push_u(0).op(0x51);
            sstore_top(a, 101);
        }), 3, vec![]);
        c.txs.push(call_tx(&c, Some(A), 3_000_000, 0, vec![]));
        let mut t = call_tx(&c, Some(0xdead), 100_000, 0, vec![]);
        t.caller = a_n(A);
        t.nonce = None;
        c.accts.iter_mut().find(|x| x.addr == a_n(A)).unwrap().balance = ether(1);
        c.txs.push(t);
        add(out, "account-queries", c);
    }
    // RETURNDATA rules, static-context violations (Byzantium+)
    for spec in [SpecId::BYZANTIUM, SpecId::ISTANBUL, SpecId::CANCUN, SpecId::PRAGUE] {
        let mut c = base(spec);
        with_contract(&mut c, A, code(|a| {
            call(a, 0xf1, B, None, 0, 0, 0);
            a.op(0x50).op(0x3d);
            sstore_top(a, 0);
            a.push_u(40).push_u(0).push_u(0).op(0x3e);
            a.push_u(0).op(0x51);
            sstore_top(a, 1);
            call(a, 0xf1, C, None, 0, 0, 0);
            sstore_top(a, 2);
            a.op(0x3d);
            sstore_top(a, 3);
            // one byte too many: OutOfOffset
            a.push_u(1).push_u(4).push_u(0).op(0x3e);
        }), 0, vec![]);
        with_contract(&mut c, B, code(|a| {
            a.push(U256::MAX).push_u(0).op(0x52).push_u(40).push_u(0).op(0xf3);
        }), 0, vec![]);
        with_contract(&mut c, C, code(|a| {
            a.push_u(0xabcd).push_u(0).op(0x52).push_u(4).push_u(28).op(0xfd);
        }), 0, vec![]);
        c.txs.push(call_tx(&c, Some(A), 300_000, 0, vec![]));
        add(out, "returndata", c);
        for (i, body) in [
            code(|a| { a.push_u(1).push_u(0).op(0x55); }),
            code(|a| { a.push_u(0).push_u(0).op(0xa0); }),
            code(|a| { a.push_u(0).push_u(0).push_u(0).op(0xf0); }),
            code(|a| { a.push_u(0xdead).op(0xff); }),
            code(|a| { call(a, 0xf1, 0xdead, None, 1, 0, 0); }),
            code(|a| { call(a, 0xf1, 0xdead, None, 0, 0, 0); a.op(0x50); call(a, 0xf2, 0xdead, None, 1, 0, 0); }),
            code(|a| { a.push_u(1).push_u(0).op(0x5d); }),
            code(|a| { a.push_u(0).op(0x54).op(0x50).push_u(0).op(0x5c); }),
        ]
        .into_iter()
        .enumerate()
        {
            let mut c = base(spec);
            with_contract(&mut c, A, code(|a| {
                call(a, 0xfa, B, Some(U256::from(100_000u64)), 0, 0, 0);
                sstore_top(a, 0);
                a.op(0x5a);
                sstore_top(a, 1);
            }), 0, vec![]);
            with_contract(&mut c, B, body, 10, vec![]);
            c.txs.push(call_tx(&c, Some(A), 400_000, 0, vec![]));
            add(out, &format!("static-{}", i), c);
        }
        // RIPEMD-160 precedent: 0x03 touched by a failing call inside a reverting frame
        let mut c = base(spec);
        c.accts.push(Acct { addr: a_n(3), ..Default::default() });
        with_contract(&mut c, A, code(|a| {
            call(a, 0xf1, B, Some(U256::from(60_000u64)), 0, 0, 0);
            sstore_top(a, 0);
        }), 0, vec![]);
        with_contract(&mut c, B, code(|a| {
            call(a, 0xf1, 3, Some(U256::from(100u64)), 0, 32, 0);
            a.op(0x50);
            call(a, 0xf1, 3, Some(U256::from(5000u64)), 0, 32, 32);
            a.op(0x50).op(0xfe);
        }), 0, vec![]);
        c.txs.push(call_tx(&c, Some(A), 300_000, 0, vec![]));
        add(out, "ripemd-touch", c);
    }
    // precompiles with valid inputs, exact gas and one less
    {
        let h = |s: &str| -> Vec<u8> { (0..s.len() / 2).map(|i| u8::from_str_radix(&s[2 * i..2 * i + 2], 16).unwrap()).collect() };
        let ecrec = h("456e9aea5e197a1f1af7a3e85a3212fa4049a3ba34c2289b4c860fc0b0c64ef3000000000000000000000000000000000000000000000000000000000000001c9242685bf161793cc25603c231bc2f568eb630ea16aa137d2664ac80388256084f8ae3bd7535248d0bd448298cc2e2071e56992d0774dc340c368ae950852ada");
        let mut w = |n: u64| -> Vec<u8> { U256::from(n).to_be_bytes::<32>().to_vec() };
        let modexp: Vec<u8> = [w(1), w(1), w(1), vec![3, 5, 7]].concat();
        let modexp_big: Vec<u8> = [w(32), w(32), w(32), U256::MAX.to_be_bytes::<32>().to_vec(), U256::MAX.to_be_bytes::<32>().to_vec(), (U256::MAX - U256::from(58u64)).to_be_bytes::<32>().to_vec()].concat();
        let g1: Vec<u8> = [w(1), w(2)].concat();
        let bnadd: Vec<u8> = [g1.clone(), g1.clone()].concat();
        let bnmul: Vec<u8> = [g1.clone(), w(9)].concat();
        let blake = h("0000000c48c9bdf267e6096a3ba7ca8485ae67bb2bf894fe72f36e3cf1361d5f3af54fa5d182e6ad7f520e511f6c3e2b8c68059b6bbd41fbabd9831f79217e1319cde05b61626300000000000000000000000000000000000000000000000000000000000000000000000000000000000000000000000000000000000000000000000000000000000000000000000000000000000000000000000000000000000000000000000000000000000000000000000000000000000000000000000000000000000000000000000000000300000000000000000000000000000001");
        let inputs: Vec<(u64, Vec<u8>)> = vec![
            (1, ecrec.clone()),
            (1, ecrec[..100].to_vec()),
            (2, b"abc".to_vec()),
            (3, b"abc".to_vec()),
            (4, vec![1, 2, 3, 4, 5]),
            (5, modexp),
            (5, modexp_big),
            (6, bnadd),
            (6, vec![]),
            (7, bnmul),
            (8, vec![]),
            (8, vec![1u8; 192]),
            (9, blake.clone()),
            (9, blake[..212].to_vec()),
            (10, vec![0u8; 192]),
            (11, vec![0u8; 256]),
            (16, vec![0u8; 64]),
        ];
        for spec in [SpecId::HOMESTEAD, SpecId::BYZANTIUM, SpecId::ISTANBUL, SpecId::BERLIN, SpecId::CANCUN, SpecId::PRAGUE] {
            for (addr, input) in &inputs {
                let mut c = base(spec);
                // through a transaction
                c.txs.push(call_tx(&c, Some(*addr), 500_000, 0, input.clone()));
                // through a contract that copies its calldata and stores the result
                with_contract(&mut c, A, code(|a| {
                    a.op(0x36).push_u(0).push_u(0).op(0x37);
                    a.push_u(64).push_u(0x400).op(0x36).push_u(0).push_u(0).push_u(*addr).op(0x5a).op(0xf1);
                    sstore_top(a, 0);
                    a.push_u(0x400).op(0x51);
                    sstore_top(a, 1);
                    a.op(0x3d);
                    sstore_top(a, 2);
                }), 0, vec![]);
                c.txs.push(call_tx(&c, Some(A), 600_000, 0, input.clone()));
                add(out, &format!("precompile-{}", addr), c);
            }
        }
        let _ = &mut w;
    }
    // access lists
    for spec in [SpecId::BERLIN, SpecId::LONDON, SpecId::MERGE, SpecId::SHANGHAI, SpecId::CANCUN, SpecId::PRAGUE] {
        let mut c = base(spec);
        with_contract(&mut c, A, code(|a| {
            for k in [0u64, 1, 2] {
                a.push_u(k).op(0x54).op(0x50);
            }
            a.push_u(B).op(0x31).op(0x50).push_u(C).op(0x3b).op(0x50).push_u(0xdead).op(0x3f).op(0x50);
            a.op(0x41).op(0x31).op(0x50).push_u(4).op(0x31).op(0x50);
            // the address of the early EIP-2935 draft is an ordinary cold address
            a.push(U256::from_str_radix("25a219378dad9b3503c8268c9ca836a52427a4fb", 16).unwrap()).op(0x31).op(0x50);
            call(a, 0xf1, B, Some(U256::from(10_000u64)), 0, 0, 0);
            a.op(0x50);
            a.op(0x5a);
            sstore_top(a, 5);
        }), 0, vec![(0, 1), (1, 2)]);
        with_contract(&mut c, B, vec![0x00], 0, vec![]);
        with_contract(&mut c, C, vec![0x00], 0, vec![]);
        for al in [
            vec![],
            vec![(a_n(A), vec![U256::ZERO, U256::from(2u64)])],
            vec![(a_n(B), vec![]), (a_n(0xdead), vec![U256::ZERO]), (sender(), vec![]), (a_n(A), vec![U256::from(1u64), U256::from(1u64)])],
        ] {
            let mut t = call_tx(&c, Some(A), 300_000, 0, vec![]);
            t.access_list = al;
            c.txs.push(t);
        }
        add(out, "access-list", c);
    }
    // fees: EIP-1559 tips, blob fee, reward
    for spec in [SpecId::LONDON, SpecId::CANCUN, SpecId::PRAGUE] {
        let mut c = base(spec);
        with_contract(&mut c, A, code(|a| {
            a.op(0x3a);
            sstore_top(a, 0);
            a.op(0x48);
            sstore_top(a, 1);
            if SpecId::enabled(spec, SpecId::CANCUN) {
                a.op(0x4a);
                sstore_top(a, 2);
                a.push_u(0).op(0x49);
                sstore_top(a, 3);
                a.push_u(1).op(0x49);
                sstore_top(a, 4);
                a.push_u(2).op(0x49);
                sstore_top(a, 5);
            }
        }), 0, vec![]);
        for (price, prio) in [(15u64, Some(3u64)), (15, Some(15)), (15, Some(0)), (10, Some(0)), (100, Some(7)), (12, None)] {
            let mut t = call_tx(&c, Some(A), 300_000, 1, vec![]);
            t.gas_price = U256::from(price);
            t.prio = prio.map(U256::from);
            c.txs.push(t);
        }
        if SpecId::enabled(spec, SpecId::CANCUN) {
            for nb in [1usize, 2, 6, 7, 9, 10] {
                let mut t = call_tx(&c, Some(A), 300_000, 0, vec![]);
                t.prio = Some(U256::from(1u64));
                t.blobs = (0..nb).map(|i| {
                    let mut b = [0u8; 32];
                    b[0] = 1;
                    b[31] = i as u8 + 1;
                    B256::from(b)
                }).collect();
                t.max_blob_fee = Some(U256::from(5u64));
                c.txs.push(t);
            }
            let mut t = call_tx(&c, Some(A), 300_000, 0, vec![]);
            t.blobs = vec![B256::from(U256::from(1u64) << 248)];
            t.max_blob_fee = Some(U256::from(2u64));
            c.txs.push(t);
        }
        add(out, "fees", c);
    }
    // EIP-7702
    {
        let spec = SpecId::PRAGUE;
        let eoa = 0xaaaa02u64;
        let eoa_new = 0xaaaa09u64;
        let mut c = base(spec);
        c.accts.push(Acct { addr: a_n(eoa), balance: U256::from(1000u64), nonce: 3, ..Default::default() });
        with_contract(&mut c, A, code(|a| {
            a.op(0x30);
            sstore_top(a, 0);
            a.op(0x33);
            sstore_top(a, 1);
            a.push_u(eoa).op(0x3b);
            sstore_top(a, 2);
            a.push_u(eoa).op(0x3f);
            sstore_top(a, 3);
            a.push_u(23).push_u(0).push_u(0).push_u(eoa).op(0x3c).push_u(0).op(0x51);
            sstore_top(a, 4);
        }), 0, vec![]);
        with_contract(&mut c, B, code(|a| {
            call(a, 0xf1, eoa, Some(U256::from(100_000u64)), 0, 0, 0);
            sstore_top(a, 0);
            call(a, 0xf1, eoa_new, Some(U256::from(100_000u64)), 0, 0, 0);
            sstore_top(a, 1);
            a.op(0x5a);
            sstore_top(a, 2);
        }), 0, vec![]);
        let auth = |authority: u64, address: u64, nonce: u64, chain: u64| AuthItem {
            chain_id: U256::from(chain),
            address: a_n(address),
            nonce,
            authority: Some(a_n(authority)),
        };
        for (to, list) in [
            (eoa, vec![auth(eoa, A, 3, 1)]),
            (eoa, vec![auth(eoa, A, 3, 0)]),
            (eoa, vec![auth(eoa, A, 4, 1)]),
            (eoa, vec![auth(eoa, A, 3, 2)]),
            (eoa_new, vec![auth(eoa_new, A, 0, 1)]),
            (B, vec![auth(eoa, A, 3, 1), auth(eoa_new, A, 0, 1)]),
            (B, vec![auth(eoa, A, 3, 1), auth(eoa, 0, 4, 1)]),
            (eoa, vec![auth(eoa, eoa, 3, 1)]),
            (eoa, vec![auth(eoa, 4, 3, 1)]),
            (eoa, vec![auth(A, B, 1, 1)]),
            (eoa, vec![AuthItem { chain_id: U256::from(1u64), address: a_n(A), nonce: 3, authority: None }]),
            (A, vec![AuthItem { chain_id: U256::from(1u64), address: a_n(A), nonce: 8, authority: Some(sender()) }]),
        ] {
            let mut t = call_tx(&c, Some(to), 400_000, 0, vec![]);
            t.prio = Some(U256::from(1u64));
            t.auth = Some(list);
            c.txs.push(t);
        }
        add(out, "eip7702", c);
        // a delegated account in the pre-state, chains of delegation, delegation to a precompile / to itself
        for target in [A, 0xaaaa05u64, 4, 0xaaaa04] {
            let mut c = base(spec);
            let mut des = vec![0xef, 0x01, 0x00];
            des.extend_from_slice(a_n(target).as_slice());
            c.accts.push(Acct { addr: a_n(0xaaaa04), balance: U256::from(9u64), nonce: 1, code: des.clone(), ..Default::default() });
            let mut des2 = vec![0xef, 0x01, 0x00];
            des2.extend_from_slice(a_n(A).as_slice());
            c.accts.push(Acct { addr: a_n(0xaaaa05), balance: U256::ZERO, nonce: 1, code: des2, ..Default::default() });
            with_contract(&mut c, A, code(|a| {
                a.op(0x30);
                sstore_top(a, 0);
            }), 0, vec![]);
            with_contract(&mut c, B, code(|a| {
                for op in [0xf1u8, 0xf2, 0xf4, 0xfa] {
                    call(a, op, 0xaaaa04, Some(U256::from(50_000u64)), 0, 0, 0);
                    a.op(0x50);
                }
                a.op(0x5a);
                sstore_top(a, 1);
            }), 0, vec![]);
            c.txs.push(call_tx(&c, Some(0xaaaa04), 200_000, 1, vec![]));
            c.txs.push(call_tx(&c, Some(B), 400_000, 0, vec![]));
            // the delegated account as the sender of a transaction
            let mut t = call_tx(&c, Some(A), 100_000, 0, vec![]);
            t.caller = a_n(0xaaaa04);
            t.nonce = Some(1);
            c.accts.iter_mut().find(|x| x.addr == a_n(0xaaaa04)).unwrap().balance = ether(1);
            c.txs.push(t);
            add(out, "delegated-prestate", c);
        }
    }
    // create transactions onto occupied addresses
    for spec in [SpecId::HOMESTEAD, SpecId::SPURIOUS_DRAGON, SpecId::CANCUN] {
        for kind in 0..5 {
            for hs in [true, false] {
                let mut c = base(spec);
                c.hs = hs;
                let at = sender().create(7);
                let mut acc = Acct { addr: at, ..Default::default() };
                match kind {
                    0 => acc.nonce = 1,
                    1 => acc.code = vec![0x00],
                    2 => acc.storage = vec![(U256::from(1u64), U256::from(1u64))],
                    3 => acc.balance = U256::from(7u64),
                    _ => acc.storage = vec![(U256::from(1u64), U256::ZERO)],
                }
                c.accts.push(acc);
                c.txs.push(call_tx(&c, None, 200_000, 2, init_return(&[0x00])));
                add(out, "tx-create-collision", c);
            }
        }
    }
    // transient storage across frames and reverts
    for spec in [SpecId::SHANGHAI, SpecId::CANCUN, SpecId::PRAGUE] {
        let mut c = base(spec);
        with_contract(&mut c, A, code(|a| {
            a.push_u(5).push_u(1).op(0x5d);
            call(a, 0xf1, B, None, 0, 0, 0);
            a.op(0x50);
            call(a, 0xf4, B, None, 0, 0, 0);
            a.op(0x50);
            a.push_u(1).op(0x5c);
            sstore_top(a, 0);
            call(a, 0xf1, A, Some(U256::from(30_000u64)), 0, 0, 0);
            a.op(0x50);
            a.push_u(1).op(0x5c);
            sstore_top(a, 1);
            a.push_u(2).push_u(3).push_u(4).op(0x5e);
            a.op(0x5f);
            sstore_top(a, 2);
        }), 0, vec![]);
        with_contract(&mut c, B, code(|a| {
            a.push_u(9).push_u(1).op(0x5d).push_u(0).push_u(0).op(0xfd);
        }), 0, vec![]);
        c.txs.push(call_tx(&c, Some(A), 400_000, 0, vec![]));
        add(out, "transient", c);
    }
    // complete each case: oracle lines, then "exactly the gas spent" and one less for the first transaction
    for c in v.iter_mut() {
        add_oracle(c);
        let t0 = c.txs[0].clone();
        let r = {
            let p = c.clone();
            let t = t0.clone();
            guarded(move || run_tx(&p, &t))
        };
        let mut used = None;
        let mut refund = None;
        for tok in r.split(' ') {
            if let Some(x) = tok.strip_prefix("gas=") {
                used = x.parse::<u64>().ok();
            }
            if let Some(x) = tok.strip_prefix("refund=") {
                refund = x.parse::<u64>().ok();
            }
        }
        if let (Some(u), Some(rf)) = (used, refund) {
            let spent = u + rf;
            if r.starts_with("success") && spent > 21_000 && spent < 1_500_000 {
                for g in [spent, spent - 1] {
                    let mut t = t0.clone();
                    t.gas_limit = g;
                    c.txs.push(t);
                }
                add_oracle(c);
            }
        }
    }
    // the real EIP-3860 sizes (thorough tier only; no derived gas limits: each run of the list-based Lean model on a
    // 49152-byte initcode takes tens of seconds)
    if big {
        for len in [0xc000u64, 0xc001] {
            let spec = SpecId::SHANGHAI;
            let mut c = base(spec);
            with_contract(&mut c, A, code(|a| {
                a.push_u(7).push_u(len).push_u(0).push_u(0).op(0xf5);
                sstore_top(a, 1);
            }), 0, vec![]);
            c.txs.push(call_tx(&c, Some(A), 3_000_000, 0, vec![]));
            out.count("boundary-initcode-limit-opcode-real-size");
            v.push(c);
            let mut c = base(spec);
            c.txs.push(call_tx(&c, None, 3_000_000, 0, vec![0u8; len as usize]));
            out.count("boundary-initcode-limit-tx-real-size");
            v.push(c);
        }
    }
    v
}
